#!/usr/bin/env python3
"""Regenerate MANIFEST.json from sa/props.py (single source of truth)."""
import json, os, sys
here = os.path.dirname(os.path.dirname(os.path.abspath(__file__)))
sys.path.insert(0, here)
from sa.props import PROPS, NOT_APPLICABLE, ALL_IDS

BASELINE = "cd /repo && /venv/bin/python -m pytest -ra -q -p no:cacheprovider --timeout=900 --continue-on-collection-errors"
man = {
    "version": 1,
    "setup_cmd": "python3-vt -m compileall -q sa tools",
    "hooks": {
        "guard": "EXO_VERIF_SA",
        "enable": "none needed: every check is a static analysis of /repo's source; no hook exists in /repo",
        "baseline_off_cmd": BASELINE,
        "source_commits": [],
        "add_only": True,
    },
    "engines": [
        {
            "name": "sa",
            "path": "/verif/sa",
            "serves_properties": sorted(PROPS),
            "kind_free_text": "repository-specific static analysis over Python ast: ADT-driven dispatch/traversal analysis, "
            "structured dataflow (must/may), call-site and layering rules, table agreement; no execution of exo, no solver",
        }
    ],
    "checks": [],
    "not_applicable": [],
    "notes": "All checks are static (ast only), deterministic, and re-parse /repo on every run. Exit 2 + ANALYSIS-ERROR means the analysis "
    "itself is broken (vanished anchor, instance count under the confirmed floor) and is never a verdict. known_findings.json lists genuine "
    "defects recorded rather than repaired; see DESIGN.md §7.",
}
for pid in sorted(PROPS):
    sp = PROPS[pid]
    man["checks"].append(
        {
            "property_id": pid,
            "quick_cmd": f"python3-vt -m sa.check {pid} --tier quick",
            "thorough_cmd": f"python3-vt -m sa.check {pid} --tier thorough",
            "evidence_file": f"/verif/evidence/{pid}.json",
            "replay_cmd_template": "python3-vt -m sa.check --replay {path}",
            "engine": "sa",
            "level_claimed": {"category": "other", "text": sp["level_text"], "design_ref": sp.get("design_ref", "DESIGN.md §4")},
            "level_note": sp["level_note"],
            "technique": sp["technique"],
        }
    )
for pid in ALL_IDS:
    if pid not in PROPS:
        man["not_applicable"].append({"property_id": pid, "reason": NOT_APPLICABLE[pid]})
with open(os.path.join(here, "MANIFEST.json"), "w") as fh:
    json.dump(man, fh, indent=1)
    fh.write("\n")
print("wrote MANIFEST.json:", len(man["checks"]), "checks,", len(man["not_applicable"]), "not applicable")
