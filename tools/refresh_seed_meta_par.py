#!/usr/bin/env python3
"""Parallel variant of refresh_seed_meta.py: re-evaluates every recorded seed against the current
checks and rewrites the `checks` block of its meta.json.  Each seed is applied to its own scratch
export of /repo's HEAD (outside /repo and /verif, removed afterwards) and every check is run on it
with --root; /repo itself is not touched.  usage: refresh_seed_meta_par.py [jobs] [substr ...]"""
import glob, json, os, shutil, subprocess, sys, tempfile
from concurrent.futures import ThreadPoolExecutor
here = os.path.dirname(os.path.dirname(os.path.abspath(__file__)))
sys.path.insert(0, here)
from sa.props import PROPS
jobs = int(sys.argv[1]) if len(sys.argv) > 1 and sys.argv[1].isdigit() else 6
only = [a for a in sys.argv[1:] if not a.isdigit()]

def one(d):
    mp = os.path.join(d, "meta.json")
    m = json.load(open(mp))
    if m.get("superseded"):
        return m["id"], "superseded", [], ""
    tmp = tempfile.mkdtemp(prefix="seedchk_", dir="/tmp")
    try:
        ar = subprocess.run(f"git -C /repo archive HEAD src | tar -x -C {tmp}", shell=True, capture_output=True, text=True)
        ap = subprocess.run(["git", "apply", os.path.join(d, "patch.diff")], cwd=tmp, capture_output=True, text=True)
        if ap.returncode != 0:
            return m["id"], "PATCH DOES NOT APPLY", [], ap.stderr[-200:]
        fired = {}
        for p in sorted(PROPS):
            r = subprocess.run(["python3-vt", "-m", "sa.check", p, "--root", tmp, "--no-evidence"], cwd=here, capture_output=True, text=True)
            viol = [l for l in r.stdout.splitlines() if l.startswith("VIOLATION")]
            err = [l for l in r.stdout.splitlines() if l.startswith("ANALYSIS-ERROR")]
            if r.returncode != 0:
                fired[p] = {"violations": viol, "errors": err}
    finally:
        shutil.rmtree(tmp, ignore_errors=True)
    rules = sorted({v.split("rule=")[1].split()[0] for p in fired.values() for v in p["violations"]})
    old = m["checks"]
    m["checks"] = {
        "caught_by_properties": sorted(p for p, v in fired.items() if v["violations"]),
        "rules": rules,
        "violation_lines": [v for p in fired.values() for v in p["violations"]][:6],
        "analysis_errors": [e for p in fired.values() for e in p["errors"]],
        "how": old["how"],
    }
    if old.get("strengthened_after_this_seed"):
        m["checks"]["strengthened_after_this_seed"] = old["strengthened_after_this_seed"]
    json.dump(m, open(mp, "w"), indent=1)
    return m["id"], rules, m["checks"]["caught_by_properties"], "ERRORS" if m["checks"]["analysis_errors"] else ""

ds = [d for d in sorted(glob.glob(os.path.join(here, "seeded", "S*"))) if not only or any(o in d for o in only)]
with ThreadPoolExecutor(jobs) as ex:
    for res in ex.map(one, ds):
        print(*res)
        sys.stdout.flush()
