#!/usr/bin/env python3
"""Re-evaluates every recorded seeded change: applies seeded/<id>/patch.diff to /repo, runs the
check of the property it breaks (plus any other check recorded as firing), undoes it.
Prints one line per seed; exit 1 if a seed is no longer caught by a VIOLATION of its property."""
import glob, json, os, subprocess, sys
here = os.path.dirname(os.path.dirname(os.path.abspath(__file__)))
bad = 0
for d in sorted(glob.glob(os.path.join(here, "seeded", "S*"))):
    m = json.load(open(os.path.join(d, "meta.json")))
    if m.get("superseded"):
        print(f"{m['id']}: superseded — {m['superseded'][:90]}…")
        continue
    props = sorted(set([m["property_broken"]] + m["checks"]["caught_by_properties"]))
    r = subprocess.run([sys.executable, os.path.join(here, "tools", "eval_seed.py"), os.path.join(d, "patch.diff"), "--props", ",".join(props)], capture_output=True, text=True)
    try:
        ev = json.loads(r.stdout)
    except Exception:
        print(f"{m['id']}: ERROR {r.stdout[:200]} {r.stderr[:200]}")
        bad += 1
        continue
    own = ev["fired"].get(m["property_broken"], {})
    ok = bool(own.get("violations"))
    rules = sorted({v.split("rule=")[1].split()[0] for p in ev["fired"].values() for v in p["violations"]})
    print(f"{m['id']}: {'caught' if ok else 'NOT CAUGHT'} by {rules} in {sorted(ev['fired'])}")
    bad += 0 if ok else 1
sys.exit(1 if bad else 0)
