#!/usr/bin/env python3
"""record_seed.py <seed-id> <property> <scratch-dir> <confirm.json> <needs-text> [--strengthened "<what was added>"]
Stores a confirmed seeded change under /verif/seeded/<seed-id>/ with the verdict of every check."""
import json, os, shutil, subprocess, sys
here = os.path.dirname(os.path.dirname(os.path.abspath(__file__)))
sid, prop, d, conf, needs = sys.argv[1:6]
strengthened = sys.argv[sys.argv.index("--strengthened") + 1] if "--strengthened" in sys.argv else None
dst = os.path.join(here, "seeded", sid)
os.makedirs(dst, exist_ok=True)
shutil.copy(os.path.join(d, "patch.diff"), os.path.join(dst, "patch.diff"))
shutil.copy(os.path.join(d, "demo.py"), os.path.join(dst, "demo.py"))
rep = os.path.join(os.path.dirname(conf), os.path.basename(conf).replace(".json", ".report.md"))
if os.path.exists(rep):
    shutil.copy(rep, os.path.join(dst, "agent_report.md"))
if os.path.isfile(needs):
    needs = open(needs).read().strip()
c = json.load(open(conf))
r = subprocess.run([sys.executable, os.path.join(here, "tools", "eval_seed.py"), os.path.join(dst, "patch.diff")], capture_output=True, text=True)
ev = json.loads(r.stdout)
rules = sorted({v.split("rule=")[1].split()[0] for p in ev["fired"].values() for v in p["violations"]})
meta = {
    "id": sid,
    "property_broken": prop,
    "needs_to_manifest": needs,
    "origin": "independent sub-agent given only the property text and a scratch worktree",
    "confirmed": {
        "demo_exit_with_change": c["demo_rc_with_change"],
        "demo_exit_without_change": c["demo_rc_without_change"],
        "baseline_suite_with_change": c["suite"],
        "how": "tools/confirm_seed.sh in the scratch worktree: demo.py with the change / with it reverse-applied (git apply -R); full pytest suite with the change compared with BASELINE.json stable_pass (tools/cmp_suite.py)",
    },
    "checks": {
        "caught_by_properties": sorted(ev["fired"]),
        "rules": rules,
        "violation_lines": [v for p in ev["fired"].values() for v in p["violations"]][:6],
        "analysis_errors": [e for p in ev["fired"].values() for e in p["errors"]],
        "how": "tools/eval_seed.py: git -C /repo apply patch.diff; every check's quick command; git -C /repo checkout -- .",
    },
}
if strengthened:
    meta["checks"]["strengthened_after_this_seed"] = strengthened
json.dump(meta, open(os.path.join(dst, "meta.json"), "w"), indent=1)
print(json.dumps(meta["checks"], indent=1)[:600])
