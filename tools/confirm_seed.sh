#!/bin/bash
# usage: confirm_seed.sh <dir-of-scratch-worktree> <out.json>
# Confirms a seeded change in its own scratch worktree: demo fails with the change and
# passes without it; the baseline test-suite still passes with it.
D="$1"; OUT="$2"
cd "$D" || exit 2
# one confirmation per worktree at a time; a finished one is not repeated
exec 9> /tmp/advres/$(basename $D).lock; flock 9
if [ -f "$OUT" ] && grep -q "passing now: 686" "$OUT"; then cat "$OUT"; exit 0; fi
export PYTHONPATH="$D/src"
git diff -- src > /tmp/advres/$(basename $D).cur.diff
# with the change
timeout 600 /venv/bin/python demo.py > /tmp/advres/$(basename $D).demo_mut.log 2>&1; RC_MUT=$?
# NB: never `git stash` here — the stash is shared by all worktrees of one repository
git apply -R /tmp/advres/$(basename $D).cur.diff
timeout 600 /venv/bin/python demo.py > /tmp/advres/$(basename $D).demo_orig.log 2>&1; RC_ORIG=$?
git apply /tmp/advres/$(basename $D).cur.diff
# suite with the change
/venv/bin/python -m pytest -q -p no:cacheprovider --timeout=900 --continue-on-collection-errors -n 10 --junitxml=/tmp/advres/$(basename $D).xml > /tmp/advres/$(basename $D).suite.log 2>&1
python3 /verif/tools/cmp_suite.py /tmp/advres/$(basename $D).xml > /tmp/advres/$(basename $D).cmp.txt 2>&1
PASSING=$(head -1 /tmp/advres/$(basename $D).cmp.txt)
echo "{\"dir\": \"$D\", \"demo_rc_with_change\": $RC_MUT, \"demo_rc_without_change\": $RC_ORIG, \"suite\": \"$PASSING\"}" > "$OUT"
cat "$OUT"
