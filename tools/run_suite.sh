#!/bin/bash
# helper (not a registered check): run the full baseline suite of a scratch worktree; compare with tools/cmp_suite.py <prefix>.xml
# usage: run_suite.sh <worktree> <out-prefix>
cd "$1" && PYTHONPATH="$1/src" /venv/bin/python -m pytest -q -p no:cacheprovider --timeout=2400 --continue-on-collection-errors -n 12 --junitxml="$2.xml" > "$2.log" 2>&1
echo "exit $?" >> "$2.log"
