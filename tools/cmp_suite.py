import json,sys,xml.etree.ElementTree as ET
base=json.load(open('/root/.vp/BASELINE.json'))
stable=set(base['stable_pass'])
t=ET.parse(sys.argv[1]).getroot()
res={}
for tc in t.iter('testcase'):
    name=f"{tc.get('classname')}::{tc.get('name')}"
    st='pass'
    for ch in tc:
        if ch.tag in ('failure','error'): st='fail'
        if ch.tag=='skipped': st='skip'
    res[name]=st
bad=[n for n in stable if res.get(n)!='pass']
print('stable:',len(stable),'passing now:',len(stable)-len(bad))
for b in sorted(bad): print('  NOT PASSING:',b,res.get(b))
