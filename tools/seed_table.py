#!/usr/bin/env python3
"""Prints the markdown table of recorded seeded changes (seeded/*/meta.json) for DESIGN.md §10.6
and, with --write, replaces the block between the SEED-TABLE markers in DESIGN.md."""
import json, os, re, sys, glob
here = os.path.dirname(os.path.dirname(os.path.abspath(__file__)))
rows = []
for d in sorted(glob.glob(os.path.join(here, "seeded", "S*"))):
    m = json.load(open(os.path.join(d, "meta.json")))
    patch = open(os.path.join(d, "patch.diff")).read()
    files = re.findall(r"^\+\+\+ b/(\S+)", patch, re.M)
    hunks = re.findall(r"^@@ .*?@@ ?(.*)$", patch, re.M)
    where = ", ".join(sorted({os.path.basename(f) for f in files}))
    ctx = "; ".join(dict.fromkeys(h.strip()[:48] for h in hunks if h.strip()))[:70]
    needs = " ".join(m["needs_to_manifest"].split())
    needs = re.sub(r"[`*]", "", needs)
    if len(needs) > 230:
        needs = needs[:227].rsplit(" ", 1)[0] + " …"
    chk = m["checks"]
    caught = ", ".join(chk["rules"]) + " (" + ", ".join(chk["caught_by_properties"]) + ")" if chk["rules"] else "MISSED"
    st = "yes — " + chk["strengthened_after_this_seed"] if chk.get("strengthened_after_this_seed") else "no (caught as built)"
    if m.get("superseded"):
        st += " — SUPERSEDED: " + m["superseded"]
    rows.append((m["id"], m["property_broken"], f"{where}: {ctx}", needs, caught, st))
out = ["| seed | breaks | where | needs, to manifest | caught by rule (checks that exit 1) | check strengthened after the seed? |", "|---|---|---|---|---|---|"]
for r in rows:
    out.append("| " + " | ".join(x.replace("|", "\\|") for x in r) + " |")
n_asbuilt = sum(1 for r in rows if r[5].startswith("no"))
out.append("")
out.append(f"{len(rows)} confirmed seeded changes; {n_asbuilt} were caught by the checks as they stood when the change arrived, "
           f"{len(rows) - n_asbuilt} only after the named rule was added or extended (every one is caught now; `tools/eval_seed.py` re-runs this).")
txt = "\n".join(out)
if "--write" in sys.argv:
    p = os.path.join(here, "DESIGN.md")
    s = open(p).read()
    a, b = "<!-- SEED-TABLE-BEGIN -->", "<!-- SEED-TABLE-END -->"
    s = s[: s.index(a) + len(a)] + "\n" + txt + "\n" + s[s.index(b):]
    open(p, "w").write(s)
else:
    print(txt)
