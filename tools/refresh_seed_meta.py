#!/usr/bin/env python3
"""Re-evaluates every recorded seed against the current checks (all properties) and rewrites the
`checks` block of its meta.json (keeping the strengthened-after note)."""
import glob, json, os, subprocess, sys
here = os.path.dirname(os.path.dirname(os.path.abspath(__file__)))
only = sys.argv[1:]
for d in sorted(glob.glob(os.path.join(here, "seeded", "S*"))):
    if only and not any(o in d for o in only):
        continue
    mp = os.path.join(d, "meta.json")
    m = json.load(open(mp))
    r = subprocess.run([sys.executable, os.path.join(here, "tools", "eval_seed.py"), os.path.join(d, "patch.diff")], capture_output=True, text=True)
    ev = json.loads(r.stdout)
    rules = sorted({v.split("rule=")[1].split()[0] for p in ev["fired"].values() for v in p["violations"]})
    old = m["checks"]
    m["checks"] = {
        "caught_by_properties": sorted(p for p, v in ev["fired"].items() if v["violations"]),
        "rules": rules,
        "violation_lines": [v for p in ev["fired"].values() for v in p["violations"]][:6],
        "analysis_errors": [e for p in ev["fired"].values() for e in p["errors"]],
        "how": old["how"],
    }
    if old.get("strengthened_after_this_seed"):
        m["checks"]["strengthened_after_this_seed"] = old["strengthened_after_this_seed"]
    json.dump(m, open(mp, "w"), indent=1)
    print(m["id"], rules, m["checks"]["caught_by_properties"], "ERRORS" if m["checks"]["analysis_errors"] else "")
