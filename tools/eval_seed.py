#!/usr/bin/env python3
"""Apply a seeded patch to /repo, run every claimed check (quick, no evidence), undo.
usage: eval_seed.py <patch.diff> [--props C01,C07]"""
import json, os, subprocess, sys
here = os.path.dirname(os.path.dirname(os.path.abspath(__file__)))
sys.path.insert(0, here)
from sa.props import PROPS

patch = os.path.abspath(sys.argv[1])
props = sorted(PROPS)
if "--props" in sys.argv:
    props = sys.argv[sys.argv.index("--props") + 1].split(",")
st = subprocess.run(["git", "-C", "/repo", "status", "--porcelain", "--untracked-files=no"], capture_output=True, text=True).stdout.strip()
if st:
    print("refusing: /repo has local modifications:\n" + st)
    sys.exit(2)
r = subprocess.run(["git", "-C", "/repo", "apply", patch], capture_output=True, text=True)
if r.returncode != 0:
    print("patch does not apply:", r.stderr)
    sys.exit(2)
out = {}
try:
    for p in props:
        r = subprocess.run(["python3-vt", "-m", "sa.check", p, "--no-evidence"], cwd=here, capture_output=True, text=True)
        viol = [l for l in r.stdout.splitlines() if l.startswith("VIOLATION")]
        err = [l for l in r.stdout.splitlines() if l.startswith("ANALYSIS-ERROR")]
        out[p] = {"rc": r.returncode, "violations": viol, "errors": err}
finally:
    subprocess.run(["git", "-C", "/repo", "checkout", "--", "."], check=True)
fired = {p: v for p, v in out.items() if v["rc"] != 0}
print(json.dumps({"patch": patch, "fired": fired, "silent": [p for p in out if out[p]["rc"] == 0]}, indent=1))
