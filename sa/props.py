"""Property -> rules.  Single source of truth for MANIFEST.json (tools/gen_manifest.py)."""

ALL_IDS = [f"C{i:02d}" for i in range(1, 20)]

_UNDER = "check not built yet in this session (see DESIGN.md §4 for the planned rules); not claimed until it exists"

NOT_APPLICABLE = {pid: _UNDER for pid in ALL_IDS}
NOT_APPLICABLE["C13"] = (
    "range-analysis soundness is a universally quantified arithmetic fact about interval formulas; no structural clause is a necessary "
    "condition without being a frozen copy of the formulas — needs proof/solver/enumeration, other technique families (DESIGN.md §5)"
)

PROPS = {
    "C09": {
        "rules": ["TRAV@C09", "TRAVBASE", "PARCHECK", "BACKPIPE", "PAREMIT", "EXH"],
        "thorough": [],
        "technique": "static analysis: per-constructor path simulation of visitor overrides (traversal completeness) + pipeline def-use",
        "level_text": "Structural clauses only: every Par loop at any nesting depth reaches Check_ParallelizeLoop before code generation "
        "(traversal completeness of ParallelAnalysis and of the template visitors it is built on). Decided for all programs at once from the "
        "source; does not decide that the SMT condition inside Check_ParallelizeLoop is the right one.",
        "level_note": "Trusted: the LoopIR ASDL text in core/LoopIR.py is the ADT; hook-naming convention of LoopIR_Do/LoopIR_Rewrite; "
        "soundness of Disjoint_Memory/Commutes is NOT decided.",
        "explanation": "For every subclass of LoopIR_Do/LoopIR_Rewrite and every traversal-hook override, each constructor K of the hook's "
        "category is simulated along every path of the override: the path must delegate to super(), or hand every required child field of K to "
        "the class's own hooks, else children are silently skipped. The template visitors themselves are checked the same way.",
        "assumptions": ["LoopIR ADT as declared in src/exo/core/LoopIR.py", "paths are enumerated syntactically; conditions other than constructor tests are explored both ways"],
        "design_ref": "DESIGN.md §3.2, §4 C09",
    },
}
