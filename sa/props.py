"""Property -> rules.  Single source of truth for MANIFEST.json (tools/gen_manifest.py)."""

ALL_IDS = [f"C{i:02d}" for i in range(1, 20)]

_UNDER = "check not built yet in this session (see DESIGN.md §4 for the planned rules); not claimed until it exists"

NOT_APPLICABLE = {pid: _UNDER for pid in ALL_IDS}
NOT_APPLICABLE["C13"] = (
    "range-analysis soundness is a universally quantified arithmetic fact about interval formulas; no structural clause is a necessary "
    "condition without being a frozen copy of the formulas — needs proof/solver/enumeration, other technique families (DESIGN.md §5)"
)

PROPS = {
    "C09": {
        "rules": ["TRAV@C09", "TRAVBASE", "PARCHECK", "BACKPIPE", "PAREMIT", "PREDSPEC", "CTXSHAPE", "ENVSHADOW", "VERDICT", "EFFORDER", "LOCSETS", "FIELDS", "EXH"],
        "thorough": [],
        "technique": "static analysis: per-constructor path simulation of visitor overrides (traversal completeness) + pipeline def-use",
        "level_text": "Structural clauses only: every Par loop at any nesting depth reaches Check_ParallelizeLoop before code generation "
        "(traversal completeness of ParallelAnalysis and of the template visitors it is built on). Decided for all programs at once from the "
        "source; does not decide that the SMT condition inside Check_ParallelizeLoop is the right one. Also: effect lists are in evaluation order and the location-set transfer functions lose no read.",
        "level_note": "Trusted: the LoopIR ASDL text in core/LoopIR.py is the ADT; hook-naming convention of LoopIR_Do/LoopIR_Rewrite; "
        "soundness of Disjoint_Memory/Commutes is NOT decided.",
        "explanation": "For every subclass of LoopIR_Do/LoopIR_Rewrite and every traversal-hook override, each constructor K of the hook's "
        "category is simulated along every path of the override: the path must delegate to super(), or hand every required child field of K to "
        "the class's own hooks, else children are silently skipped. The template visitors themselves are checked the same way.",
        "assumptions": ["LoopIR ADT as declared in src/exo/core/LoopIR.py", "paths are enumerated syntactically; conditions other than constructor tests are explored both ways"],
        "design_ref": "DESIGN.md §3.2, §4 C09",
    },
    "C17": {
        "rules": ["FRESHNAME", "PRINTSCOPE", "PRINTSYM", "VALIDNAME", "PRINTPARSE", "PREC", "FIELDS", "EXH"],
        "thorough": [],
        "technique": "static analysis: fresh-name registry rule, precedence-table embedding, per-constructor field coverage of the printer",
        "level_text": "Structural clauses only: (1) the name disambiguator records every identifier it issues (distinct Syms never share a printed "
        "name), (2) the printer's precedence table is a monotone embedding of Python's and operands are parenthesised by the left-assoc rule, "
        "(3) every semantic field of every LoopIR constructor is read by its printing case, (4) the printing dispatch is exhaustive. "
        "Does not decide the print->parse->print fixpoint. Also: every Sym-typed field the printer writes goes through the name environment, and is_valid_name admits only whole-string identifiers that are not Python keywords.",
        "level_note": "Trusted: reference Python operator order kept in the checker; ADT text. Not decided: that the parser accepts the text and rebuilds the same tree.",
        "explanation": "FRESHNAME: `while cand in R` searches must store the issued candidate in R. PREC: op_prec vs. reference order; recursive calls on "
        "lhs/rhs/arg carry level, level+1, unary; parenthesise iff level < context. PRINTFIELDS: per constructor case, every non-annotation ADT field is read. EXH on the four printer dispatches.",
        "assumptions": ["Python operator precedence as listed in rules/names.py REF_PY"],
        "design_ref": "DESIGN.md §3.14 FRESHNAME/PREC, §3.21, §4 C17",
    },
    "C02": {
        "rules": ["EXH", "PREC", "TOKENGLUE", "DIVMOD", "ALGID", "INTERVAL", "CONDSPEC", "FRESHNAME", "ENVNAME", "SCALARREF", "WINDOWHOOK", "BACKPIPE", "WINALIAS@live", "FREEONCE"],
        "thorough": [],
        "technique": "static analysis: exhaustive-lowering, C-precedence table embedding, sign-proof dominance for / and %, sibling agreement on by-reference scalars, window-hook call rule",
        "level_text": "Structural clauses of code generation, decided for all programs from the source: lowering dispatches are exhaustive; the C "
        "precedence table is a monotone embedding of C's and operands are parenthesised by the left-assoc rule; floor-semantics '/' and '%' reach C's truncating "
        "operators only behind a sign proof or through the floor helper; fresh C identifiers are registered; by-reference scalars are "
        "dereferenced consistently at the three sites that print them; window data pointers go through the memory's hook. Does not decide index "
        "linearisation arithmetic, casts or window-struct contents. Also: no operand text glued directly after a prefix minus in the C emitter (`--x` is a decrement), and the liveness visitors that place frees are exhaustive.",
        "level_note": "Trusted: reference C operator order in rules/names.py REF_C; ADT text. Arithmetic of strides/offsets not decided.",
        "explanation": "EXH on comp_s/comp_e/comp_cir/lift_to_cir/simplify_cir/coerce_e; PREC on op_prec + comp_e/comp_cir; DIVMOD: per operator in {/,%} the BinOp case must "
        "test the operator and reach C text only under a non-negativity proof or via _call_static_helper; FRESHNAME on new_varname; SCALARREF; WINDOWHOOK; BACKPIPE (precision/window/memory passes precede Compiler).",
        "assumptions": ["C operator precedence as listed in rules/names.py REF_C"],
        "design_ref": "DESIGN.md §3.14, §4 C02",
    },
    "C15": {
        "rules": ["BACKPIPE", "TRAV@C15", "TRAVBASE", "MEMGATE", "CALLBOUNDARY", "TYPETABLES", "CONDSPEC", "PRECSOURCE", "BASEKEY", "ENVNAME", "TOKENGLUE", "EXTERNNAME", "WINCONSTARG", "DECLUSESYNC", "EXH", "FRESHNAME"],
        "thorough": [],
        "technique": "static analysis: pipeline def-use chain, traversal completeness of the global collectors, gate-dominance and call-boundary checks, type-table agreement",
        "level_text": "Structural clauses: every compiled procedure (transitively) passes Parallel/Precision/Window/Memory analysis in that order before "
        "Compiler; the collectors of externs/memories/configs/sub-procedures visit every node that can hold what they collect (so every referenced global is "
        "emitted); direct reads are emitted only behind can_read(), writes/reduces only through the memory's hooks; call boundaries compare precision, memory "
        "and window-ness and raise; type tables agree with the ADT. Does not decide that gcc accepts the text in general. Also: every non-control read in comp_e lies behind the can_read gate (scalars included); extern helpers with precision-dependent signatures have precision-dependent names, and float-only C functions are not emitted for f64 operands; no `--` from a glued prefix minus. A window passed by name to a callee has the struct type the callee declares.",
        "level_note": "Trusted: ADT text; naming of the four backend passes. Not decided: C validity beyond the listed clauses.",
        "explanation": "BACKPIPE chain through compile_to_strings; TRAV on LoopIR_SubProcs/FindMems/FindExterns/FindConfigs/PrecisionAnalysis/WindowAnalysis; MEMGATE via must-dominance of a raising "
        "can_read guard over access_str; CALLBOUNDARY structural checks of the three call cases; TYPETABLES compares ctype/window shorthand/config ctyp/_typ_table with ADT constructors.",
        "assumptions": ["LoopIR ADT as declared"],
        "design_ref": "DESIGN.md §3.14, §4 C15",
    },
    "C08": {
        "rules": ["WINALIAS@live", "ALIASCLOSED", "FREEONCE", "MEMPAIR", "CONSTQ", "DIVMOD", "ALGID", "INTERVAL", "FLOORENC", "EXH", "BACKPIPE"],
        "thorough": [],
        "technique": "static analysis: alias-closure of liveness, typestate on the pending-free list, allocator/deallocator pairing per Memory class (MRO-resolved), const-from-write-analysis",
        "level_text": "Structural clauses: buffer liveness is closed under window aliasing (no free before a use through a window); each allocation registers one "
        "pending free, emitted after the last using statement and removed at emission, with scope exit asserting emptiness and every nested block bracketed by push/pop; "
        "every Memory class pairs its allocator with the matching deallocator and agrees on the scalar case; const is derived only from the alias-closed write "
        "analysis; no truncating / or % on possibly negative numerators. Does not decide signed overflow or malloc sizes. Also: the bounds checker's SMT encoding of / and % (the only bounds check a procedure as written gets) is the floor quotient with both bounds.",
        "level_note": "Trusted: allocator/deallocator pairing table in rules/memory.py; ADT text.",
        "explanation": "WINALIAS(liveness): names entering the used-list must pass an alias resolver; FREEONCE: structural typestate of tofree; MEMPAIR: tokens in alloc/free return strings per class; CONSTQ; DIVMOD.",
        "assumptions": ["pairing table malloc/free, malloc_dram/free_dram, gemm_malloc/gemm_free, gemm_acc_malloc/gemm_acc_free, #define/#undef"],
        "design_ref": "DESIGN.md §3.9, §3.14, §4 C08",
    },
    "C07": {
        "rules": ["MUT", "ATTRSTORE", "ARGMUT", "GLOBALSTATE"],
        "thorough": [],
        "technique": "static analysis: flow-sensitive alias/taint dataflow for shared IR lists with inter-procedural parameter/return summaries; attribute-store and global-state write rules with a triage table",
        "level_text": "Source-level purity, decided for every path at once: there is no statement in src/exo that mutates in place a list stored in an IR node "
        "(or an alias of one: through locals, closures, helper parameters, shape(), memoised results), no attribute store on an object that is not self or freshly "
        "constructed, and every write to module/class-level state is classified (memo caches, id counter, provenance store benign; static-memory allocation state not). "
        "The rule is path-insensitive about exceptions (a write anywhere counts), so failing calls are covered. Claim is full up to the stated alias approximation. Also: the result of a call through a function-valued parameter (a forwarding function, the identity by default) is not a fresh object — an attribute store on it is a store on the caller's cursor.",
        "level_note": "Approximation: IR lists are recognised by ADT sequence-field names (args, body, hi, idx, orelse, preds), .shape(), getattr and memo results; "
        "containers nested deeper than one level are not modelled; calls resolved by name (nested def, module, import, self-method).",
        "explanation": "MUT: forward may-taint over each function (sources: seq-field reads, shape(), getattr, memo results, tainted parameters by call-site summary, "
        "closure environments; sanitisers: copy/list/slice/+/comprehension; sinks: subscript store/delete, mutating methods, augmented assignment). ATTRSTORE and GLOBALSTATE enumerate all stores.",
        "assumptions": ["field-name typing of IR lists", "name-based call resolution"],
        "design_ref": "DESIGN.md §3.10, §4 C07",
    },
    "C18": {
        "rules": ["SETITER", "SORTEDEMIT", "IDORDER", "REPRLEAK", "SYMORDER", "GLOBALSTATE"],
        "thorough": [],
        "technique": "static analysis: set-type inference with function/method/attribute summaries + order-sensitive-consumer rule with triage table; sorted-emission rule; id()/repr()/global-state rules",
        "level_text": "Structural clauses: no value of set type is consumed in an order-sensitive way in the compiler, rewrites, core, API or front end except at triaged "
        "sites whose consumer is order-insensitive or sorts; every collection emitted by compile_to_strings is sorted by name (or provably a singleton); nothing orders by "
        "id()/hash(); repr(Sym)/Sym ids never reach printed or generated text; process-global state that flows into emitted text is classified. Does not decide z3's model choice in unification. Also: set iteration is checked in stdlib/, libs/ and platforms/ too, and through containers of sets.",
        "level_note": "Set typing is inferred from constructors, set algebra, and summaries of set-returning functions/methods/attributes (no full type inference); triage table in rules/determinism.py.",
        "explanation": "SETITER: infer set-typed expressions; every for/comprehension/list()/tuple()/join/pop/unpack over one must be in the triage table with its reason. SORTEDEMIT: the four emission loops "
        "sort with a key; _static_helpers singleton. IDORDER/REPRLEAK: expected-zero rules with positive fixtures. GLOBALSTATE: writes to module/class state triaged (D28 known).",
        "assumptions": ["int hashing is seed-independent", "set typing by local inference and summaries"],
        "design_ref": "DESIGN.md §3.18, §4 C18",
    },
    "C16": {
        "rules": ["CHILDREN", "FINDORDER", "COUNTGROUP", "NAVATTR", "FALSYZERO", "PASTTOTAL", "NOMATCH", "EXH", "FIELDS"],
        "thorough": [],
        "technique": "static analysis: ADT-order agreement of the child enumerator, call-order rule for the search recursion, table totality, dispatch exhaustiveness and per-case field coverage of the matcher",
        "level_text": "Structural clauses of find(): the child enumerator yields, for every constructor, exactly the ADT's child fields in declaration (= program) order; "
        "the search tries a position before descending, If.body before If.orelse before the block tail; every pattern constructor maps to the same-named LoopIR constructor; "
        "'#n' counts down once per match and selects the 0 position; no match raises; matcher dispatches are exhaustive and read every pattern field. "
        "Navigation inverse laws (parent/child, next/prev, ...) are path arithmetic and are not decided. Also: the `#n` suffix syntax accepted by the name shorthands (white space after `#`) is accepted by match_pattern's own expression (compared on the regular expressions' ASTs).",
        "level_note": "Trusted: ADT declaration order is program order for LoopIR; prefix matching of index lists in patterns is documented semantics (docs/Cursors.md) and is not flagged.",
        "explanation": "CHILDREN compares string arguments of _children_from_attrs per case with child_fields(K,{stmt,expr,w_access}); FINDORDER compares source order of recursive calls; PASTTOTAL; NOMATCH; EXH; MATCHFIELDS.",
        "assumptions": ["ADT field order = program order"],
        "design_ref": "DESIGN.md §3.17, §4 C16",
    },
    "C05": {
        "rules": ["FIELDS", "PAIRCOND", "ZIPLEN", "REPLSCOPE", "CALLPRED", "HOLESIB", "BUFBIND", "NAMECONF", "CONDSPEC", "EXH", "TRAV@C05"],
        "thorough": [],
        "technique": "static analysis: per-constructor field coverage of both unification operands, length-guard rule for zips over IR lists, edit-scope and sibling-agreement rules, call-site assertion-discharge rule",
        "level_text": "Structural clauses of replace(): every constructor case of unification reads every semantic field of both operands; no two IR child lists are zipped without an "
        "established length relation; the statements replaced are exactly the statements unified; callee renamed before and aliasing checked after; hole-binding siblings reject a "
        "second inequivalent binding; a primitive that mints a call must discharge the callee's assertions. Does not decide the integer-linear solve or the window case split. Also: every pairing of a callee-node field with the same block-node field is governed by the constructor dispatch only (no one-sided condition).",
        "level_note": "Trusted: ADT text; ignore-list of annotation fields (srcinfo, expression types, loop_mode, mem) in rules/fields.py.",
        "explanation": "UNIFYFIELDS on unify_stmts/unify_e; ZIPLEN on Unification.unify*/is_exact_e; REPLSCOPE on DoReplace; CALLPRED on DoReplace and DoInsertNoopCall (known findings D16); HOLESIB; EXH(unify_e); TRAV(_Find_Mod_Div_Symbols).",
        "assumptions": [],
        "design_ref": "DESIGN.md §3.5, §3.16, §4 C05",
    },
    "C10": {
        "rules": ["CFGMOD", "EQVGATE", "CFGSHAPE", "EQVSHAPE", "ENVSHADOW", "CONDSPEC", "EFFORDER", "LOCSETS", "CFGREALS", "VERDICT"],
        "thorough": [],
        "technique": "static analysis: must-call + def-use threading of the changed-field set from the check to the recorded derivation; dominance of the equivalence gate over the callee swap",
        "level_text": "Structural clauses: every primitive that inserts or deletes a configuration write or swaps a callee obtains the possibly-changed field set from "
        "Check_DeleteConfigWrite/Check_ExtendEqv and returns it; every API entry threads that set into Procedure(..., _mod_config=...) and Procedure.__init__ hands it to "
        "derive_proc; call_eqv reaches its edit only past `if not is_eqv: raise` on the result of get_strictest_eqv_proc(current callee, new) and passes the differing keys to "
        "Check_ExtendEqv. Does not decide the global dataflow (globenv) or the SMT visibility conditions inside the two checks. Also: in the effect list of `Cfg.f = rhs` the reads of rhs precede the write (a write hides later reads of the same field), and the location-set transfer functions kill only what a write hides. The effects of a loop body start from the loop-invariant dataflow, and the indices of a right-hand-side read contribute their own reads.",
        "level_note": "Trusted: names of the two configuration checks; discovery of configuration-touching primitives by construction of LoopIR.WriteConfig / replacement of Call.f / DoDeleteConfig.",
        "explanation": "CFGMOD (a) primitives, (b) API call sites, (c) Procedure.__init__; EQVGATE via must-facts on DoCallSwap.",
        "assumptions": [],
        "design_ref": "DESIGN.md §3.13, §4 C10",
    },
    "C11": {
        "rules": ["UFOWN", "EQVSHAPE", "NOPROV"],
        "thorough": [],
        "technique": "static analysis: ownership (who-may-touch) of the equivalence store, polarity/shape patterns of the per-field union-find bookkeeping, provenance rule over every Procedure construction",
        "level_text": "Structural clauses: only core/proc_eqv.py touches the union-find stores and only Procedure.__init__/unsafe_assert_eq record steps; the bookkeeping has the shape the "
        "per-field closure needs (a step is unioned into field K's relation iff K is not in its disturbed set; strict only when the set is empty; a newly seen field starts from a copy of the "
        "universal relation taken before the step is applied; every procedure is a node of every relation; queries report exactly the non-connecting fields; union/check act on roots); "
        "signature-changing operations (partial_eval, transpose, add_assertion, extracted sub-procedures) record no provenance and every other construction does, with the operation's own "
        "procedure as origin. Does not prove the closure algebra over all histories (needs model checking/proof). Also: nodes and representatives inside the union-find are compared by identity (`is`), never with LoopIR.proc's structural `==`.",
        "level_note": "EQVSHAPE uses metavariable AST patterns (sa/pat.py): robust to renaming locals, not to re-architecting the bookkeeping.",
        "explanation": "UFOWN enumerates every reference to _UF_* and every call of the four writer functions; EQVSHAPE 13 shape obligations; NOPROV classifies all 64 Procedure(...) sites.",
        "assumptions": [],
        "design_ref": "DESIGN.md §3.13, §4 C11",
    },
    "C19": {
        "rules": ["ANNOTONLY", "PREDSONLY", "PREDSCOPE", "CONDSPEC", "PEVAL", "READKINDS", "CHILDREN", "TRAV@C19", "TRAVBASE", "NOPROV", "EXH", "ALGID"],
        "thorough": [],
        "technique": "static analysis: written-field sets of the annotation primitives, constructor-argument identity for add_assertion, substitution/traversal completeness for partial_eval",
        "level_text": "Structural clauses: set_precision/set_memory/set_window, parallelize_loop, rename and make_instr write only annotation fields (type/mem/is_window/src_type/as_tensor, loop_mode, "
        "name, instr); set_precision retypes reads and writes; add_assertion copies every field and only extends preds with a fragment parsed in the procedure's scope; partial_eval "
        "validates the bindings, substitutes literals for reads of bound index/bool arguments through the traversal-complete template rewriter and drops exactly the bound arguments; "
        "signature-changing utilities cut provenance. Does not decide the value-level relation between p and its variant. Also: the C index simplifier's algebraic identities (partial_eval puts literals such as 0 where they apply).",
        "level_note": "Trusted: ADT text; metavariable patterns for DoPartialEval.",
        "explanation": "ANNOTONLY computes string literals reaching _child_node/_child_block of an edit chain, update(...) keywords and returned dict keys; PREDSONLY; PEVAL; TRAV(DoPartialEval)+TRAVBASE; NOPROV; EXH(LoopIR_Rewrite).",
        "assumptions": [],
        "design_ref": "DESIGN.md §3.19, §4 C19",
    },
    "C12": {
        "rules": ["NAMECONF", "DELGUARD", "MODGUARD", "DIVACCOUNT", "FACTSTATE", "ALGID", "INTERVAL", "SIZEPOS", "CONDSPEC", "EXH", "TRAV@C12"],
        "thorough": [],
        "technique": "static analysis: identity-by-printed-name rule with triaged site table; dominance (must-facts with branch conditions) of literal tests over every delete/move in simplify; exhaustiveness/traversal of the two rewriters",
        "level_text": "Structural clauses: every place where simplify (or a rewrite it relies on) decides expression identity through printed names is enumerated and classified; "
        "a loop or branch is deleted only on paths dominated by a literal test of its condition/bounds (value-sensitive for branches) or emptiness of its rewritten body, and the "
        "dead-code primitives only behind a Check_*; the two rewriters dispatch exhaustively and traverse completely. Does not decide value preservation of the normal form or of the div/mod rules (integer arithmetic). Also: the range of `x % c` is taken as [lo % c, hi % c] only when lo and hi lie in the same period of c. A denominator is split only into complementary factors.",
        "level_note": "Trusted: triage table NAME_TRIAGE in rules/simplify.py (defect / advisory / sanitised, one reason each).",
        "explanation": "NAMECONF enumerates str()/name() comparisons, dict keys and use_sym_id=False patterns; DELGUARD runs a must-analysis with branch facts over DoSimplify.map_s and the two dead-code primitives.",
        "assumptions": [],
        "design_ref": "DESIGN.md §3.6, §3.21, §4 C12",
    },
    "C03": {
        "rules": ["FRONTPIPE", "OBLIG", "BOUNDFORM", "FLOORENC", "CFGUNIQ", "ZEROSHORT", "OPTPRED", "SIZEPOS", "FIELDS", "TYPEDISC", "CONDSPEC", "WINALIAS@bounds", "ALIASCLOSED", "WINCOMPOSE", "EXH", "TRAV@C03"],
        "thorough": [],
        "technique": "static analysis: ordered must-call pipeline at definition time, per-statement-kind obligation table for the bounds checker, formula-shape patterns (0 <= i < dim, 0 < size, 0 <= hi-lo), alias-closure of bounds effects",
        "level_text": "Structural clauses: every parsed procedure passes TypeChecker -> CheckBounds -> Check_Aliasing unconditionally, on the same object, and recorded errors raise; "
        "per statement kind the bounds checker issues the obligations of the property (trip count before the loop assumption, positive allocation/argument sizes, accesses vs. shapes, "
        "call shapes, callee assertions under substitution, callee effects folded in, branch conditions); the proved formulas have the property's own shape and a failed proof is reported; "
        "read, write and reduce effects through windows are translated to the underlying buffer; dispatches are exhaustive. Does not decide the SMT encoding of / and % or of strides. Also: the SMT encoding of / and % is the floor quotient with both bounds; every effect value keeps one configuration write per field (the two branches of an `if` are merged, not concatenated); callee effects on several window arguments are translated as a fold. Zero-offset shortcuts of the window-index composition return the other operand.",
        "level_note": "Trusted: pysmt's is_valid/is_sat; ADT text. Patterns use metavariables (robust to renaming locals).",
        "explanation": "FRONTPIPE on Procedure.__init__; OBLIG on CheckBounds.map_stmts/__init__ per constructor case; BOUNDFORM on check_* helpers (relations normalised to < / <=); WINALIAS(bounds); EXH on typechecker and bounds dispatches; TRAV on _Check_Aliasing_Helper.",
        "assumptions": [],
        "design_ref": "DESIGN.md §3.15, §4 C03",
    },
    "C06": {
        "rules": ["FWDTHREAD", "FWDHELPERS", "PATHIDX", "FWDSIB", "WRAPDEPTH", "FWDPRESENT", "FWDWALK", "APIFWD"],
        "thorough": [],
        "technique": "static analysis: abstract interpretation of every rewrite with a type system over tree epochs (cursor/forwarder/tree, relative to the current tree); metavariable patterns for the shared multi-edit helpers and the provenance walk",
        "level_text": "Structural clauses, decided on every path of every editing function: each elementary edit acts on a cursor into the *current* tree (never a stale one), each edit's "
        "forwarder is composed exactly in order (newest first) into the accumulated forwarder, nothing is discarded, and what is returned is the last tree with a forwarder from the "
        "original to that tree; rewriter objects keep self.fwd/self.ir in step on every exit; the three multi-edit helpers and _compose have the required shape; every recorded derivation "
        "carries a forwarder (three listed legacy constructors fall back to one that raises); Procedure.forward composes the chain oldest-first and cursor arguments are forwarded "
        "implicitly through it. Does not decide the index arithmetic inside _forward_insert/_replace/_wrap/_move. Also: every statement range a block forwarder builds is the image of the block's own two ends (linear arithmetic over start/stop/len).",
        "level_note": "Epoch typing gives no verdict for values it cannot type (TOP); the share of typed edit receivers is reported and must stay above 55 %. Helper summaries for "
        "_replace_reads/_writes/_pats are justified by FWDHELPERS.",
        "explanation": "FWDTHREAD: flow-sensitive typing Cursor(e)/IR(e)/Fwd(a->b) with epochs ORIG | age k; edit requires current receiver, ages all epochs; _compose requires matching middle epoch; returns must be (IR(current), Fwd(ORIG->current)).",
        "assumptions": ["edit API names _replace/_insert/_delete/_move/_wrap", "cursor navigation preserves the epoch"],
        "design_ref": "DESIGN.md §3.12, §4 C06",
    },
    "C01": {
        "rules": ["GUARD", "CONDSPEC", "PREDSPEC", "CHECKFORM", "SIZEPOS", "LIFTDUP", "FLOORENC", "EFFORDER", "LOCSETS", "ZEROSHORT", "COPYIDENT", "CTXSHAPE", "ENVSHADOW", "EQVSHAPE", "ALIASCLOSED", "WINCOMPOSE", "STRIDEKNOWN", "ZIPLEN", "NAMECONF", "FIELDS", "VERDICT", "VERDICTUSE", "LAYER", "CHILDREN", "READKINDS", "EXH", "TRAV@C01", "TRAVBASE", "BYPASS"],
        "thorough": [],
        "technique": "static analysis: per-primitive obligation table decided by a must-analysis (dominance of side conditions over tree edits, with raising guards, flag assumptions and check-argument provenance), plus comparison/identity/verdict/layering/traversal rules",
        "level_text": "Structural clauses, decided for all programs and schedules from the source: every scheduling primitive reaches its tree edits only through the side conditions "
        "its meaning requires (49 exported primitives + replace; audited table, Appendix A) and runs its post-conditions after the edit; loop-header fields (lo and hi) are both consulted where a loop is "
        "removed or re-shaped; structural comparison used as a guard is exact; identity is not decided by printed names except at triaged sites; solver verdicts are read with the right polarity and "
        "always acted upon; only the rewrite layer edits trees and only the API layer calls rewrites, so library schedules are compositions of guarded primitives; effect extraction and the copy/substitution "
        "templates are exhaustive and traverse completely. Does not decide that the SMT conditions themselves imply equivalence, nor the arithmetic of each rewrite. Added after the seeding waves: the effect list is in evaluation order (operand reads before a statement's own effect), the location-set transfer functions kill only what a write hides (a reduce hides nothing), and the sibling SMT encodings of floor division state exactly R*q <= L < R*(q+1).",
        "level_note": "Trusted: the audited obligation table in rules/guard.py (what each primitive needs); names of Check_* functions. Obligations discharged inside loops/callbacks are checked for existence only ('has').",
        "explanation": "GUARD: facts call:/guard:/chk:<Check>:<fields>:<ops> collected on all paths to each edit site (and after the last edit); ZIPLEN/CMPFIELDS on LoopIR_Compare; NAMECONF triage; VERDICT on SMTSolver; VERDICTUSE on every verify() site; LAYER who-may-call; EXH/TRAV/BYPASS.",
        "assumptions": ["obligation table", "edit API names"],
        "design_ref": "DESIGN.md §3.3-3.8, §4 C01, Appendix A",
    },
    "C04": {
        "rules": ["GUARD", "CONDSPEC", "CHECKFORM", "SIZEPOS", "BINDERS", "ALIASCLOSED", "WINCOMPOSE", "ANNOTSYNC", "READKINDS", "ALLOCSIZE", "STAGEGUARD", "FREEVARS", "COPYIDENT", "ZEROSHORT", "ANCESTORFACT", "RENAMEUSES", "FWDTHREAD", "TRAV@C04", "TRAVBASE", "BYPASS"],
        "thorough": [],
        "technique": "static analysis: post-edit Check_Bounds/Check_Aliasing obligations and scope guards from the primitive table (must-analysis), binder-coverage of scope-environment builders, renaming of duplicated code",
        "level_text": "Structural clauses: every shape-changing rewrite (expand/resize/fold/stage) passes its result to Check_Bounds after the last edit; primitives that introduce a call or rewrite "
        "its arguments re-run Check_Aliasing; allocation-scope guards of fission/specialize/sink/lift dominate their edits; code that is duplicated into a scope where its binders are already "
        "visible goes through Alpha_Rename; scope-environment builders handle every binder kind of the ADT; no rewrite edits a stale tree (FWDTHREAD), so no edit is silently dropped. "
        "Does not decide that Check_Bounds' location sets are right. Also: stage_mem's safety guards keep each bound condition unless that very condition was proved; the free-variable helper behind the scope guards sees buffers used through window and stride expressions; reuse_buffer requires the surviving buffer to be in scope.",
        "level_note": "Trusted: obligation table; ADT text.",
        "explanation": "GUARD rows tagged C04 (post Check_Bounds / Check_Aliasing, alloc_check, are_allocs_used_after_block, Alpha_Rename); BINDERS table (extract_env known D19); FWDTHREAD; TRAV on Alpha_Rename/SubstArgs/FreeVars.",
        "assumptions": [],
        "design_ref": "DESIGN.md §3.3, §3.11, §4 C04",
    },
    "C14": {
        "rules": ["INSTRLINT", "INSTRSPEC", "REGWIDTH", "ALGID"],
        "thorough": [],
        "technique": "static analysis: lint of every @instr (format keys, lane counts, stride assertions, trip counts) + lane-symbolic evaluation of the C fragment through a table of intrinsic semantics, compared with the Exo body term-by-term (no execution, no solver)",
        "level_text": "For every x86 instruction: the C template only uses keys the compiler supplies, register operands have the lane count of their register file, vector operands carry unit-stride "
        "assertions, the body writes as many lanes as the operand has; and for the instructions whose intrinsics are in the checker's table (58 of 60 today) the C fragment, evaluated per lane on symbolic operands, "
        "yields exactly the per-lane terms of the body (modulo associativity/commutativity of + and *), for every admissible value of the mask/size parameters. Instructions outside the table are reported as unanalysed, not passed. Also: every register memory admits only buffers whose last dimension is exactly one register (the invariant its window code relies on when it drops the lane offset).",
        "level_note": "Trusted base: the intrinsic-semantics table in rules/instr.py (printed in evidence), written from the Intel intrinsics guide; three of the recorded mismatches were additionally confirmed on this host. "
        "Floating-point rounding and exceptions are not modelled (terms are over reals); ui16 saturation is modelled as a distinct operator.",
        "explanation": "INSTRLINT per instruction; INSTRSPEC: parse C (decl/assign/call/cast/address-of/compound literal), evaluate through the table to per-lane terms, evaluate the Exo loop body with ast, enumerate size parameters from the assertions, compare states.",
        "assumptions": ["intrinsic table", "sizes are >= 1"],
        "design_ref": "DESIGN.md §3.20, §4 C14",
    },
}
