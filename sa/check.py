"""CLI: python3-vt -m sa.check <PROP> [--tier quick|thorough] [--root /repo]

Exit 0: property's armed rules hold on the tree (known findings are listed).
Exit 1: `VIOLATION property=<id> replay=<path>` for every unknown finding.
Exit 2: `ANALYSIS-ERROR ...` — the analysis itself is broken (never a verdict).
"""
from __future__ import annotations

import argparse
import json
import os
import sys
import time
import traceback
from typing import Any, Dict, List

from .index import AnalysisError, Index
from .adt import ADTs
from .report import EVIDENCE_DIR, Finding, RuleResult, load_known, match_known


class Ctx:
    def __init__(self, root: str, tier: str, seed: int = 0):
        self.root = os.path.abspath(root)
        self.tier = tier
        self.seed = seed
        self.ix = Index(self.root, ("src/exo",))
        self.adts = ADTs(self.ix)
        self.cache: Dict[str, Any] = {}
        self._wide = None

    @property
    def wide(self) -> Index:
        """Whole-repository index (thorough scope): src + apps + examples + tests."""
        if self._wide is None:
            subs = ["src/exo"]
            for d in ("apps", "examples", "tests"):
                if os.path.isdir(os.path.join(self.root, d)):
                    subs.append(d)
            self._wide = Index(self.root, subs)
        return self._wide

    def rel(self, path: str) -> str:
        return path


def run_property(prop: str, tier: str, root: str, seed: int, write_evidence: bool = True, quiet: bool = False) -> int:
    from .props import PROPS
    from .rules import RULES

    t0 = time.time()
    if prop not in PROPS:
        print(f"ANALYSIS-ERROR unknown or unclaimed property {prop}")
        return 2
    spec = PROPS[prop]
    out = print if not quiet else (lambda *a, **k: None)
    try:
        ctx = Ctx(root, tier, seed)
        out(f"[{prop}] root={ctx.root} tier={tier} units={ctx.ix.units} digest={ctx.ix.digest}")
        results: List[RuleResult] = []
        for rname in spec["rules"]:
            fn = RULES[rname]
            r = fn(ctx, prop)
            rs = r if isinstance(r, list) else [r]
            for one in rs:
                results.append(one)
                out(
                    f"[{prop}] rule {one.rule}: instances={one.instances} (floor {one.floor}) "
                    f"obligations={one.obligations} discharged={one.discharged} findings={len([f for f in one.findings if not f.advisory])}"
                )
                for n in one.notes:
                    out(f"[{prop}]   note: {n}")
                if one.instances < one.floor and not [f for f in one.findings if not f.advisory]:
                    # (a rule that already reports a violation explains its own shortfall)
                    raise AnalysisError(
                        f"rule {one.rule}: only {one.instances} instances found, floor is {one.floor} — anchors moved or checker blind"
                    )
        if tier == "thorough" and spec.get("thorough"):
            for rname in spec["thorough"]:
                fn = RULES[rname]
                r = fn(ctx, prop)
                rs = r if isinstance(r, list) else [r]
                for one in rs:
                    results.append(one)
                    out(
                        f"[{prop}] rule {one.rule} (thorough): instances={one.instances} (floor {one.floor}) "
                        f"obligations={one.obligations} discharged={one.discharged} findings={len([f for f in one.findings if not f.advisory])}"
                    )
                    for n in one.notes:
                        out(f"[{prop}]   note: {n}")
                    if one.instances < one.floor and not [f for f in one.findings if not f.advisory]:
                        raise AnalysisError(f"rule {one.rule}: only {one.instances} instances, floor {one.floor}")
    except AnalysisError as e:
        print(f"ANALYSIS-ERROR property={prop} {e}")
        return 2
    except Exception as e:  # a traceback must never look like a violation
        traceback.print_exc()
        print(f"ANALYSIS-ERROR property={prop} internal error: {type(e).__name__}: {e}")
        return 2

    known = load_known()
    violations: List[Finding] = []
    known_hits = []
    advisories = []
    seen_keys = set()
    for r in results:
        for f in r.findings:
            if f.key() in seen_keys:
                continue
            seen_keys.add(f.key())
            if f.advisory:
                advisories.append(f)
                continue
            k = match_known(known, prop, f)
            if k is not None:
                known_hits.append((f, k))
            else:
                violations.append(f)
    # second pass: a finding whose construct differs from a listed one only by the NAMES of local
    # variables (the function was touched by a rename) is still that listed finding.  One-to-one: each
    # listed entry absorbs at most one finding, and only entries that no finding matched exactly —
    # a second, different site with a similar shape is still reported.
    if violations:
        from .index import alpha_eq

        used = {id(k) for _f, k in known_hits}
        rest = []
        for f in violations:
            hit = None
            for k in known.get("known", []):
                props_ = k.get("properties") or [k.get("property")]
                if prop not in props_ or id(k) in used:
                    continue
                if (k["rule"], k["file"], k["function"]) == (f.rule, f.file, f.func) and k["construct"] != f.construct and alpha_eq(k["construct"], f.construct):
                    hit = k
                    break
            if hit is not None:
                used.add(id(hit))
                known_hits.append((f, hit))
            else:
                rest.append(f)
        violations = rest
    if tier == "thorough" and not violations and not os.environ.get("SA_NO_SELFTEST"):
        # self-validation of this property's rules on scratch copies (DESIGN §6);
        # only meaningful when the tree itself is clean
        try:
            from .selftest import run as run_mutants

            os.environ["SA_NO_SELFTEST"] = "1"  # mutant runs are quick-tier
            try:
                mres = run_mutants(prop, min(16, os.cpu_count() or 4), root, quiet=True, seed=seed)
            finally:
                del os.environ["SA_NO_SELFTEST"]
            r = RuleResult("SELFTEST")
            r.instances = len(mres)
            r.nontrivial = len(mres)
            for name, ok, msg in mres:
                r.ob(ok)
                r.sample(f"{name}: {msg[:120]}")
                if not ok:
                    r.notes.append(f"mutant {name}: {msg}")
            results.append(r)
            out(f"[{prop}] rule SELFTEST (thorough): mutants={r.instances} behaved={r.discharged}")
            bad = [m for m in mres if not m[1] and not m[2].startswith("STALE")]
            if bad:
                print(f"ANALYSIS-ERROR property={prop} self-test: {len(bad)} mutant(s) not handled as required, e.g. {bad[0][0]}: {bad[0][2][:200]}")
                return 2
        except Exception as e:
            traceback.print_exc()
            print(f"ANALYSIS-ERROR property={prop} self-test crashed: {type(e).__name__}: {e}")
            return 2
    for f in advisories:
        out(f"[{prop}] advisory: {f.text()}")
    for f, k in known_hits:
        print(f"KNOWN-FINDING: property={prop} {k.get('id','')} {f.rule} {f.file}:{f.func} [{f.construct}] {k.get('what_fails', f.message)}")
    replay = os.path.join(EVIDENCE_DIR, f"{prop}.replay.json")
    if violations and write_evidence:
        os.makedirs(EVIDENCE_DIR, exist_ok=True)
        with open(replay, "w") as fh:
            json.dump(
                {
                    "property": prop,
                    "root": os.path.abspath(root),
                    "findings": [dict(rule=f.rule, file=f.file, line=f.line, function=f.func, construct=f.construct, message=f.message) for f in violations],
                },
                fh,
                indent=1,
            )
    for f in violations:
        print(f"[{prop}] {f.text()}")
    for f in violations:
        print(f"VIOLATION property={prop} replay={replay} rule={f.rule} at={f.file}:{f.line} {f.func}")

    wall = time.time() - t0
    if write_evidence:
        write_ev(prop, spec, tier, seed, results, violations, known_hits, advisories, wall, ctx)
    out(f"[{prop}] done in {wall:.2f}s: {len(violations)} violation(s), {len(known_hits)} known finding(s), {len(advisories)} advisory")
    return 1 if violations else 0


def _rule_docs(spec) -> str:
    """One line per armed rule, taken from the rule function's docstring (so the evidence
    always describes the rules that actually ran)."""
    from .rules import RULES, RULE_DOC

    out = []
    for r in spec["rules"]:
        fn = RULES.get(r)
        doc = (getattr(fn, "__doc__", None) or RULE_DOC.get(r.split("@")[0], "")).strip().split("\n\n")[0]
        doc = " ".join(doc.split())
        if len(doc) > 260:
            doc = doc[:257].rsplit(" ", 1)[0] + " …"
        out.append(f"{r}: {doc}" if doc else f"{r}: see DESIGN.md §3 / §10.2")
    return " || Armed rules — " + " | ".join(out)


def write_ev(prop, spec, tier, seed, results, violations, known_hits, advisories, wall, ctx) -> None:
    os.makedirs(EVIDENCE_DIR, exist_ok=True)
    samples = []
    for r in results:
        for s in r.samples[:4]:
            samples.append(f"{r.rule}: {s}")
    if not samples:
        samples = ["(no sample recorded)"]
    ob = sum(r.obligations for r in results)
    di = sum(r.discharged for r in results)
    inst = sum(r.instances for r in results)
    nontriv = sum(r.nontrivial for r in results)
    funcs = sorted({a for r in results for a in r.analysed})
    ev = {
        "property_id": prop,
        "tier": tier,
        "seed": seed,
        "level": "other",
        "coverage": {
            "explanation": spec["explanation"] + _rule_docs(spec),
            "evaluations": max(inst, 1),
            "distinct_nontrivial": nontriv,
            "rule": "one evaluation = one rule instance (dispatch case, call site, primitive, edit site, table row) examined in /repo's source; "
            "non-trivial = the instance carried at least one real obligation (see per-rule table)",
            "samples": samples[:24],
            "obligations": ob,
            "discharged": di,
            "units_parsed": ctx.ix.units,
            "source_digest": ctx.ix.digest,
            "functions_analysed": len(funcs),
            "functions_sample": funcs[:40],
            "rules": [
                {
                    "rule": r.rule,
                    "instances": r.instances,
                    "floor": r.floor,
                    "obligations": r.obligations,
                    "discharged": r.discharged,
                    "nontrivial": r.nontrivial,
                    "findings": [f.text() for f in r.findings if not f.advisory],
                    "advisories": [f.text() for f in r.findings if f.advisory][:10],
                    "notes": r.notes[:20],
                }
                for r in results
            ],
            "known_findings_reported": [k.get("id", "") + " " + f.text() for f, k in known_hits],
            "exhaustive": True,
        },
        "assumptions": spec.get("assumptions", []),
        "wall_s": round(wall, 3),
        "violations": len(violations),
    }
    with open(os.path.join(EVIDENCE_DIR, f"{prop}.json"), "w") as fh:
        json.dump(ev, fh, indent=1)


def replay(path: str) -> int:
    with open(path) as fh:
        d = json.load(fh)
    print(f"replay of {len(d['findings'])} finding(s) for {d['property']}; re-running the property's rules")
    for f in d["findings"]:
        print(f"  {f['file']}:{f['line']} {f['rule']} {f['function']} [{f['construct']}] {f['message']}")
    return run_property(d["property"], "quick", d.get("root", "/repo"), 0, write_evidence=False)


def main(argv=None) -> int:
    ap = argparse.ArgumentParser()
    ap.add_argument("prop", nargs="?")
    ap.add_argument("--tier", default=os.environ.get("VERIF_TIER", "quick"), choices=["quick", "thorough"])
    ap.add_argument("--root", default="/repo")
    ap.add_argument("--replay")
    ap.add_argument("--no-evidence", action="store_true")
    a = ap.parse_args(argv)
    seed = int(os.environ.get("VERIF_SEED", "0") or 0)
    if a.replay:
        return replay(a.replay)
    if not a.prop:
        ap.error("property id required")
    return run_property(a.prop, a.tier, a.root, seed, write_evidence=not a.no_evidence)


if __name__ == "__main__":
    try:
        rc = main()
    except SystemExit:
        raise
    except Exception as e:  # pragma: no cover
        traceback.print_exc()
        print(f"ANALYSIS-ERROR internal error: {e}")
        rc = 2
    sys.exit(rc)
