"""WINCOMPOSE — every composition of a window with an inner coordinate adds the window's offset.

A window `w = x[lo:hi, 3]` maps an inner coordinate i to (lo + i, 3).  The analyses that
see through windows each re-implement this composition (effect analysis `AWin.__add__`
and `AWin.__call__`, the front-end bounds check `translate_set`, `inline_window`'s
`calc_idx`).  The structural necessary condition: on the interval path every consumed
inner coordinate flows into an addition whose other operand is the window coordinate's
offset; on the point path no inner coordinate is consumed.  (The seeded change that
motivated the rule dropped `+ lc.val` in `AWin.__add__`: nested windows with a non-zero
outer offset were analysed at the wrong locations and `resize_dim` accepted an
out-of-bounds access.)"""
from __future__ import annotations

import ast
from typing import Dict, List, Optional, Set, Tuple

from ..index import AnalysisError, Func, dotted, last_name, parent
from ..report import Finding, RuleResult

NE = "src/exo/rewrite/new_eff.py"
B = "src/exo/frontend/boundscheck.py"
S = "src/exo/rewrite/LoopIR_scheduling.py"

# (file, function, offset attribute of the window coordinate, value attributes of an inner coordinate object)
SITES = [
    (NE, "AWin.__add__", "val", ("val",), ("C01", "C04")),
    (NE, "AWin.__call__", "val", (), ("C01", "C04")),
    (B, "CheckBounds.translate_eff.translate_set", "lo", (), ("C03",)),
    (S, "DoInlineWindow.calc_idx.map_w", "lo", ("pt", "lo", "hi"), ("C01", "C04")),
    (S, "DoInlineWindow.calc_idx.map_w#2", "lo", ("pt", "lo", "hi"), ("C01", "C04")),
]


def _is_point_test(t: ast.AST, w: str) -> Optional[bool]:
    """True: test holds when w is a point; False: when w is an interval; None: unrelated."""
    txt = ast.unparse(t)
    if isinstance(t, ast.UnaryOp) and isinstance(t.op, ast.Not):
        r = _is_point_test(t.operand, w)
        return None if r is None else (not r)
    if txt == f"{w}.is_pt":
        return True
    if isinstance(t, ast.Call) and last_name(t) == "isinstance" and len(t.args) == 2 and ast.unparse(t.args[0]) == w:
        k = ast.unparse(t.args[1])
        if k.endswith("Point"):
            return True
        if k.endswith("Interval"):
            return False
    return None


def _add_operands(n: ast.AST) -> Optional[List[ast.AST]]:
    if isinstance(n, ast.BinOp) and isinstance(n.op, ast.Add):
        return [n.left, n.right]
    if isinstance(n, ast.Call):
        nm = last_name(n)
        if nm == "add" and len(n.args) == 2:
            return list(n.args)
        if nm == "BinOp" and n.args and isinstance(n.args[0], ast.Constant) and n.args[0].value == "+" and len(n.args) >= 3:
            return [n.args[1], n.args[2]]
    return None


def rule_wincompose(ctx, prop: str) -> RuleResult:
    ix = ctx.ix
    res = RuleResult("WINCOMPOSE")
    for file, qn, off, inner_attrs, props in SITES:
        if prop not in props:
            continue
        m = ix.module(file)
        f = m.funcs.get(qn)
        if f is None:
            raise AnalysisError(f"anchor vanished: {file}:{qn}")
        res.analysed.append(f"{file}:{qn}")
        # the window-coordinate variable: the variable of a point/interval test
        wvars: Set[str] = set()
        for n in f.all_nodes():
            if isinstance(n, (ast.If, ast.IfExp)):
                t = n.test
                for cand in ast.walk(t):
                    if isinstance(cand, ast.Name) and _is_point_test(t, cand.id) is not None:
                        wvars.add(cand.id)
        def is_inner_source(e: ast.AST, w: Optional[str] = None) -> bool:
            if isinstance(e, ast.Subscript) and isinstance(e.value, (ast.Name, ast.Attribute)) and (w is None or w not in {x.id for x in ast.walk(e) if isinstance(x, ast.Name)}):
                return isinstance(e.slice, ast.Name)  # indexed by a running counter
            if isinstance(e, ast.Call) and isinstance(e.func, ast.Attribute) and e.func.attr == "pop":
                return True
            if isinstance(e, ast.Call) and isinstance(e.func, ast.Name) and e.func.id == "next" and len(e.args) == 1:
                return True  # consumption through an iterator
            return False

        # variables bound to a consumed inner coordinate are not the window coordinate
        bound = {n.targets[0].id for n in f.all_nodes() if isinstance(n, ast.Assign) and len(n.targets) == 1 and isinstance(n.targets[0], ast.Name) and is_inner_source(n.value)}
        wvars -= bound
        if len(wvars) != 1:
            raise AnalysisError(f"{qn}: expected one point/interval dispatch variable, found {sorted(wvars)}")
        w = next(iter(wvars))
        # inner-coordinate consumptions: subscripts/pops of a sequence that is not the window's own,
        # and value attributes of variables bound to them
        inner_vars: Set[str] = set()
        consumptions: List[ast.AST] = []
        _src = is_inner_source
        is_inner_source = lambda e: _src(e, w)

        for n in f.all_nodes():
            if isinstance(n, ast.Assign) and len(n.targets) == 1 and isinstance(n.targets[0], ast.Name) and is_inner_source(n.value):
                inner_vars.add(n.targets[0].id)
        for n in f.all_nodes():
            if is_inner_source(n):
                p = parent(n)
                if isinstance(p, ast.Assign) and p.value is n and isinstance(p.targets[0], ast.Name) and p.targets[0].id in inner_vars:
                    continue  # bound to a variable; its uses are checked instead
                consumptions.append(n)
            if isinstance(n, ast.Attribute) and isinstance(n.value, ast.Name) and n.value.id in inner_vars and n.attr in inner_attrs:
                consumptions.append(n)
        if not consumptions:
            raise AnalysisError(f"{qn}: no inner-coordinate consumption recognised")
        for c in consumptions:
            res.instances += 1
            res.nontrivial += 1
            # (a) governed by the interval side of the dispatch
            side = None
            x, p = c, parent(c)
            added = False
            while p is not None and p is not f.node:
                ops = _add_operands(p)
                if ops is not None and not added:
                    others = [o for o in ops if not any(y is c for y in ast.walk(o))]
                    if any(f"{w}.{off}" in ast.unparse(o) for o in others):
                        added = True
                if isinstance(p, (ast.If, ast.IfExp)):
                    r = _is_point_test(p.test, w)
                    if r is not None:
                        in_body = (x in p.body) if isinstance(p, ast.If) else (x is p.body)
                        in_else = (x in p.orelse) if isinstance(p, ast.If) else (x is p.orelse)
                        if in_body or in_else:
                            side = "point" if (r == in_body) else "interval"
                x, p = p, parent(p)
            if side is None:
                # early-return style: `if point: return w` before the consumption
                for n in f.body_nodes():
                    if isinstance(n, ast.If) and n.lineno < c.lineno and _is_point_test(n.test, w) is True and any(isinstance(s, (ast.Return, ast.Continue)) for s in n.body):
                        side = "interval"
            ok = side == "interval" and added
            res.ob(ok)
            res.sample(f"{qn}: inner coordinate `{ast.unparse(c)}` on the {side} path, added to `{w}.{off}`: {added}")
            if not ok:
                what = (
                    f"is combined without adding the window offset `{w}.{off}`"
                    if side == "interval"
                    else f"is consumed on the {side or 'undispatched'} path"
                )
                res.add(
                    Finding("WINCOMPOSE", file, c.lineno, qn, ast.unparse(c),
                            f"{qn}: the inner coordinate `{ast.unparse(c)}` {what}: an access through a window of a window "
                            f"(y = x[8:16]; z = y[2:6]) is placed at x[2:6] instead of x[10:14] — location sets, bounds and liveness are computed for the wrong elements")
                )
    res.floor = 1 if prop == "C03" else 5
    return res


def rule_annotsync(ctx, prop: str) -> RuleResult:
    """A WindowExpr records its windowing twice: in the node's `idx` and in its type
    (`T.Window(src_type, as_tensor, src_buf, idx)`), and the front end reads the type's
    copy when the procedure is called from another one.  Every rewrite that changes the
    `idx` of a (possible) WindowExpr must therefore change the type's `idx` with it:
      (a) attribute replacements `{"idx": ...}` handed to `_replace_helper` — either the
          dictionary carries a "type" built from the same idx, or the funnel
          `_replace_helper` synchronises window types itself;
      (b) `X.update(idx=...)` on a WindowExpr and `LoopIR.WindowExpr(name, idx, typ, ...)`
          constructions pass a type whose idx is that same expression."""
    ix = ctx.ix
    res = RuleResult("ANNOTSYNC")
    m = ix.module(S)
    helper = m.funcs.get("_replace_helper")
    if helper is None:
        raise AnalysisError("anchor vanished: _replace_helper")
    funnel_syncs = False
    for n in helper.body_nodes():
        if isinstance(n, ast.If) and "WindowExpr" in ast.unparse(n.test) and "'idx' in" in ast.unparse(n.test):
            for k in ast.walk(n):
                if isinstance(k, ast.Call) and isinstance(k.func, ast.Attribute) and k.func.attr == "update" and any(kw.arg == "idx" for kw in k.keywords) and ".type" in ast.unparse(k.func.value):
                    funnel_syncs = True
    res.instances += 1
    res.sample(f"_replace_helper synchronises the window type when only `idx` is replaced: {funnel_syncs}")
    res.ob(True)

    def handles_window(f: Func, at: ast.AST) -> bool:
        """can the node rewritten at `at` be a WindowExpr?  (not on a branch for Read only /
        not after a raise for WindowExpr)"""
        x, p = at, parent(at)
        while p is not None and p is not f.node:
            if isinstance(p, ast.If):
                t = ast.unparse(p.test)
                in_body = any(x is s for s in p.body)
                if "isinstance" in t and "LoopIR.Read)" in t and "WindowExpr" not in t and in_body and not t.startswith("not "):
                    return False
            x, p = p, parent(p)
        for n in f.body_nodes():
            if isinstance(n, ast.If) and n.lineno < at.lineno and "WindowExpr" in ast.unparse(n.test) and "isinstance" in ast.unparse(n.test):
                from ..flow import always_raises

                if always_raises(n.body) and " and " not in ast.unparse(n.test):
                    return False
        return True

    # (a) dictionaries with an "idx" key returned by read-rewriting callbacks
    for qn, f in m.funcs.items():
        if not isinstance(f.node, ast.FunctionDef) or not f.node.name.startswith("mk_read"):
            continue
        for n in f.body_nodes():
            if isinstance(n, ast.Return) and isinstance(n.value, ast.Dict):
                keys = [k.value for k in n.value.keys if isinstance(k, ast.Constant)]
                if "idx" not in keys or not handles_window(f, n):
                    continue
                res.instances += 1
                res.nontrivial += 1
                res.analysed.append(f"{S}:{qn}")
                ok = "type" in keys or funnel_syncs
                res.ob(ok)
                res.sample(f"{qn}: replaces `idx` of a possible WindowExpr; type synchronised ({'own' if 'type' in keys else 'by _replace_helper'}): {ok}")
                if not ok:
                    res.add(
                        Finding("ANNOTSYNC", S, n.lineno, qn, "idx-without-type",
                                f"{qn} rewrites the `idx` of a window expression but leaves the copy in its T.Window type unchanged (and _replace_helper does not synchronise it): "
                                f"after expand_dim/resize_dim on a buffer with a window alias, calling the scheduled procedure from a new one makes the bounds check "
                                f"reason about the old windowing (AssertionError, or a valid call rejected / an invalid one accepted)")
                    )
    # (b) constructions
    for qn, f in m.funcs.items():
        if not isinstance(f.node, ast.FunctionDef):
            continue
        for n in f.body_nodes():
            idx_e = typ_e = None
            if isinstance(n, ast.Call) and dotted(n.func) == "LoopIR.WindowExpr" and len(n.args) >= 3:
                idx_e, typ_e = n.args[1], n.args[2]
            elif isinstance(n, ast.Call) and isinstance(n.func, ast.Attribute) and n.func.attr == "update" and any(kw.arg == "idx" for kw in n.keywords):
                # only when the updated node is established to be a WindowExpr
                x, p, is_win = n, parent(n), False
                recv = ast.unparse(n.func.value)
                while p is not None and p is not f.node:
                    if isinstance(p, ast.If) and any(x is s for s in p.body):
                        for t in ast.walk(p.test):
                            if isinstance(t, ast.Call) and last_name(t) == "isinstance" and len(t.args) == 2 and "WindowExpr" in ast.unparse(t.args[1]) and ast.unparse(t.args[0]) == recv:
                                is_win = True
                    x, p = p, parent(p)
                if not is_win:
                    continue  # not the window expression itself (e.g. its type being rebuilt)
                idx_e = next(kw.value for kw in n.keywords if kw.arg == "idx")
                typ_e = next((kw.value for kw in n.keywords if kw.arg == "type"), None)
            else:
                continue
            res.instances += 1
            res.nontrivial += 1
            res.analysed.append(f"{S}:{qn}")
            ok = False
            if typ_e is not None:
                srcs = [typ_e]
                if isinstance(typ_e, ast.Name):
                    srcs = [k.value for k in f.body_nodes() if isinstance(k, ast.Assign) and len(k.targets) == 1 and dotted(k.targets[0]) == typ_e.id]
                for sv in srcs:
                    for k in ast.walk(sv):
                        if isinstance(k, ast.Call):
                            args = [ast.unparse(a) for a in k.args] + [ast.unparse(kw.value) for kw in k.keywords if kw.arg == "idx"]
                            if (dotted(k.func) or "").endswith("Window") or (isinstance(k.func, ast.Attribute) and k.func.attr == "update"):
                                if ast.unparse(idx_e) in args:
                                    ok = True
            res.ob(ok)
            res.sample(f"{qn}: window expression built with idx `{ast.unparse(idx_e)[:30]}` and a type recording the same idx: {ok}")
            if not ok:
                res.add(Finding("ANNOTSYNC", S, n.lineno, qn, "construct-idx-type", f"{qn} builds a window expression whose type does not record the same `idx` (`{ast.unparse(idx_e)[:40]}`)"))
    res.floor = 8
    return res


def rule_readkinds(ctx, prop: str) -> RuleResult:
    """`_replace_reads` matches `buf[_]`, i.e. BOTH point reads (LoopIR.Read) and window
    expressions (LoopIR.WindowExpr) of the buffer.  A read-rewriting callback (`mk_read`)
    that returns a replacement for one kind must not silently return nothing for the other
    kind under the same circumstances: it handles it, or it raises.  Decided by
    enumerating the callback's paths for kind = Read and kind = WindowExpr under every
    assignment of its other (kind-independent) conditions and comparing the outcomes
    replace / none / raise."""
    import itertools

    from ..boolform import atoms as bf_atoms, ev as bf_ev, to_form

    ix = ctx.ix
    res = RuleResult("READKINDS")
    m = ix.module(S)
    n_cb = 0
    for qn, f in m.funcs.items():
        if not isinstance(f.node, ast.FunctionDef) or not f.node.name.startswith("mk_read"):
            continue
        # subject of the kind tests
        subj = None
        for n in f.body_nodes():
            if isinstance(n, ast.Call) and last_name(n) == "isinstance" and len(n.args) == 2 and ast.unparse(n.args[1]) in ("LoopIR.Read", "LoopIR.WindowExpr"):
                subj = ast.unparse(n.args[0])
        if subj is None:
            continue  # handles both kinds uniformly
        n_cb += 1
        res.instances += 1
        res.nontrivial += 1
        res.analysed.append(f"{S}:{qn}")
        kind_atom = {f"isinstance({subj}, LoopIR.Read)": "Read", f"isinstance({subj}, LoopIR.WindowExpr)": "WindowExpr"}

        unknown: List[str] = []

        def collect(stmts):
            for st in stmts:
                if isinstance(st, ast.If):
                    for a in bf_atoms(to_form(st.test)):
                        if a not in kind_atom and a not in unknown:
                            unknown.append(a)
                    collect(st.body)
                    collect(st.orelse)
                elif isinstance(st, (ast.For, ast.While, ast.With, ast.Try)):
                    collect(getattr(st, "body", []))

        collect(f.node.body)
        if len(unknown) > 10:
            raise AnalysisError(f"READKINDS: {qn} has too many independent conditions ({len(unknown)})")

        def run(stmts, env) -> Optional[str]:
            for st in stmts:
                if isinstance(st, ast.Return):
                    v = st.value
                    return "none" if v is None or (isinstance(v, ast.Constant) and v.value is None) else "replace"
                if isinstance(st, ast.Raise):
                    return "raise"
                if isinstance(st, ast.If):
                    r = run(st.body if bf_ev(to_form(st.test), env) else st.orelse, env)
                    if r is not None:
                        return r
                elif isinstance(st, (ast.For, ast.While, ast.With)):
                    # a return inside a loop may or may not be reached: do not decide on it
                    pass
            return None

        bad = None
        for vals in itertools.product((False, True), repeat=len(unknown)):
            outs = {}
            for kind in ("Read", "WindowExpr"):
                env = dict(zip(unknown, vals))
                for a, k in kind_atom.items():
                    env[a] = k == kind
                try:
                    outs[kind] = run(f.node.body, env) or "none"
                except KeyError:
                    outs[kind] = "?"
            if {outs["Read"], outs["WindowExpr"]} == {"replace", "none"}:
                bad = (dict(zip(unknown, vals)), outs)
                break
        ok = bad is None
        res.ob(ok)
        res.sample(f"{qn}: Read and WindowExpr are both rewritten, both left alone, or rejected under the same conditions: {ok}")
        if not ok:
            env, outs = bad
            lost = "WindowExpr" if outs["WindowExpr"] == "none" else "Read"
            cond = ", ".join(f"{k}={v}" for k, v in env.items() if v) or "no other condition"
            res.add(
                Finding("READKINDS", S, f.lineno, qn, f"{lost}-left-alone",
                        f"{qn} rewrites a {'Read' if lost == 'WindowExpr' else 'WindowExpr'} of the buffer but returns nothing for a {lost} of it under the same conditions ({cond}): "
                        f"the access is silently left as it was while the buffer's declaration and the other accesses change (w = a[i, 0:m] stays after transpose; the procedure computes on the wrong elements)")
            )
    if n_cb < 6:
        raise AnalysisError(f"READKINDS: expected >= 6 kind-dispatching mk_read callbacks, found {n_cb}")
    res.floor = 6
    return res


def rule_declusesync(ctx, prop: str) -> RuleResult:
    """A use of a whole buffer (`Read` with no index: a call argument) carries a COPY of the
    buffer's type, and scheduling (`set_window`) changes the declaration without touching
    the copies (a test of the unedited suite pins that).  The backend check that rejects
    "window passed where a dense tensor is expected" (`WindowAnalysis`) must therefore
    decide window-ness of an actual argument from the declarations it has seen — argument
    list, allocations, window statements — not from `<actual>.type` alone."""
    ix = ctx.ix
    res = RuleResult("DECLUSESYNC")
    WA = "src/exo/backend/win_analysis.py"
    c = ix.module(WA).cls("WindowAnalysis")
    res.analysed.append(f"{WA}:WindowAnalysis")
    # (1) the rejecting test
    rejecting = []
    for f in [c.methods.get("map_s")] + [g for q, g in ix.module(WA).funcs.items() if q.startswith("WindowAnalysis.map_s.")]:
        if f is None:
            continue
        for n in f.body_nodes():
            if isinstance(n, ast.If):
                from ..flow import always_raises

                if always_raises(n.body) and "is_win" in ast.unparse(n.test):
                    rejecting.append((f, n))
    if not rejecting:
        res.instances += 1
        res.ob(False)
        res.add(Finding("DECLUSESYNC", WA, c.node.lineno, "WindowAnalysis", "no-rejection", "WindowAnalysis no longer rejects a window passed where a dense tensor is expected"))
    decl_lookup_methods = set()
    for name, meth in c.methods.items():
        if any(isinstance(k, ast.Subscript) and (dotted(k.value) or "").startswith("self.") for k in meth.body_nodes()) and name not in ("map_s", "map_fnarg", "__init__"):
            decl_lookup_methods.add(name)
    for f, n in rejecting:
        res.instances += 1
        res.nontrivial += 1
        t = n.test
        uses_decl = any(
            (isinstance(k, ast.Call) and isinstance(k.func, ast.Attribute) and dotted(k.func.value) == "self" and k.func.attr in decl_lookup_methods)
            or (isinstance(k, ast.Subscript) and (dotted(k.value) or "").startswith("self."))
            for k in ast.walk(t)
        )
        res.ob(uses_decl)
        res.sample(f"{f.qualname}: the rejection `{ast.unparse(t)[:70]}` consults the declarations: {uses_decl}")
        if not uses_decl:
            res.add(
                Finding("DECLUSESYNC", WA, n.lineno, f.qualname, "reject-by-use-type",
                        "WindowAnalysis rejects a window passed for a dense tensor by looking at the type copied onto the argument expression only: after set_window(p, 'x', True) the "
                        "copy on `bar(n, x)` still says dense, the call is accepted and the C passes `struct exo_win_1f32` where `float*` is expected (does not compile)")
            )
    # (2) all three kinds of declaration are recorded
    recorded = set()
    for name in ("map_fnarg", "map_s"):
        meth = c.methods.get(name)
        if meth is None:
            continue
        for k in meth.body_nodes():
            if isinstance(k, ast.Assign) and isinstance(k.targets[0], ast.Subscript) and (dotted(k.targets[0].value) or "").startswith("self."):
                if name == "map_fnarg":
                    recorded.add("fnarg")
                else:
                    x, p_ = k, parent(k)
                    while p_ is not None and not isinstance(p_, ast.If):
                        x, p_ = p_, parent(p_)
                    if isinstance(p_, ast.If):
                        tt = ast.unparse(p_.test)
                        for kind in ("Alloc", "WindowStmt"):
                            if kind in tt:
                                recorded.add(kind)
    for kind in ("fnarg", "Alloc", "WindowStmt"):
        res.instances += 1
        ok = kind in recorded
        res.ob(ok)
        if not ok:
            res.add(Finding("DECLUSESYNC", WA, c.node.lineno, "WindowAnalysis", f"decl:{kind}", f"WindowAnalysis does not record `{kind}` declarations: window-ness of such a buffer falls back to the (possibly stale) type on the use"))
    res.floor = 4
    return res


def rule_allocsize(ctx, prop: str) -> RuleResult:
    """`_replace_reads(…, sym, …)` rewrites the uses of `sym` that the pattern `sym[_]` can
    reach; the size expressions of allocations are not among them (`_children` yields
    nothing for Alloc).  When `sym` is a loop iterator (divide_loop, shift_loop, mult_loops,
    fuse …) a size that mentions it would be left with a stale or unbound variable, so the
    funnel must refuse such bodies (or rewrite the sizes) before it edits anything."""
    ix = ctx.ix
    res = RuleResult("ALLOCSIZE")
    m = ix.module(S)
    f = m.funcs.get("_replace_reads")
    if f is None:
        raise AnalysisError("anchor vanished: _replace_reads")
    res.analysed.append(f"{S}:_replace_reads")
    res.instances += 1
    res.nontrivial += 1
    first_edit = min((k.lineno for k in f.body_nodes() if isinstance(k, ast.Call) and last_name(k) in ("_replace_helper", "match_pattern")), default=None)
    ok = False
    for k in f.body_nodes():
        if isinstance(k, ast.Call) and isinstance(k.func, ast.Name) and first_edit is not None and k.lineno < first_edit:
            h = m.funcs.get(k.func.id)
            if h is None:
                continue
            mentions_sym = any(isinstance(a, ast.Name) and a.id == f.params()[3] for a in k.args)
            alloc_raise = False
            for n in h.all_nodes():
                if isinstance(n, ast.If) and "LoopIR.Alloc" in ast.unparse(n.test) and any(isinstance(r, ast.Raise) for r in ast.walk(n)):
                    alloc_raise = True
            if mentions_sym and alloc_raise:
                ok = True
    res.ob(ok)
    res.sample(f"_replace_reads refuses bodies whose allocation sizes mention the rewritten symbol before editing: {ok}")
    if not ok:
        res.add(
            Finding("ALLOCSIZE", S, f.lineno, "_replace_reads", "alloc-size-unreached",
                    "_replace_reads rewrites a symbol through the pattern `sym[_]`, which cannot reach allocation sizes, and does not refuse bodies whose sizes mention it: "
                    "divide_loop on `for i: x: R[i + 1]; …` leaves `x: R[i + 1]` inside the io/ii nest (free variable; the procedure no longer compiles), fuse leaves the second loop's iterator behind")
        )
    # the callers that substitute an iterator go through the funnel
    callers = [g for g in m.funcs.values() if isinstance(g.node, ast.FunctionDef) and any(isinstance(k, ast.Call) and last_name(k) == "_replace_reads" and any(".iter" in ast.unparse(a) or "loop_iter" in ast.unparse(a) for a in k.args) for k in g.body_nodes())]
    res.instances += len(callers)
    for g in callers:
        res.ob(True)
        res.sample(f"{g.qualname}: substitutes a loop iterator through _replace_reads")
    if len(callers) < 4:
        raise AnalysisError(f"ALLOCSIZE: expected >= 4 iterator substitutions through _replace_reads, found {len(callers)}")
    res.floor = 5
    return res


def rule_ancestorfact(ctx, prop: str) -> RuleResult:
    """Walking back from a statement with `move_back` visits earlier SIBLINGS as well as
    enclosing scopes.  A fact that holds only inside a construct — the bounds of a loop
    iterator, the truth value of an `if` condition — may be collected only from constructs
    that enclose the statement: every For / If case of such a walk that records a fact
    must test `is_ancestor_of`."""
    ix = ctx.ix
    res = RuleResult("ANCESTORFACT")
    m = ix.module(S)
    n = 0
    for f in m.funcs.values():
        if not isinstance(f.node, ast.FunctionDef):
            continue
        for loop in f.body_nodes():
            if not (isinstance(loop, ast.While) and "LoopIR.proc" in ast.unparse(loop.test)):
                continue
            if not any(isinstance(k, ast.Call) and last_name(k) == "move_back" for b in loop.body for k in ast.walk(b)):
                continue
            for k in loop.body:
                node = k
                while isinstance(node, ast.If):
                    t = ast.unparse(node.test)
                    for kind in ("LoopIR.For", "LoopIR.If"):
                        if f"isinstance(s, {kind})" in t.replace("c._node", "s"):
                            records = any(isinstance(x, ast.Call) and isinstance(x.func, ast.Attribute) and x.func.attr in ("append", "add", "extend") for b in node.body for x in ast.walk(b))
                            if records:
                                n += 1
                                res.instances += 1
                                res.nontrivial += 1
                                res.analysed.append(f"{S}:{f.qualname}")
                                ok = "is_ancestor_of" in t
                                res.ob(ok)
                                res.sample(f"{f.qualname}: facts from `{kind}` are taken from enclosing constructs only: {ok}")
                                if not ok:
                                    res.add(
                                        Finding("ANCESTORFACT", S, node.lineno, f.qualname, kind,
                                                f"{f.qualname} records a fact for every `{kind.split('.')[1]}` met while walking back, including earlier siblings that do not enclose the statement: "
                                                f"extract_subproc on `if n > 4: …; x[1] = 2.0` gives the callee `assert (n > 4) == False`, which the call site does not guarantee")
                                    )
                    node = node.orelse[0] if len(node.orelse) == 1 and isinstance(node.orelse[0], ast.If) else None
    if n < 3:
        raise AnalysisError(f"ANCESTORFACT: expected >= 3 fact-recording cases in walk-back loops, found {n}")
    res.floor = 3
    return res


def rule_renameuses(ctx, prop: str) -> RuleResult:
    """`Alpha_Rename` gives every binder of the statements it is handed a NEW symbol and
    renames the uses inside those statements.  Renaming a lone declaration
    (`Alpha_Rename([alloc_stmt])`) and inserting it in front of existing statements leaves
    those statements referring to the old symbol: the same function must then rename the
    uses too (`_replace_reads` and `_replace_writes` with a `"name"` replacement)."""
    ix = ctx.ix
    res = RuleResult("RENAMEUSES")
    m = ix.module(S)
    n = 0
    for f in m.funcs.values():
        if not isinstance(f.node, ast.FunctionDef):
            continue
        # variables asserted / known to be a single Alloc statement
        allocs = set()
        for k in f.body_nodes():
            if isinstance(k, ast.Assert) and isinstance(k.test, ast.Call) and last_name(k.test) == "isinstance" and len(k.test.args) == 2 and ast.unparse(k.test.args[1]) == "LoopIR.Alloc" and isinstance(k.test.args[0], ast.Name):
                allocs.add(k.test.args[0].id)
        for k in f.body_nodes():
            if not (isinstance(k, ast.Call) and last_name(k) == "Alpha_Rename" and k.args and isinstance(k.args[0], ast.List) and len(k.args[0].elts) == 1):
                continue
            e = k.args[0].elts[0]
            if not (isinstance(e, ast.Name) and e.id in allocs):
                continue
            n += 1
            res.instances += 1
            res.nontrivial += 1
            res.analysed.append(f"{S}:{f.qualname}")
            later = [c for c in f.body_nodes() if isinstance(c, ast.Call) and c.lineno > k.lineno]
            def renames(fn):
                for c in later:
                    if last_name(c) == fn and any(f"{e.id}.name" in ast.unparse(a) for a in c.args):
                        cb = c.args[4] if len(c.args) > 4 else None
                        return True
                return False
            ok = renames("_replace_reads") and renames("_replace_writes")
            res.ob(ok)
            res.sample(f"{f.qualname}: the copy of `{e.id}` made by Alpha_Rename is followed by a renaming of its reads and writes: {ok}")
            if not ok:
                res.add(
                    Finding("RENAMEUSES", S, k.lineno, f.qualname, f"Alpha_Rename([{e.id}])",
                            f"{f.qualname} renames the declaration `{e.id}` on its own and inserts the copy in front of statements that still use the old symbol: "
                            f"sink_alloc into an if/else leaves the else branch with `a: R` (new symbol) followed by uses of the old `a` — an undeclared variable (KeyError in the backend)")
                )
    if n < 1:
        raise AnalysisError("RENAMEUSES: no lone-declaration Alpha_Rename found (anchor: DoSinkAlloc)")
    res.floor = 1
    return res


def rule_strideknown(ctx, prop: str) -> RuleResult:
    """`AWinAlloc` tells the effect analysis which strides of a dense buffer are compile-time
    constants: walking from the innermost dimension outwards, stride(i) is the product of
    the extents of all dimensions > i, so it is known only while every extent met so far
    is a literal.  The accumulation loop must stop (break / return) at the first
    non-literal extent; continuing would multiply only the literal extents and assert a
    false stride for the outer dimensions (`stride(x, 0) == 4` for `x: R[2, 4, n]`)."""
    ix = ctx.ix
    res = RuleResult("STRIDEKNOWN")
    f = ix.func(NE, "AWinAlloc")
    res.analysed.append(f"{NE}:AWinAlloc")
    loops = [n for n in f.body_nodes() if isinstance(n, ast.For) and "reversed" in ast.unparse(n.iter)]
    if not loops:
        raise AnalysisError("anchor vanished: the inside-out stride loop of AWinAlloc")
    for lp in loops:
        res.instances += 1
        res.nontrivial += 1
        ok = False
        for k in lp.body:
            for n in ast.walk(k):
                if isinstance(n, ast.If) and "LoopIR.Const" in ast.unparse(n.test):
                    t = ast.unparse(n.test)
                    neg = t.startswith("not ")
                    stop_branch = n.body if neg else n.orelse
                    if any(isinstance(x, (ast.Break, ast.Return)) for s_ in stop_branch for x in ast.walk(s_)):
                        ok = True
        res.ob(ok)
        res.sample(f"AWinAlloc: the stride accumulation stops at the first non-literal extent: {ok}")
        if not ok:
            res.add(
                Finding("STRIDEKNOWN", NE, lp.lineno, "AWinAlloc", "no-stop",
                        "the constant-stride loop of AWinAlloc does not stop at a non-literal extent: for `x: R[2, 4, n]` the analysis believes stride(x, 0) == 4 (it is 4*n), and every "
                        "SMT-backed check that reads a stride (eliminate_dead_code on `if stride(x,0) == 4`, config writes of strides, call_eqv) can accept a wrong rewrite")
            )
    # a tensor passed to a call BY NAME may itself be a window (argument) of the caller: only a dense
    # buffer has the strides AWinAlloc fills in, so the binding of the formal must know whether
    # the actual is a window
    cb = ix.func(NE, "call_bindings")
    res.analysed.append(f"{NE}:call_bindings")
    for k in cb.body_nodes():
        if isinstance(k, ast.Call) and last_name(k) == "AWinAlloc":
            res.instances += 1
            res.nontrivial += 1
            dv = next((kw.value for kw in k.keywords if kw.arg == "dense"), None)
            srcs = []
            if dv is not None:
                srcs = [ast.unparse(dv)]
                if isinstance(dv, ast.Name):
                    srcs += [ast.unparse(a.value) for a in cb.body_nodes() if isinstance(a, ast.Assign) and len(a.targets) == 1 and dotted(a.targets[0]) == dv.id]
            ok = any("is_win" in t for t in srcs)
            res.ob(ok)
            res.sample(f"call_bindings: `{ast.unparse(k)[:60]}` distinguishes a window actual from a dense one: {ok}")
            if not ok:
                res.add(
                    Finding("STRIDEKNOWN", NE, k.lineno, "call_bindings", "dense-by-name",
                            "call_bindings gives a tensor argument passed by name the strides of a dense buffer even when the actual is a window of the caller: with "
                            "`callee(x: [R][8,4]): Cfg.s = stride(x, 0)` and `caller(y: [R][8,4]): callee(y); if Cfg.s == 4: …`, eliminate_dead_code makes the branch unconditional")
                )
    res.floor = 2
    return res


def rule_stageguard(ctx, prop: str) -> RuleResult:
    """stage_mem deliberately accepts windows that stick out of the source buffer and relies on
    `insert_safety_guards` to keep the generated load / store loops in bounds (the final
    Check_Bounds only covers the NEW staging buffer).  For every dimension BOTH bound conditions
    (0 <= idx, idx < dim) are built, and each one is dropped only when it was itself proved in
    context: the append of a condition C to the guard list is governed by `not check_cond(C)`
    and by nothing else.  Chained with `elif`, the upper bound of a dimension whose lower bound
    is unprovable is never even considered (halo window x[i-1:i+2]: x[n] is touched)."""
    ix = ctx.ix
    res = RuleResult("STAGEGUARD")
    f = ix.func(S, "DoStageMem.insert_safety_guards")
    res.analysed.append(f"{S}:DoStageMem.insert_safety_guards")
    prover = "check_cond"
    # conditions built in the function: name -> comparison operator
    conds: Dict[str, str] = {}
    for n in f.body_nodes():
        if isinstance(n, ast.Assign) and len(n.targets) == 1 and isinstance(n.targets[0], ast.Name) and isinstance(n.value, ast.Call) and dotted(n.value.func) == "LoopIR.BinOp" and n.value.args:
            a0 = n.value.args[0]
            if isinstance(a0, ast.Constant) and a0.value in ("<", "<=", ">", ">="):
                conds[n.targets[0].id] = a0.value
    if len(conds) < 2:
        raise AnalysisError("anchor vanished: insert_safety_guards no longer builds a lower- and an upper-bound condition per dimension")
    ops = sorted(conds.values())
    res.instances += 1
    res.nontrivial += 1
    ok = any(o in ("<=", ">=") for o in ops) and any(o in ("<", ">") for o in ops)
    res.ob(ok)
    if not ok:
        res.add(Finding("STAGEGUARD", S, f.lineno, f.qualname, "both-bounds", "both `0 <= idx` and `idx < dim` must be built for every dimension"))
    for c, op in sorted(conds.items()):
        res.instances += 1
        res.nontrivial += 1
        appends = [n for n in f.body_nodes() if isinstance(n, ast.Call) and isinstance(n.func, ast.Attribute) and n.func.attr == "append" and n.args and isinstance(n.args[0], ast.Name) and n.args[0].id == c]
        good = False
        why = "is never appended to the guard list"
        for a in appends:
            govern = []
            p = a
            while p is not None and p is not f.node:
                q = parent(p)
                if isinstance(q, ast.If):
                    if any(p is s for s in q.body):
                        govern.append(("T", q.test))
                    elif any(p is s for s in q.orelse):
                        govern.append(("F", q.test))
                p = q
            want = f"not {prover}({c})"
            if len(govern) == 1 and govern[0][0] == "T" and ast.unparse(govern[0][1]) == want:
                good = True
            else:
                why = "is appended under `" + " / ".join(("" if pol == "T" else "else of ") + ast.unparse(t)[:50] for pol, t in govern) + f"` instead of `{want}` alone"
        res.ob(good)
        res.sample(f"insert_safety_guards: condition `{c}` ({op}) kept unless itself proved: {good}")
        if not good:
            res.add(Finding("STAGEGUARD", S, f.lineno, f.qualname, f"guard:{op}",
                            f"the bound condition `{c}` {why}: when the other bound of the same dimension is unprovable this one is silently dropped and the load / store loop of stage_mem "
                            f"accesses the source buffer out of bounds (halo window x[i-1:i+2] touches x[n])"))
    res.floor = 3
    return res


def rule_freevars(ctx, prop: str) -> RuleResult:
    """`_FV` (class _FreeVars) answers "which variables does this code use from outside?" for the
    scope guards of fission, lift_scope, remove_loop, divide_dim ...: an allocation may be left
    behind only if no later statement uses it.  A buffer is used by EVERY expression constructor
    that carries a `sym name` in the ADT — a point read, a window expression `tmp[0:8]` passed to
    a call, a `stride(tmp, 0)` — so `_FreeVars.do_e` must record the name for each of them.  With
    only LoopIR.Read, fission moves `foo(8, tmp[0:8])` out of the scope of `tmp`."""
    ix, adts = ctx.ix, ctx.adts
    res = RuleResult("FREEVARS")
    c = ix.module(S).cls("_FreeVars")
    f = c.methods.get("do_e") if c else None
    if f is None:
        raise AnalysisError("anchor vanished: _FreeVars.do_e")
    res.analysed.append(f"{S}:_FreeVars.do_e")
    mod = adts["LoopIR"]
    named = [k for k in mod.ctors_of("expr") if any(fl.name == "name" and fl.type == "sym" for fl in mod.ctor(k).fields)]
    if len(named) < 3:
        raise AnalysisError(f"FREEVARS: expected Read, WindowExpr, StrideExpr to carry `sym name` in the ADT, found {named}")
    ps = [a for a in f.params() if a != "self"]
    subj = ps[0] if ps else "e"
    covered: Set[str] = set()
    for n in f.body_nodes():
        if isinstance(n, ast.If):
            recs = any(isinstance(k, ast.Call) and isinstance(k.func, ast.Attribute) and k.func.attr == "add" and k.args and ast.unparse(k.args[0]) == f"{subj}.name" for s_ in n.body for k in ast.walk(s_))
            if not recs:
                continue
            for k in ast.walk(n.test):
                if isinstance(k, ast.Call) and dotted(k.func) == "isinstance" and len(k.args) == 2 and ast.unparse(k.args[0]) == subj:
                    cs = k.args[1].elts if isinstance(k.args[1], ast.Tuple) else [k.args[1]]
                    for c_ in cs:
                        r = adts.resolve_ctor(c_, f.module)
                        if r:
                            covered |= set(adts.expand(r[0], r[1]))
    for k in named:
        res.instances += 1
        res.nontrivial += 1
        ok = k in covered
        res.ob(ok)
        res.sample(f"_FreeVars.do_e records the buffer named by LoopIR.{k}: {ok}")
        if not ok:
            res.add(Finding("FREEVARS", S, f.lineno, "_FreeVars.do_e", f"name-of:{k}",
                            f"_FreeVars does not record the buffer named by a LoopIR.{k}: a use of an allocation through a {k} (e.g. `foo(8, tmp[0:8])`, `stride(tmp, 0)`) is invisible to the scope guards, "
                            f"and fission / lift_scope leave the use outside the scope of the declaration (ill-scoped procedure, KeyError at compile time)"))
    res.floor = 3
    return res


def rule_copyident(ctx, prop: str) -> RuleResult:
    """The analyses behind rewrite_expr, bind_expr, stage_mem ... locate "the statement the check is
    about" by OBJECT IDENTITY (`if s is self.stmts[0]` in ContextExtraction) and take its context — the
    enclosing guards, the configuration state before it — from where they find it.  That is only right if
    no statement object occurs twice in a procedure.  `specialize` puts two copies of a block into one `if`;
    both come from `Alpha_Rename(block).result()`, which (being a LoopIR_Rewrite) hands back the ORIGINAL
    object for every statement that binds nothing.  The else-copy of `x[0] = 1.0` is then the very object of
    the then-copy, and a check asked about the else-copy is decided under the then-branch's condition."""
    ix = ctx.ix
    res = RuleResult("COPYIDENT")
    NE_ = "src/exo/rewrite/new_eff.py"
    ce = ix.module(NE_).cls("ContextExtraction")
    if ce is None:
        raise AnalysisError("anchor vanished: ContextExtraction")
    ident = [n for f in ce.methods.values() for n in f.body_nodes() if isinstance(n, ast.Compare) and len(n.ops) == 1 and isinstance(n.ops[0], ast.Is) and "stmts[0]" in ast.unparse(n.comparators[0])]
    res.instances += 1
    res.sample(f"ContextExtraction locates its statements by identity: {len(ident)} `is self.stmts[0]` tests")
    res.ob(True)
    if not ident:
        # located some other way (by path): duplicates are harmless, nothing to require
        res.floor = 1
        return res
    f = ix.func(S, "DoSpecialize")
    res.analysed.append(f"{S}:DoSpecialize")
    copies = {}
    for n in f.body_nodes():
        if isinstance(n, ast.Assign) and len(n.targets) == 1 and isinstance(n.targets[0], ast.Name) and isinstance(n.value, ast.Call):
            v = n.value
            if isinstance(v.func, ast.Attribute) and v.func.attr == "result" and isinstance(v.func.value, ast.Call) and last_name(v.func.value) == "Alpha_Rename" and v.func.value.args:
                copies.setdefault(ast.unparse(v.func.value.args[0]), []).append(n.targets[0].id)
    res.instances += 1
    res.nontrivial += 1
    dup = {src: tg for src, tg in copies.items() if len(tg) >= 2}
    # a forced copy of every statement (e.g. a deep-copying helper) would make the branches distinct
    forced = any(isinstance(n, ast.Call) and (last_name(n) or "") in ("deepcopy", "copy_stmts", "fresh_copy") for n in f.body_nodes())
    ok = not dup or forced
    res.ob(ok)
    res.sample(f"DoSpecialize: branches built from {dict(dup)}; statements forced to be distinct objects: {forced}")
    if not ok:
        src, tg = sorted(dup.items())[0]
        res.add(Finding("COPYIDENT", S, f.lineno, "DoSpecialize", f"branches:Alpha_Rename({src})",
                        f"DoSpecialize builds `{tg[0]}` and `{tg[1]}` from `Alpha_Rename({src}).result()`: statements that bind nothing come back as the SAME objects, so one statement object sits in both "
                        f"branches; ContextExtraction finds the first occurrence (`s is self.stmts[0]`) and decides a check about the else-copy under the then-branch's condition — "
                        f"after specialize(x[0] = 1.0, 'n == 8'), rewrite_expr of the else-copy's index to `n - 8` is accepted"))
    res.floor = 2
    return res
