"""C03 rules: FRONTPIPE, OBLIG, WINALIAS(bounds), BOUNDFORM (DESIGN §3.15)."""
from __future__ import annotations

import ast
from typing import Dict, List, Optional, Set, Tuple

from .. import pat
from ..flow import always_raises, nonempty_test
from ..index import AnalysisError, Func, dotted, last_name, norm_stmt, parent
from ..report import Finding, RuleResult
from .compiler import cases_for, _walk

API = "src/exo/API.py"
B = "src/exo/frontend/boundscheck.py"
TC = "src/exo/frontend/typecheck.py"


def _calls_in_order(stmts: List[ast.stmt]) -> List[ast.Call]:
    out = [n for s in stmts for n in ast.walk(s) if isinstance(n, ast.Call)]
    out.sort(key=lambda n: (n.lineno, n.col_offset))
    return out


def rule_frontpipe(ctx, prop: str) -> RuleResult:
    ix, adts = ctx.ix, ctx.adts
    res = RuleResult("FRONTPIPE")
    init = ix.func(API, "Procedure.__init__")
    res.analysed.append(f"{API}:Procedure.__init__")
    branch = None
    for n in init.body_nodes():
        if isinstance(n, ast.If) and isinstance(n.test, ast.Call) and dotted(n.test.func) == "isinstance" and len(n.test.args) == 2:
            d = dotted(n.test.args[1]) or ""
            if d.endswith("UAST.proc"):
                branch = n
    if branch is None:
        raise AnalysisError("anchor vanished: `if isinstance(proc, UAST.proc)` in Procedure.__init__")
    names = [last_name(c) for c in _calls_in_order(branch.body)]
    want = ["TypeChecker", "CheckBounds", "Check_Aliasing"]
    pos = -1
    for w in want:
        res.instances += 1
        res.nontrivial += 1
        ok = w in names[pos + 1 :]
        res.ob(ok)
        if ok:
            pos = names.index(w, pos + 1)
        else:
            res.add(Finding("FRONTPIPE", API, branch.lineno, init.qualname, w, f"a freshly parsed procedure is not passed through {w} (in the order {' -> '.join(want)}) before it becomes a Procedure"))
    res.sample(f"Procedure.__init__ on UAST.proc runs: {names}")
    # straight line: no conditional around the three checks
    res.instances += 1
    ok = all(isinstance(s, (ast.Assign, ast.Expr)) for s in branch.body)
    res.ob(ok)
    if not ok:
        res.add(Finding("FRONTPIPE", API, branch.lineno, init.qualname, "unconditional", "the front-end checks are no longer unconditional for parsed procedures"))
    # the checked proc is the typechecker's output, and every check receives it
    res.instances += 1
    m1 = pat.find("_M_p = TypeChecker(_M_p).get_loopir()", ast.Module(body=branch.body, type_ignores=[]))
    ok = m1 is not None and pat.has("CheckBounds(_M_p)", ast.Module(body=branch.body, type_ignores=[]), m1[1]) and pat.has("Check_Aliasing(_M_p)", ast.Module(body=branch.body, type_ignores=[]), m1[1])
    res.ob(ok)
    if not ok:
        res.add(Finding("FRONTPIPE", API, branch.lineno, init.qualname, "same-proc", "CheckBounds / Check_Aliasing are not applied to the typechecked procedure"))
    # errors abort: TypeChecker and CheckBounds raise when they recorded errors
    for file, qn in ((TC, "TypeChecker.__init__"), (B, "CheckBounds.__init__")):
        f = ix.func(file, qn)
        res.analysed.append(f"{file}:{qn}")
        res.instances += 1
        res.nontrivial += 1
        ok = any(isinstance(n, ast.If) and nonempty_test(n.test, "errors") and always_raises(n.body) for n in f.body_nodes())
        res.ob(ok)
        if not ok:
            res.add(Finding("FRONTPIPE", file, f.lineno, qn, "errors->raise", f"{qn.split('.')[0]} records errors but no longer raises when there are any: unsafe procedures are accepted"))
    # UAST.proc values are minted only by the parser
    for f in ix.all_funcs():
        for n in f.body_nodes():
            if isinstance(n, ast.Call) and (dotted(n.func) or "").endswith("UAST.proc"):
                res.instances += 1
                ok = f.file == "src/exo/frontend/pyparser.py"
                res.ob(ok)
                if not ok:
                    res.add(Finding("FRONTPIPE", f.file, n.lineno, f.qualname, "UAST.proc()", "an untyped procedure is constructed outside the parser"))
    res.floor = 7
    return res


def rule_oblig(ctx, prop: str) -> RuleResult:
    """Per statement kind, CheckBounds.map_stmts issues the obligations of C03."""
    ix, adts = ctx.ix, ctx.adts
    res = RuleResult("OBLIG")
    f = ix.func(B, "CheckBounds.map_stmts")
    res.analysed.append(f"{B}:CheckBounds.map_stmts")

    def case(K):
        cs = cases_for(f, adts, "stmt", "LoopIR", K)
        if not cs:
            raise AnalysisError(f"anchor vanished: {K} case in CheckBounds.map_stmts")
        return ast.Module(body=[s for c in cs for s in c.body], type_ignores=[]), cs[0].lineno

    def need(ok, line, key, msg, sample=""):
        res.instances += 1
        res.nontrivial += 1
        res.ob(ok)
        if sample:
            res.sample(sample)
        if not ok:
            res.add(Finding("OBLIG", B, line, "CheckBounds.map_stmts", key, msg))

    # For: trip count hi - lo >= 0, checked before the loop predicate is assumed
    body, line = case("For")
    m = pat.find("_M_it = LoopIR.BinOp('-', _M_s.hi, _M_s.lo, _M__, _M__)", body)
    chk = None
    if m is not None:
        chk = pat.find("self.check_non_negative(lift_expr(_M_it))", body, m[1])
    assume = [n for n in ast.walk(body) if isinstance(n, ast.Call) and last_name(n) == "add_assertion"]
    rec = [n for n in ast.walk(body) if isinstance(n, ast.Call) and last_name(n) == "map_stmts"]
    # a configuration field written in the body reaches the NEXT iteration's reads: the loop case must
    # account for the body's own configuration writes when it analyses the body (invalidate them, or
    # iterate); analysing the body once under the values that hold before the loop is not enough
    carried = any(
        (isinstance(n, ast.Attribute) and n.attr in ("config_writes",)) or (isinstance(n, ast.Call) and last_name(n) in ("get_writeconfigs", "havoc_configs"))
        for n in ast.walk(body)
    )
    need(carried, line, "For:loop-carried-config",
         "the loop body is analysed once under the configuration values that hold before the loop; a field written in the body is not invalidated for the next iteration: "
         "`Cfg.i = 0; for k in seq(0, n): x[Cfg.i] = 0.0; Cfg.i = 100` is accepted although the second iteration writes x[100]")
    # Alloc: statements are visited LAST to FIRST and `body_eff` holds the effects of what FOLLOWS the
    # allocation; configuration reads in it are resolved against earlier writes only later, when the earlier
    # statements are prepended (eff_concat).  Checked right at the Alloc, an access `y[Cfg.a]` is compared with
    # the value Cfg.a had on entry to the block (the enclosing `if Cfg.a < 4`), not with an intervening
    # `Cfg.a = 100`.  The check has to be made (or re-made) once the block's earlier configuration writes
    # have been substituted — deferred, or on an effect whose unresolved configuration reads are unknown.
    ab, aline = case("Alloc")
    cb = [n for n in ast.walk(ab) if isinstance(n, ast.Call) and last_name(n) == "check_bounds"]
    deferred = any(isinstance(n, ast.Call) and last_name(n) in ("config_subst", "havoc_configs", "defer_check", "append") for n in ast.walk(ab))
    need(bool(cb) and deferred, aline, "Alloc:earlier-config-writes",
         "the accesses of a new buffer are checked at its allocation against `body_eff`, whose configuration reads have not yet seen the configuration writes that precede the allocation in the same block: "
         "`if Cfg.a < 4 and Cfg.a >= 0: Cfg.a = 100; y: f32[4]; y[Cfg.a] = 0.0` is accepted (the write before the allocation is ignored), while the same program with the allocation first is rejected")
    # WindowStmt: the declared extent of a window made in the body is an obligation of its own
    # (accesses through it are translated to the underlying buffer, which only bounds them by the buffer)
    wb, wline = case("WindowStmt")
    issues = any(isinstance(n, ast.Call) and last_name(n) in ("check_bounds", "check_in_bounds", "check_non_negative", "check_pos_size") for n in ast.walk(wb))
    need(issues, wline, "WindowStmt:extent",
         "a window statement issues no obligation: accesses through the window are compared with the underlying buffer only, and the interval itself is not compared with the buffer: "
         "`w = x[0:4]; w[5] = 0.0` and `w = x[0:20]` on `x: R[10]` are accepted (an access outside the declared extent of a window)")
    need(m is not None and chk is not None, line, "For:hi-lo>=0", "loops are no longer checked for a non-negative trip count `hi - lo` (a loop whose upper bound is below its lower bound is accepted)",
         "For: check_non_negative(hi - lo)")
    need(chk is not None and assume and chk[0].lineno < min(a.lineno for a in assume), line, "For:check-before-assume",
         "the trip-count check must be made before `lo <= i < hi` is assumed (the assumption makes it vacuous)")
    need(bool(assume) and bool(rec) and min(a.lineno for a in assume) < min(r.lineno for r in rec), line, "For:assume-before-body", "the loop body must be checked under the assumption lo <= i < hi")
    bp = pat.find("E.BinOp('and', E.BinOp('<=', _M_lo, _M_x, _M__, _M__), E.BinOp('<', _M_x, _M_hi, _M__, _M__), _M__, _M__)", body)
    need(bp is not None, line, "For:lo<=i<hi", "the assumed iteration range must be `lo <= i and i < hi`")
    # Alloc
    body, line = case("Alloc")
    need(pat.has("for _M_s in _M_shape:\n    self.check_pos_size(_M_s)", body), line, "Alloc:pos-size", "allocation sizes are no longer checked to be positive")
    need(pat.has("self.check_bounds(_M_st.name, _M_shape, _M_eff)", body), line, "Alloc:check_bounds", "accesses to a local buffer are no longer checked against its shape",
         "Alloc: check_pos_size per dim + check_bounds(name, shape, body_eff)")
    # Call
    body, line = case("Call")
    szs = [n for n in ast.walk(body) if isinstance(n, ast.If) and "T.Size" in ast.unparse(n.test) and any(isinstance(x, ast.Call) and last_name(x) == "check_pos_size" for s in n.body for x in ast.walk(s))]
    need(bool(szs), line, "Call:size-arg>0", "size arguments of a call are no longer checked to be positive")
    need(pat.has("for _M_e in _M_shape:\n    self.check_pos_size(_M_e)", body), line, "Call:arg-dims>0", "dimensions of tensor/window arguments are no longer checked to be positive")
    need(any(isinstance(n, ast.Call) and last_name(n) == "check_call_shape_eqv" for n in ast.walk(body)), line, "Call:shape-eqv", "argument shapes are no longer compared with the callee's signature")
    pr = None
    for n in ast.walk(body):
        if isinstance(n, ast.For) and ".preds" in ast.unparse(n.iter):
            for k in ast.walk(n):
                if isinstance(k, ast.If) and isinstance(k.test, ast.UnaryOp) and isinstance(k.test.op, ast.Not) and "is_valid" in ast.unparse(k.test) and any(isinstance(x, ast.Call) and last_name(x) == "err" for s in k.body for x in ast.walk(s)):
                    pr = n
    need(pr is not None, line, "Call:preds-valid", "callee assertions are no longer proved at the call site (`if not is_valid(pred): err`)", "Call: sizes>0, dims>0, shape eqv, preds valid under substitution")
    need(pr is not None and "loopir_subst" in ast.unparse(pr), line, "Call:preds-subst", "callee assertions must be instantiated with the actual arguments before being proved")
    need(any(isinstance(n, ast.Call) and last_name(n) == "map_stmts" and ".f.body" in ast.unparse(n) for n in ast.walk(body)), line, "Call:callee-effects", "the callee's body effects are no longer folded into the caller's (accesses made by the callee escape the bounds check)")
    # If: branch conditions
    body, line = case("If")
    need(pat.has("_M_n = _M_c.negate()", body) or "negate()" in ast.unparse(body), line, "If:negate", "the else branch must be checked under the negated condition")
    flt = [n for n in ast.walk(body) if isinstance(n, ast.Call) and last_name(n) == "eff_filter"]
    need(len(flt) >= 2, line, "If:eff_filter", "effects of both branches must be guarded by their condition")
    # proc level
    init = ix.func(B, "CheckBounds.__init__")
    res.analysed.append(f"{B}:CheckBounds.__init__")
    ib = init.node
    need(pat.has("for _M_s in _M_shape:\n    self.check_pos_size(_M_s)", ib) and pat.has("self.check_bounds(_M_a.name, _M_shape, _M_eff)", ib), init.lineno, "proc:args", "argument buffers are no longer checked (positive dims, accesses in bounds)")
    need(pat.has("SMT.LT(SMT.Int(0), self.sym_to_smt(_M_a.name))", ib), init.lineno, "proc:size>0", "size arguments must be assumed positive (0 < n)")
    res.floor = 14
    return res


def _rel(node: ast.AST) -> Optional[Tuple[str, str, str]]:
    """SMT.LT(a,b)/LE/GT/GE -> normalised ('<'|'<=', lhs, rhs)."""
    if isinstance(node, ast.Call) and isinstance(node.func, ast.Attribute) and dotted(node.func.value) == "SMT" and len(node.args) == 2:
        a, b = (ast.unparse(x) for x in node.args)
        op = node.func.attr
        if op == "LT":
            return ("<", a, b)
        if op == "LE":
            return ("<=", a, b)
        if op == "GT":
            return ("<", b, a)
        if op == "GE":
            return ("<=", b, a)
    return None


def rule_boundform(ctx, prop: str) -> RuleResult:
    """The formulas the bounds checker proves are the property's own statement:
    0 <= idx < dim, 0 < size, 0 <= trip count, arg shape == signature shape; and each
    is reported when NOT valid."""
    ix = ctx.ix
    res = RuleResult("BOUNDFORM")
    m = ix.module(B)

    def need(ok, f, key, msg, sample=""):
        res.instances += 1
        res.nontrivial += 1
        res.ob(ok)
        if sample:
            res.sample(sample)
        if not ok:
            res.add(Finding("BOUNDFORM", B, f.lineno, f.qualname, key, msg))

    def rels(f: Func) -> List[Tuple[str, str, str]]:
        return [r for n in f.body_nodes() if (r := _rel(n)) is not None]

    def valid_then_err(f: Func) -> bool:
        for n in f.body_nodes():
            if isinstance(n, ast.If) and isinstance(n.test, ast.UnaryOp) and isinstance(n.test.op, ast.Not):
                c = n.test.operand
                if isinstance(c, ast.Call) and last_name(c) == "is_valid" and any(isinstance(x, ast.Call) and last_name(x) == "err" for s in n.body for x in ast.walk(s)):
                    return True
        return False

    f = m.func("CheckBounds.check_pos_size")
    r = rels(f)
    need(any(op == "<" and a == "SMT.Int(0)" and "expr_to_smt" in b for op, a, b in r), f, "0<size", "check_pos_size must prove 0 < size", f"check_pos_size proves {r}")
    need(valid_then_err(f), f, "not-valid->err", "a size that cannot be proved positive must be reported")
    f = m.func("CheckBounds.check_non_negative")
    r = rels(f)
    need(any(op == "<=" and a == "SMT.Int(0)" and "expr_to_smt" in b for op, a, b in r), f, "0<=trip", "check_non_negative must prove 0 <= expr", f"check_non_negative proves {r}")
    need(valid_then_err(f), f, "not-valid->err", "a possibly negative trip count must be reported")
    f = m.func("CheckBounds.check_in_bounds")
    r = rels(f)
    # e = expr_to_smt(loc); 0 <= e ; e < expr_to_smt(hi)
    lo_ok = any(op == "<=" and a == "SMT.Int(0)" for op, a, b in r)
    hi_ok = any(op == "<" and "expr_to_smt" in b and a != "SMT.Int(0)" for op, a, b in r)
    need(lo_ok and hi_ok, f, "0<=i<dim", "check_in_bounds must prove 0 <= index and index < dimension for every coordinate", f"check_in_bounds proves {r}")
    need(valid_then_err(f), f, "not-valid->err", "an access that cannot be proved in bounds must be reported")
    need(pat.has("for _M_e, _M_hi in zip(_M_eff.loc, _M_shape):\n    _M__", f.node), f, "every-coordinate", "every coordinate of the access must be compared with the corresponding dimension")
    pred = pat.has("if _M_eff.pred is not None:\n    self.solver.add_assertion(self.expr_to_smt(_M_eff.pred))", f.node)
    need(pred, f, "under-guard", "the access is checked under its own guard (loop bounds / branch conditions)")
    f = m.func("CheckBounds.check_bounds")
    txt = {n.attr for n in f.body_nodes() if isinstance(n, ast.Attribute)}
    need({"reads", "writes", "reduces"} <= txt, f, "all-three-kinds", "reads, writes and reductions must all be bounds-checked", "check_bounds covers reads, writes, reduces")
    f = m.func("CheckBounds.check_call_shape_eqv")
    need(pat.has("SMT.Equals(self.expr_to_smt(_M_a), self.expr_to_smt(_M_s))", f.node) and valid_then_err(f), f, "shape-equals", "argument and signature dimensions must be proved equal, and a failure reported")
    # satisfiability of the procedure's own assertions
    f = m.func("CheckBounds.__init__")
    ok = any(isinstance(n, ast.If) and isinstance(n.test, ast.UnaryOp) and "is_sat" in ast.unparse(n.test) for n in f.body_nodes())
    need(ok, f, "preds-sat", "unsatisfiable assertions must be reported (they would make every check vacuous)")
    res.floor = 11
    return res


def rule_winalias_bounds(ctx, prop: str) -> RuleResult:
    """Bounds effects are closed under window aliasing for all three access kinds."""
    ix, adts = ctx.ix, ctx.adts
    res = RuleResult("WINALIAS")
    m = ix.module(B)
    spec = [
        ("CheckBounds.map_stmts", "stmt", "Assign", ("eff_write", "eff_reduce")),
        ("CheckBounds.eff_e", "e", "Read", ("eff_read",)),
    ]
    for qn, subj, K, ctors in spec:
        f = m.func(qn)
        res.analysed.append(f"{B}:{qn}")
        cs = cases_for(f, adts, subj, "LoopIR", K)
        if not cs:
            raise AnalysisError(f"anchor vanished: {K} case in {qn}")
        body = ast.Module(body=[s for c in cs for s in c.body], type_ignores=[])
        for ctor in ctors:
            res.instances += 1
            res.nontrivial += 1
            var = None
            for n in ast.walk(body):
                if isinstance(n, ast.Assign) and isinstance(n.value, ast.Call) and last_name(n.value) == ctor and isinstance(n.targets[0], ast.Name):
                    var = n.targets[0].id
                    built_on_name = any(isinstance(a, ast.Attribute) and a.attr == "name" for a in n.value.args)
            if var is None:
                raise AnalysisError(f"anchor vanished: {ctor}(...) in {qn}")
            ok = False
            for n in ast.walk(body):
                if isinstance(n, ast.If) and "T.Window" in ast.unparse(n.test):
                    for k in ast.walk(n):
                        if isinstance(k, ast.Assign) and isinstance(k.value, ast.Call) and last_name(k.value) == "translate_eff" and k.value.args and dotted(k.value.args[0]) == var and dotted(k.targets[0]) == var:
                            ok = True
            res.ob(ok)
            res.sample(f"{qn} {K}: effect from {ctor} translated through window types: {ok}")
            if not ok:
                res.add(
                    Finding("WINALIAS", B, cs[0].lineno, qn, f"{ctor}->translate_eff",
                            f"the effect built by {ctor} on a window name is not translated back to the underlying buffer (`if isinstance(typ, T.Window): eff = translate_eff(eff, ...)`): "
                            f"accesses through a window are never compared with any buffer's extent")
                )
    # call arguments that are windows
    f = m.func("CheckBounds.map_stmts")
    cs = cases_for(f, adts, "stmt", "LoopIR", "Call")
    body = ast.Module(body=[s for c in cs for s in c.body], type_ignores=[])
    res.instances += 1
    res.nontrivial += 1
    ok = any(isinstance(n, ast.If) and "T.Window" in ast.unparse(n.test) and any(isinstance(x, ast.Call) and last_name(x) == "translate_eff" for s in n.body for x in ast.walk(s)) for n in ast.walk(body))
    res.ob(ok)
    if not ok:
        res.add(Finding("WINALIAS", B, cs[0].lineno, f.qualname, "Call->translate_eff", "callee effects on a window argument are not translated to the caller's buffer"))
    # ... under the name the effects carry at that point: `bind[sig.name] = arg.name` followed by
    # `eff.subst(bind)` renames the effects of a plain window-variable argument to the variable, so a
    # translation keyed by the formal's name alone never matches them
    renames = [n for n in ast.walk(body) if isinstance(n, ast.Assign) and isinstance(n.targets[0], ast.Subscript) and dotted(n.targets[0].value) == "bind"
               and isinstance(n.value, ast.Attribute) and n.value.attr == "name"]
    substs = [n for n in ast.walk(body) if isinstance(n, ast.Call) and isinstance(n.func, ast.Attribute) and n.func.attr == "subst" and n.args and dotted(n.args[0]) == "bind"]
    if renames and substs:
        actual = dotted(renames[0].value)  # e.g. arg.name
        for n in ast.walk(body):
            if isinstance(n, ast.Call) and last_name(n) == "translate_eff" and len(n.args) >= 2 and n.lineno > substs[0].lineno:
                res.instances += 1
                res.nontrivial += 1
                key = n.args[1]
                srcs = {ast.unparse(key)}
                if isinstance(key, ast.Name):
                    for k in ast.walk(body):
                        if isinstance(k, ast.Assign) and len(k.targets) == 1:
                            t0 = k.targets[0]
                            if dotted(t0) == key.id:
                                srcs.add(ast.unparse(k.value))
                            elif isinstance(t0, ast.Tuple) and isinstance(k.value, ast.Tuple) and len(t0.elts) == len(k.value.elts):
                                for te, ve in zip(t0.elts, k.value.elts):
                                    if dotted(te) == key.id:
                                        srcs.add(ast.unparse(ve))
                ok = any(actual in t for t in srcs)
                res.ob(ok)
                res.sample(f"{f.qualname} Call: translate_eff keyed by `{' / '.join(sorted(srcs))[:80]}` accounts for the renamed window variable `{actual}`: {ok}")
                if not ok:
                    res.add(
                        Finding("WINALIAS", B, n.lineno, f.qualname, "Call->translate_eff-key",
                                f"callee effects were renamed to the argument's own name (`bind[...] = {actual}`; `eff.subst(bind)`) but are translated under `{ast.unparse(key)}` only: "
                                f"for `w = y[2:10]; callee(w)` the accesses stay on `w` and are never compared with the extent of `y` (out-of-bounds call accepted)")
                    )
    # every translation is a step of a FOLD over the windowed names: `X = translate_eff(X, ...)`.  Fed from
    # any other name (a copy taken before the loop), each windowed argument's translation starts over and
    # only the LAST one's survives — accesses through the earlier window arguments stay on a formal's name
    # and are never compared with a buffer extent: copy4(x[4:8], y[0:4]) with x: f32[6] is accepted
    n_thread = 0
    for fn in (f for f in ix.all_funcs() if f.file == B):
        for n in fn.body_nodes():
            if isinstance(n, ast.Call) and last_name(n) == "translate_eff" and n.args and fn.qualname != "CheckBounds.translate_eff":
                par_ = parent(n)
                res.instances += 1
                res.nontrivial += 1
                n_thread += 1
                ok = isinstance(par_, ast.Assign) and len(par_.targets) == 1 and isinstance(par_.targets[0], ast.Name) and isinstance(n.args[0], ast.Name) and par_.targets[0].id == n.args[0].id
                res.ob(ok)
                if not ok:
                    res.add(Finding("WINALIAS", B, n.lineno, fn.qualname, "translate_eff-thread",
                                    f"`{ast.unparse(par_)[:80]}`: the translated effect is not threaded (`X = translate_eff(X, ...)`): inside the loop over the windowed arguments every translation restarts from "
                                    f"`{ast.unparse(n.args[0])}` and only the last argument's survives — out-of-bounds accesses through an earlier window argument are never checked"))
    if n_thread < 3:
        raise AnalysisError(f"WINALIAS: expected >= 3 translate_eff call sites in boundscheck.py, found {n_thread}")
    # the translation itself must follow chains of windows (while isinstance(typ, T.Window))
    t = m.func("CheckBounds.translate_eff")
    res.instances += 1
    ok = any(isinstance(n, ast.While) and "T.Window" in ast.unparse(n.test) for n in t.all_nodes())
    res.ob(ok)
    if not ok:
        res.add(Finding("WINALIAS", B, t.lineno, t.qualname, "window-chain", "translate_eff must iterate through windows of windows down to the allocated buffer"))
    kinds = {n.attr for n in t.all_nodes() if isinstance(n, ast.Attribute)}
    res.instances += 1
    ok = {"reads", "writes", "reduces"} <= kinds
    res.ob(ok)
    if not ok:
        res.add(Finding("WINALIAS", B, t.lineno, t.qualname, "three-kinds", "translate_eff must translate reads, writes and reduces"))
    res.floor = 7
    return res


def _err_guard(fnode: ast.AST, test_pat: str, err_names=("err", "err_handler")) -> bool:
    """Is there an `if <test_pat>: ... self.err(...)` (any depth; elif counts)?"""
    tp = pat.parse_expr(test_pat)
    for n in ast.walk(fnode):
        if isinstance(n, ast.If) and pat.match(tp, n.test) is not None:
            if any(isinstance(x, ast.Call) and last_name(x) in err_names for s in n.body for x in ast.walk(s)):
                return True
    return False


def rule_typedisc(ctx, prop: str) -> RuleResult:
    """The typing discipline the later analyses rely on (quasi-affine indices, positive
    literal divisors, bool conditions, ranks, argument kinds): each rejection is a raising
    test in the typechecker; the SMT encodings *assert* these facts."""
    ix = ctx.ix
    res = RuleResult("TYPEDISC")
    m = ix.module(TC)

    def need(ok, f, key, msg):
        res.instances += 1
        res.nontrivial += 1
        res.ob(ok)
        res.sample(f"{f.qualname}: {key}: {ok}")
        if not ok:
            res.add(Finding("TYPEDISC", TC, f.lineno, f.qualname, key, msg + " — the typechecker no longer rejects it, and the bounds/effect analyses assume it"))

    ce = m.func("TypeChecker.check_e")
    res.analysed.append(f"{TC}:{ce.qualname}")
    need(_err_guard(ce.node, "_M_r.type != T.int or not isinstance(_M_r, LoopIR.Const)"), ce, "div-by-literal", "the divisor of an index `/` or `%` must be an integer literal")
    need(_err_guard(ce.node, "_M_r.val <= 0"), ce, "div-positive", "the divisor of an index `/` or `%` must be positive (<= 0 rejected)")
    # non-affine product: the final else of `if lhs.type == T.int ... elif rhs.type == T.int ... else: err`
    ok = False
    for n in ast.walk(ce.node):
        if isinstance(n, ast.If) and pat.match(pat.parse_expr("_M_l.type == T.int"), n.test) is not None and len(n.orelse) == 1 and isinstance(n.orelse[0], ast.If):
            k = n.orelse[0]
            if pat.match(pat.parse_expr("_M_r.type == T.int"), k.test) is not None and any(
                isinstance(x, ast.Call) and last_name(x) == "err" for s in k.orelse if not isinstance(s, (ast.If, ast.For, ast.While, ast.Try)) for x in ast.walk(s)
            ):
                ok = True  # unconditional rejection in the final else
    need(ok, ce, "quasi-affine-product", "a product of two non-literal index expressions is non-affine")
    need(_err_guard(ce.node, "_M_o.type is not T.bool"), ce, "logical-needs-bool", "operands of and/or must be bool")
    need(_err_guard(ce.node, "not _M_o.type.is_indexable()"), ce, "compare-needs-index", "operands of comparisons must be index/size expressions")
    need(_err_guard(ce.node, "_M_e.op == '%'"), ce, "no-real-modulus", "modulus of real values is rejected")
    need(_err_guard(ce.node, "len(_M_s) != len(_M_e.idx)"), ce, "window-rank", "a window expression must give one access per dimension")
    ca = m.func("TypeChecker.check_access")
    res.analysed.append(f"{TC}:{ca.qualname}")
    need(_err_guard(ca.node, "_M_i.type != T.err and (not _M_i.type.is_indexable())"), ca, "index-type", "buffer indices must be index/size expressions")
    need(_err_guard(ca.node, "len(_M_idx) > len(_M_t.shape())"), ca, "too-many-indices", "an access cannot have more indices than the buffer has dimensions")
    need(_err_guard(ca.node, "_M_lv and len(_M_t.shape()) != len(_M_idx)"), ca, "lvalue-rank", "an assignment must index every dimension")
    cs = m.func("TypeChecker.check_single_stmt")
    res.analysed.append(f"{TC}:{cs.qualname}")
    need(_err_guard(cs.node, "_M_r.type != T.err and (not _M_r.type.is_real_scalar())"), cs, "assign-scalar", "the right-hand side of an assignment/reduction must be a real scalar")
    need(_err_guard(cs.node, "_M_c.type != T.err and _M_c.type != T.bool"), cs, "if-cond-bool", "an if condition must be bool")
    need(sum(1 for n in ast.walk(cs.node) if isinstance(n, ast.If) and pat.match(pat.parse_expr("_M_b.type != T.err and (not _M_b.type.is_indexable())"), n.test) is not None) >= 2, cs, "loop-bounds-index", "both loop bounds must be index/size expressions")
    need(any(isinstance(n, ast.Call) and last_name(n) == "check_call_types" for n in cs.all_nodes()), cs, "call-arg-kinds", "call arguments must be checked against the callee's signature")
    need(_err_guard(cs.node, "not _M_s.config.has_field(_M_s.field)"), cs, "config-field", "a configuration write must name an existing field")
    ct = m.func("check_call_types")
    res.analysed.append(f"{TC}:check_call_types")
    need(_err_guard(ct.node, "len(_M_a.type.shape()) != len(_M_s.type.shape())"), ct, "arg-rank", "a tensor argument must have the rank the callee declares")
    need(_err_guard(ct.node, "not _M_a.type.is_indexable()"), ct, "arg-index", "size/index parameters need index arguments")
    need(_err_guard(ct.node, "not _M_a.type is T.bool") or _err_guard(ct.node, "_M_a.type is not T.bool"), ct, "arg-bool", "bool parameters need bool arguments")
    init = m.func("TypeChecker.__init__")
    need(_err_guard(init.node, "_M_p.type != T.err and _M_p.type != T.bool"), init, "pred-bool", "assertions must be bool")
    need(_err_guard(init.node, "_M_a & _M_b != set()"), init, "config-write-loop-invariant", "configuration writes must not depend on loop iterators")
    res.floor = 18
    return res


def rule_optpred(ctx, prop: str) -> RuleResult:
    """Effects carry an optional predicate: `None` means "unconditional" (true).  The two
    combinators of the bounds checker must respect that reading —
        and(None, p) = p      and(p, None) = p      and(None, None) = None
        or(None, p)  = None   or(p, None)  = None   or(None, None)  = None
    Each function's return expression is evaluated symbolically for the four cases of
    (a is None, b is None)."""
    ix = ctx.ix
    res = RuleResult("OPTPRED")
    spec = {
        "_and_preds": {(True, True): "None", (True, False): "b", (False, True): "a", (False, False): "op"},
        "_or_preds": {(True, True): "None", (True, False): "None", (False, True): "None", (False, False): "op"},
    }

    def ev(e: ast.AST, env) -> str:
        """symbolic value: 'None' | 'a' | 'b' | 'op'"""
        if isinstance(e, ast.Constant) and e.value is None:
            return "None"
        if isinstance(e, ast.Name) and e.id in env["params"]:
            return "None" if env[e.id] else ("a" if e.id == env["params"][0] else "b")
        if isinstance(e, ast.IfExp):
            return ev(e.body if truth(e.test, env) else e.orelse, env)
        if isinstance(e, ast.Call):
            return "op"
        raise AnalysisError(f"OPTPRED: unrecognised expression `{ast.unparse(e)[:60]}`")

    def truth(t: ast.AST, env) -> bool:
        if isinstance(t, ast.BoolOp):
            vals = [truth(v, env) for v in t.values]
            return all(vals) if isinstance(t.op, ast.And) else any(vals)
        if isinstance(t, ast.UnaryOp) and isinstance(t.op, ast.Not):
            return not truth(t.operand, env)
        if isinstance(t, ast.Compare) and len(t.ops) == 1 and isinstance(t.comparators[0], ast.Constant) and t.comparators[0].value is None and isinstance(t.left, ast.Name):
            isnone = env[t.left.id]
            return isnone if isinstance(t.ops[0], ast.Is) else (not isnone)
        raise AnalysisError(f"OPTPRED: unrecognised test `{ast.unparse(t)[:60]}`")

    for fn, table in spec.items():
        f = ix.func(B, fn)
        res.analysed.append(f"{B}:{fn}")
        ps = f.params()
        rets = [n for n in f.body_nodes() if isinstance(n, ast.Return)]
        if len(ps) != 2 or len(rets) != 1 and not any(isinstance(n, ast.If) for n in f.body_nodes()):
            raise AnalysisError(f"OPTPRED: unexpected shape of {fn}")

        def run(stmts, env):
            for st in stmts:
                if isinstance(st, ast.Return):
                    return ev(st.value, env)
                if isinstance(st, ast.If):
                    r = run(st.body if truth(st.test, env) else st.orelse, env)
                    if r is not None:
                        return r
            return None

        for (an, bn), want in table.items():
            res.instances += 1
            res.nontrivial += 1
            env = {"params": ps, ps[0]: an, ps[1]: bn}
            got = run(f.node.body, env) or "None"
            ok = got == want
            res.ob(ok)
            res.sample(f"{fn}({'None' if an else 'p'}, {'None' if bn else 'q'}) = {got} (expected {want})")
            if not ok:
                res.add(
                    Finding("OPTPRED", B, f.lineno, fn, f"{'None' if an else 'p'},{'None' if bn else 'q'}",
                            f"{fn}({'None' if an else 'p'}, {'None' if bn else 'q'}) returns {got}, expected {want} (None = unconditional): an unconditional configuration write merged with a "
                            f"conditional one becomes conditional, the checker assumes the old value survives and accepts an out-of-bounds access")
                )
    res.floor = 8
    return res


FLOORENC_FILES = ["src/exo/frontend/boundscheck.py", "src/exo/rewrite/new_analysis_core.py"]


def rule_floorenc(ctx, prop: str) -> RuleResult:
    """Integer `/` and `%` are given to the solver through a fresh quotient q constrained by
    R*q <= L  and  L < R*(q+1)   (q = floor(L / R); L % R = L - R*q).
    The three sibling encodings (front-end bounds checker; scheduling analysis in SMT and in Z3
    form) must each state exactly these two constraints.  A strict first inequality has no
    solution when L is a multiple of R — the hypothesis set becomes inconsistent and EVERY
    obligation at such a point (in-bounds, positive size, callee assertion) is proved vacuously;
    a non-strict second one makes q ambiguous."""
    ix = ctx.ix
    res = RuleResult("FLOORENC")

    def nrm(e: ast.AST):
        if isinstance(e, ast.Call) and isinstance(e.func, ast.Attribute) and dotted(e.func.value) in ("SMT", "Z3"):
            a = e.func.attr
            if a in ("Int", "IntVal") and len(e.args) == 1:
                return nrm(e.args[0])
            if a in ("Times", "Plus", "Minus") and len(e.args) == 2:
                return ({"Times": "*", "Plus": "+", "Minus": "-"}[a], nrm(e.args[0]), nrm(e.args[1]))
            return ("call", ast.unparse(e))
        if isinstance(e, ast.BinOp) and isinstance(e.op, (ast.Mult, ast.Add, ast.Sub)):
            return ({ast.Mult: "*", ast.Add: "+", ast.Sub: "-"}[type(e.op)], nrm(e.left), nrm(e.right))
        if isinstance(e, ast.Name):
            return e.id
        if isinstance(e, ast.Constant):
            return e.value
        return ("?", ast.unparse(e))

    def rel(e: ast.AST):
        if isinstance(e, ast.Call) and isinstance(e.func, ast.Attribute) and dotted(e.func.value) == "SMT" and len(e.args) == 2 and e.func.attr in ("LT", "LE", "GT", "GE"):
            a, b = nrm(e.args[0]), nrm(e.args[1])
            return {"LT": ("<", a, b), "LE": ("<=", a, b), "GT": ("<", b, a), "GE": ("<=", b, a)}[e.func.attr]
        if isinstance(e, ast.Compare) and len(e.ops) == 1 and isinstance(e.ops[0], (ast.Lt, ast.LtE, ast.Gt, ast.GtE)):
            a, b = nrm(e.left), nrm(e.comparators[0])
            return {ast.Lt: ("<", a, b), ast.LtE: ("<=", a, b), ast.Gt: ("<", b, a), ast.GtE: ("<=", b, a)}[type(e.ops[0])]
        return None

    def mentions(t, name: str) -> bool:
        if t == name:
            return True
        return isinstance(t, tuple) and any(mentions(x, name) for x in t[1:])

    def prod(t, T):  # R*T or T*R -> R
        if isinstance(t, tuple) and t[0] == "*":
            if t[2] == T and isinstance(t[1], str):
                return t[1]
            if t[1] == T and isinstance(t[2], str):
                return t[2]
        return None

    def prod_succ(t, T):  # R*(T+1)
        if isinstance(t, tuple) and t[0] == "*":
            for r_, s_ in ((t[1], t[2]), (t[2], t[1])):
                if isinstance(r_, str) and isinstance(s_, tuple) and s_[0] == "+" and {s_[1], s_[2]} == {T, 1}:
                    return r_
        return None

    n_lo = n_hi = 0
    for file in FLOORENC_FILES:
        m = ix.module(file)
        for f in sorted((f for f in ix.all_funcs() if f.file == file), key=lambda f: f.lineno):
            tmps = set()
            for n in f.own_nodes() if hasattr(f, "own_nodes") else f.body_nodes():
                if isinstance(n, ast.Assign) and len(n.targets) == 1 and isinstance(n.targets[0], ast.Name):
                    # the fresh quotient is recognised by the Sym it is made from, not by the local's name
                    if any(isinstance(k, ast.Constant) and k.value in ("div_tmp", "mod_tmp") for k in ast.walk(n.value)):
                        tmps.add(n.targets[0].id)
            if not tmps:
                continue
            res.analysed.append(f"{file}:{f.qualname}")
            per = {}
            for n in f.body_nodes():
                if not isinstance(n, ast.Assign):
                    continue
                r = rel(n.value)
                if r is None:
                    continue
                for T in tmps:
                    if not mentions(r, T):
                        continue
                    res.instances += 1
                    res.nontrivial += 1
                    op, a, b = r
                    kind = None
                    if op == "<=" and prod(a, T) and isinstance(b, str):
                        kind = ("lo", prod(a, T), b)
                    elif op == "<" and isinstance(a, str) and prod_succ(b, T):
                        kind = ("hi", prod_succ(b, T), a)
                    ok = kind is not None
                    res.ob(ok)
                    if ok:
                        per.setdefault(T, []).append(kind)
                        if kind[0] == "lo":
                            n_lo += 1
                        else:
                            n_hi += 1
                    else:
                        res.add(Finding("FLOORENC", file, n.lineno, f.qualname, f"floor:{T}:{ast.unparse(n.value)[:50]}",
                                        f"`{ast.unparse(n)[:80]}` is neither `R*{T} <= L` nor `L < R*({T}+1)`: the quotient is not floor(L / R). With a strict first inequality the hypotheses are "
                                        f"unsatisfiable whenever L is a multiple of R and every bounds / size / assertion obligation there is proved vacuously (flags: f32[2]; flags[i / 4] with i = 8 accepted)"))
            for T, ks in per.items():
                los = [k for k in ks if k[0] == "lo"]
                his = [k for k in ks if k[0] == "hi"]
                res.instances += 1
                ok = len(los) == len(his) and len(los) >= 1 and {(k[1], k[2]) for k in los} == {(k[1], k[2]) for k in his}
                res.ob(ok)
                res.sample(f"{f.qualname}: {T}: {len(los)} x `R*q <= L`, {len(his)} x `L < R*(q+1)` over the same (R, L): {ok}")
                if not ok:
                    res.add(Finding("FLOORENC", file, f.lineno, f.qualname, f"floor-pair:{T}", f"the quotient `{T}` must be constrained from both sides over the same operands (R*q <= L and L < R*(q+1))"))
    if (n_lo < 6 or n_hi < 6) and not res.findings:
        raise AnalysisError(f"FLOORENC: expected 6 floor-quotient encodings (bounds checker / and %, analysis core / and % in SMT and Z3 form), found lo={n_lo} hi={n_hi}")
    res.floor = 12
    return res


def rule_cfguniq(ctx, prop: str) -> RuleResult:
    """Invariant of the bounds checker's effect values: the `config_writes` list of an effect holds AT
    MOST ONE entry per configuration field.  eff_concat relies on it — it turns the list into dicts
    keyed by (config, field) (`env`, `cws1`, `cws2`), where a second entry for the same field silently
    replaces the first.  So every `E.effect(...)` is built with a config_writes argument that keeps the
    invariant: empty, a single write, the list of ONE effect (possibly mapped one-to-one), or the result
    of the same-field merge.  A plain concatenation of two effects' lists (the two branches of an `if`
    that both write Cfg.a) breaks it: the else-branch write hides the then-branch write and
    `if n > 3: Cfg.a = 5 else: Cfg.a = 0; if Cfg.a == 0: pass else: x[5] = 0.0` is accepted."""
    ix = ctx.ix
    res = RuleResult("CFGUNIQ")
    m = ix.module(B)
    # mergers: functions that key both lists by (config, field) and combine the overlap
    mergers = set()
    for f in m.funcs.values():
        if not isinstance(f.node, ast.FunctionDef):
            continue
        dicts = [n for n in f.own_nodes() if isinstance(n, ast.DictComp) and isinstance(n.key, ast.Tuple) and {ast.unparse(e).split(".")[-1] for e in n.key.elts} == {"config", "field"}] if hasattr(f, "own_nodes") else \
                [n for n in f.body_nodes() if isinstance(n, ast.DictComp) and isinstance(n.key, ast.Tuple) and {ast.unparse(e).split(".")[-1] for e in n.key.elts} == {"config", "field"}]
        if len(dicts) >= 2 and any(isinstance(n, ast.Call) and last_name(n) == "intersection" for n in f.body_nodes()):
            mergers.add(f.node.name)
    if not mergers:
        raise AnalysisError("anchor vanished: no same-field merge of configuration writes (dicts keyed by (config, field) + overlap) in boundscheck.py")

    def unique_ok(e: ast.AST, f: Func, depth: int = 0) -> bool:
        if isinstance(e, ast.List):
            return len(e.elts) <= 1
        if isinstance(e, ast.Attribute) and e.attr == "config_writes":
            return True
        if isinstance(e, ast.ListComp) and len(e.generators) == 1 and not e.generators[0].ifs or isinstance(e, ast.ListComp) and len(e.generators) == 1:
            return unique_ok(e.generators[0].iter, f, depth + 1)
        if isinstance(e, ast.Call) and last_name(e) in mergers | {"merge_writes"}:
            if last_name(e) == "merge_writes":
                # local alias of a merger
                al = [k for k in f.body_nodes() if isinstance(k, ast.Assign) and dotted(k.targets[0]) == "merge_writes"]
                return bool(al) and all(isinstance(k.value, ast.Name) and k.value.id in mergers for k in al) or any(isinstance(k, ast.FunctionDef) and k.name == "merge_writes" for k in ast.walk(f.node))
            return True
        if isinstance(e, ast.Name) and depth < 3:
            vals = [k.value for k in f.body_nodes() if isinstance(k, ast.Assign) and len(k.targets) == 1 and dotted(k.targets[0]) == e.id]
            return bool(vals) and all(unique_ok(v, f, depth + 1) for v in vals)
        return False

    n = 0
    for f in sorted((f for f in ix.all_funcs() if f.file == B), key=lambda f: f.lineno):
        for k in f.body_nodes():
            if isinstance(k, ast.Call) and dotted(k.func) == "E.effect" and len(k.args) >= 5:
                n += 1
                res.instances += 1
                res.nontrivial += 1
                ok = unique_ok(k.args[4], f)
                res.ob(ok)
                res.sample(f"{f.qualname}: config_writes = `{ast.unparse(k.args[4])[:60]}` keeps one entry per field: {ok}")
                if not ok:
                    res.add(Finding("CFGUNIQ", B, k.lineno, f.qualname, f"config_writes:{ast.unparse(k.args[4])[:50]}",
                                    f"{f.qualname} builds an effect whose config_writes is `{ast.unparse(k.args[4])[:70]}`: two writes of the same field (the two branches of an `if`) end up as two entries, and "
                                    f"eff_concat's dicts keyed by (config, field) keep only the last — the value written by the other branch is forgotten and an out-of-bounds access that depends on it is accepted"))
    if n < 10:
        raise AnalysisError(f"CFGUNIQ: expected >= 10 E.effect constructions in boundscheck.py, found {n}")
    res.floor = 10
    return res
