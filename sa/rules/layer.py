"""C01/C04 structural rules: LAYER, VERDICT, VERDICTUSE, BINDERS (DESIGN §3.7, §3.8, §3.11)."""
from __future__ import annotations

import ast
from typing import Dict, List, Optional, Set, Tuple

from .. import pat
from ..dispatch import mentioned_ctors
from ..flow import always_raises
from ..index import AnalysisError, Func, dotted, last_name, norm_stmt, parent, set_parents
from ..report import Finding, RuleResult

S = "src/exo/rewrite/LoopIR_scheduling.py"
U = "src/exo/rewrite/LoopIR_unification.py"
IC = "src/exo/core/internal_cursors.py"
AS = "src/exo/API_scheduling.py"
API = "src/exo/API.py"
NE = "src/exo/rewrite/new_eff.py"
NA = "src/exo/rewrite/new_analysis_core.py"

EDITS = {"_replace", "_insert", "_delete", "_move", "_wrap"}
EDIT_FILES = {S, U, IC}
DO_CALLERS = {AS, API, S, U}


def _is_do_name(n: Optional[str]) -> bool:
    return bool(n) and n.startswith("Do") and len(n) > 2 and n[2].isupper()


def rule_layer(ctx, prop: str) -> RuleResult:
    ix = ctx.wide if ctx.tier == "thorough" else ctx.ix
    res = RuleResult("LAYER")
    n_edit = n_do = 0

    def scan(tree_funcs, fixture=False):
        nonlocal n_edit, n_do
        for f in tree_funcs:
            for n in f.body_nodes():
                if not isinstance(n, ast.Call):
                    continue
                if isinstance(n.func, ast.Attribute) and n.func.attr in EDITS:
                    n_edit += 1
                    res.instances += 1
                    ok = f.file in EDIT_FILES
                    res.ob(ok)
                    if not ok:
                        res.add(Finding("LAYER", f.file, n.lineno, f.qualname, f"edit:{n.func.attr}", f"tree edit `{n.func.attr}` outside the rewrite layer ({', '.join(sorted(EDIT_FILES))}): a schedule built this way bypasses every guarded primitive"))
                ln = last_name(n)
                if _is_do_name(ln):
                    n_do += 1
                    res.instances += 1
                    ok = f.file in DO_CALLERS
                    res.ob(ok)
                    if not ok:
                        res.add(Finding("LAYER", f.file, n.lineno, f.qualname, f"call:{ln}", f"internal rewrite {ln} called outside the API layer: it is applied without argument processing, forwarding and provenance"))
                # libraries must not rebuild IR by hand
                if f.file.startswith(("src/exo/stdlib/", "src/exo/platforms/", "src/exo/libs/")):
                    if isinstance(n.func, ast.Attribute) and n.func.attr == "update" and isinstance(n.func.value, ast.Attribute) and n.func.value.attr in ("_node", "_loopir_proc"):
                        res.instances += 1
                        res.ob(False)
                        res.add(Finding("LAYER", f.file, n.lineno, f.qualname, "node.update", "a library schedule rewrites an IR node directly"))
                    d = dotted(n.func) or ""
                    if d.startswith("LoopIR.") and d.split(".")[1][:1].isupper() and d.split(".")[1] not in ("LoopIR",) and f.file.startswith("src/exo/stdlib/"):
                        # constructing IR in stdlib is allowed only for expressions handed to primitives
                        pass

    # unit tests of the cursor layer legitimately call the edit API; user-level code
    # (apps, examples) must not
    scan(f for f in ix.all_funcs() if not f.file.startswith("tests/"))
    if n_edit < 100 or n_do < 50:
        raise AnalysisError(f"LAYER: expected >= 100 edit sites and >= 50 Do* call sites, found {n_edit}/{n_do}")
    res.nontrivial = res.instances
    res.sample(f"{n_edit} tree-edit call sites, all in {sorted(EDIT_FILES)}; {n_do} Do* call sites, all in {sorted(DO_CALLERS)}")
    # positive fixture: the matcher must see a stdlib edit
    src = "def bad(p, c):\n    ir, fwd = c._impl._replace([])\n    return DoFoo(c)\n"
    tree = ast.parse(src)
    set_parents(tree)
    hits = sum(1 for n in ast.walk(tree) if isinstance(n, ast.Call) and ((isinstance(n.func, ast.Attribute) and n.func.attr in EDITS) or _is_do_name(last_name(n))))
    if hits != 2:
        raise AnalysisError("LAYER self-check failed")
    res.floor = 150
    return res


def rule_verdict(ctx, prop: str) -> RuleResult:
    """Solver answers cannot be misread: `verify` asserts the negation and is valid iff
    unsat; `satisfy` asserts the formula and is sat iff sat; anything else raises."""
    ix = ctx.ix
    res = RuleResult("VERDICT")
    m = ix.module(NA)
    c = m.cls("SMTSolver")

    def need(ok, f, key, msg, sample=""):
        res.instances += 1
        res.nontrivial += 1
        res.ob(ok)
        if sample:
            res.sample(sample)
        if not ok:
            res.add(Finding("VERDICT", NA, f.lineno, f.qualname, key, msg))

    v = c.methods["verify"]
    res.analysed.append(f"{NA}:{v.qualname}")
    asserted = [n for n in v.body_nodes() if isinstance(n, ast.Call) and last_name(n) in ("assert_exprs", "add_assertion")]
    need(bool(asserted) and all(isinstance(a.args[0], ast.Call) and last_name(a.args[0]) == "Not" for a in asserted), v, "assert-negation",
         "verify must hand the *negated* formula to the solver (validity = unsatisfiability of the negation)", f"verify asserts {[ast.unparse(a.args[0]) for a in asserted]}")
    need(pat.has("if _M_r == Z3.sat:\n    _M_v = False\nelif _M_r == Z3.unsat:\n    _M_v = True\nelse:\n    raise _M__", v.node) or pat.has("if _M_r == Z3.unsat:\n    _M_v = True\nelif _M_r == Z3.sat:\n    _M_v = False\nelse:\n    raise _M__", v.node),
         v, "unsat->valid", "verify: valid iff the solver says unsat, invalid iff sat, anything else must raise")
    need(pat.has("_M_v = not self.z3.run_check_sat()", v.node), v, "subproc-negated", "verify (pysmt path): valid iff the negation is not satisfiable")
    rv = [n for n in v.body_nodes() if isinstance(n, ast.Return)]
    need(len(rv) == 1 and isinstance(rv[0].value, ast.Name), v, "single-return", "verify returns the computed verdict")
    s = c.methods["satisfy"]
    res.analysed.append(f"{NA}:{s.qualname}")
    asserted = [n for n in s.body_nodes() if isinstance(n, ast.Call) and last_name(n) in ("assert_exprs", "add_assertion")]
    need(bool(asserted) and all(isinstance(a.args[0], ast.Name) for a in asserted), s, "assert-formula", "satisfy must assert the formula itself")
    need(pat.has("if _M_r == Z3.sat:\n    _M_v = True\nelif _M_r == Z3.unsat:\n    _M_v = False\nelse:\n    raise _M__", s.node), s, "sat->True", "satisfy: True iff sat, False iff unsat, anything else raises")
    z = m.cls("Z3SubProc").methods["run_check_sat"]
    need(pat.has("if _M_r == z3lib.z3.sat:\n    return True\nelif _M_r == z3lib.z3.unsat:\n    return False\nelse:\n    raise _M__", z.node), z, "run_check_sat", "run_check_sat: True iff sat, False iff unsat, else raise")
    # push/pop bracket each query
    for f in (v, s):
        calls = [last_name(n) for n in sorted((n for n in f.body_nodes() if isinstance(n, ast.Call)), key=lambda n: n.lineno)]
        need("push" in calls and "pop" in calls and calls.index("push") < len(calls) - 1 - calls[::-1].index("pop"), f, "push-pop", "each query must run in its own solver frame")
    res.floor = 9
    return res


def rule_verdictuse(ctx, prop: str) -> RuleResult:
    """Every verdict obtained from the solver is acted upon with the right polarity."""
    ix = ctx.ix
    res = RuleResult("VERDICTUSE")
    m = ix.module(NE)
    n_sites = 0
    for f in m.funcs.values():
        if not isinstance(f.node, ast.FunctionDef):
            continue
        for n in f.body_nodes():
            if not (isinstance(n, ast.Call) and isinstance(n.func, ast.Attribute) and n.func.attr == "verify"):
                continue
            n_sites += 1
            res.instances += 1
            res.nontrivial += 1
            res.analysed.append(f"{NE}:{f.qualname}")
            p = parent(n)
            ok, how = False, ""
            if isinstance(p, ast.Expr):
                ok, how = False, "result discarded"
            elif isinstance(p, ast.Return):
                ok, how = True, "returned to the caller"
            elif isinstance(p, ast.UnaryOp) and isinstance(p.op, ast.Not) and isinstance(parent(p), ast.If):
                body = parent(p).body
                ok = always_raises(body) or any(isinstance(x, ast.Call) and last_name(x) in ("add", "append") for s in body for x in ast.walk(s))
                how = "if not verify(..): raise/record"
            elif isinstance(p, ast.If) and p.test is n:
                ok, how = all(isinstance(s, (ast.Expr, ast.Return)) for s in p.body) and any(isinstance(s, ast.Return) for s in p.body), "classification: if verify(..): return <bool>"
            elif isinstance(p, ast.Assign) and isinstance(p.targets[0], ast.Name):
                v = p.targets[0].id
                how = f"{v} = verify(..)"
                for k in f.body_nodes():
                    if isinstance(k, ast.If) and isinstance(k.test, ast.UnaryOp) and isinstance(k.test.op, ast.Not) and dotted(k.test.operand) == v and always_raises(k.body):
                        ok = True
                    if isinstance(k, ast.If) and dotted(k.test) == v and always_raises(k.body):
                        ok, how = False, f"`if {v}: raise` — inverted polarity"
                        break
                    if isinstance(k, ast.Return) and k.value is not None and any(isinstance(x, ast.Name) and x.id == v for x in ast.walk(k.value)):
                        ok = True
            res.ob(ok)
            res.sample(f"{f.qualname}: {how}")
            if not ok:
                res.add(Finding("VERDICTUSE", NE, n.lineno, f.qualname, norm_stmt(p)[:80], f"solver verdict not enforced ({how or 'unused'}): a failed proof does not stop the rewrite"))
        # a bare `except:` / `except Exception: pass` around a Check swallows a failed proof
    for f in list(ix.module(S).funcs.values()) + list(ix.module(U).funcs.values()):
        for n in f.body_nodes():
            if isinstance(n, ast.Try) and any(isinstance(x, ast.Call) and (last_name(x) or "").startswith("Check_") for s in n.body for x in ast.walk(s)):
                for h in n.handlers:
                    res.instances += 1
                    # accepted idioms: re-raise; record a flag; turn the failure into `return False`
                    returns_false = any(isinstance(x, ast.Return) and isinstance(x.value, ast.Constant) and x.value.value is False for s in h.body for x in ast.walk(s))
                    swallowed = not always_raises(h.body) and not returns_false and not any(isinstance(x, (ast.Assign, ast.AugAssign)) for s in h.body for x in ast.walk(s))
                    res.ob(not swallowed)
                    if swallowed:
                        res.add(Finding("VERDICTUSE", f.file, h.lineno, f.qualname, "except-swallows-check", "an exception from a Check_* is swallowed: the failed side condition is ignored"))
    if n_sites < 15:
        raise AnalysisError(f"VERDICTUSE: expected >= 15 verify() sites in new_eff.py, found {n_sites}")
    res.floor = 15
    return res


BINDER_CTORS = ("For", "Alloc", "WindowStmt")
BINDER_TABLE = [
    # file, function, required binder constructors, reason for any omission, known id
    (U, "Get_Live_Variables", ("For", "Alloc", "WindowStmt"), None),
    (S, "extract_env", ("For", "Alloc", "WindowStmt"), "D19"),
    ("src/exo/core/LoopIR.py", "Alpha_Rename.map_s", ("For", "Alloc", "WindowStmt"), None),
    ("src/exo/core/LoopIR.py", "FreeVars.do_s", ("For", "Alloc", "WindowStmt"), None),
    ("src/exo/frontend/boundscheck.py", "CheckBounds.rec_s_types", ("Alloc", "WindowStmt"), None),
]


def rule_binders(ctx, prop: str) -> RuleResult:
    ix, adts = ctx.ix, ctx.adts
    res = RuleResult("BINDERS")
    for file, qn, need, known in BINDER_TABLE:
        f = ix.func(file, qn)
        res.analysed.append(f"{file}:{qn}")
        have = {c for a, c in mentioned_ctors(f, adts) if a == "LoopIR"}
        for K in need:
            res.instances += 1
            res.nontrivial += 1
            ok = K in have
            res.ob(ok)
            res.sample(f"{qn}: handles binder LoopIR.{K}: {ok}")
            if not ok:
                res.add(
                    Finding("BINDERS", file, f.lineno, qn, f"binder:{K}",
                            f"{qn} builds a scope environment but has no case for LoopIR.{K}: variables bound by it are invisible — "
                            + ("extract_subproc then emits a sub-procedure with a free variable" if qn == "extract_env" else "uses below it resolve to the wrong declaration or to none"))
                )
    res.floor = 12
    return res
