"""INTERVAL — transfer functions of the index range analysis (C02, C08, C12).

`rewrite/range_analysis.py` bounds index expressions by integer intervals.  Its verdicts are
soundness-critical on three routes: the C emitter prints plain C `/` and `%` (truncating) instead
of the floor helpers only when the interval proves the numerator non-negative; `simplify` drops
`% c` / folds `/ c` and deletes branches on the interval's word; `CheckFoldBuffer` joins access
windows with `|`.  An interval is sound only if every transfer function is the textbook one:

    [a,b] + [c,d] = [a+c, b+d]          -[a,b] = [-b, -a]
    [a,b] * k     = [ak, bk] (k>0), [bk, ak] (k<0)
    [a,b] // k    = [a//k, b//k] (k>0)  [a,b] | [c,d] = [min(a,c), max(b,d)]
    an iterator of seq(lo, hi) lies in [lower(lo), upper(hi) - 1]
    r0 <  r1 for all values  iff  r0.hi <  r1.lo      r0 <= r1  iff  r0.hi <= r1.lo

The rule recovers, per method, which endpoint attributes (`.lo` / `.hi`) flow into the lower and
the upper slot of every returned range (through the locals assigned on the way — names are not
fixed), and compares with the table.  It decides these structural clauses, not the analysis as a
whole.  Crossing two endpoints, forgetting the swap under negation / negative factor, taking `max`
for a lower bound, an iterator bounded by `upper(hi)` instead of `upper(hi) - 1`, or a comparison of
the wrong endpoints each make the interval exclude reachable values.
"""
from __future__ import annotations

import ast
from typing import Dict, List, Optional, Set, Tuple

from ..index import AnalysisError, dotted
from ..report import Finding, RuleResult

RA = "src/exo/rewrite/range_analysis.py"


def _endpoints(e: ast.AST, env: Dict[str, Set[str]]) -> Set[str]:
    """endpoint kinds ('lo' / 'hi', prefixed by '-' under an odd number of negations) that flow into e"""
    out: Set[str] = set()

    def go(n, neg):
        if isinstance(n, ast.Attribute) and n.attr in ("lo", "hi"):
            out.add(("-" if neg else "") + n.attr)
            return
        if isinstance(n, ast.Name) and n.id in env:
            for k in env[n.id]:
                if neg:
                    k = k[1:] if k.startswith("-") else "-" + k
                out.add(k)
            return
        if isinstance(n, ast.UnaryOp) and isinstance(n.op, ast.USub):
            go(n.operand, not neg)
            return
        if isinstance(n, ast.BinOp) and isinstance(n.op, ast.Sub):
            go(n.left, neg)
            go(n.right, not neg)
            return
        for c in ast.iter_child_nodes(n):
            go(c, neg)

    go(e, False)
    return out


def _flow(fnode: ast.AST) -> Dict[str, Set[str]]:
    """name -> endpoint kinds assigned into it anywhere in the function (flow-insensitive may-set, two rounds)"""
    env: Dict[str, Set[str]] = {}
    for _ in range(3):
        for n in ast.walk(fnode):
            if isinstance(n, ast.Assign):
                pairs = []
                for t in n.targets:
                    if isinstance(t, ast.Name):
                        pairs.append((t.id, n.value))
                    elif isinstance(t, ast.Tuple) and isinstance(n.value, ast.Tuple) and len(t.elts) == len(n.value.elts):
                        pairs += [(a.id, b) for a, b in zip(t.elts, n.value.elts) if isinstance(a, ast.Name)]
                for nm, v in pairs:
                    env.setdefault(nm, set()).update(_endpoints(v, env))
    return env


def _range_returns(fnode: ast.AST):
    """(return node, lo-slot expr, hi-slot expr) for every returned IndexRange(...) / create_constant_range(...)"""
    for n in ast.walk(fnode):
        if isinstance(n, ast.Return) and isinstance(n.value, ast.Call):
            d = dotted(n.value.func) or ""
            a = n.value.args
            if d == "IndexRange" and len(a) == 3:
                yield n, a[1], a[2]
            elif d.endswith("create_constant_range") and len(a) == 2:
                yield n, a[0], a[1]


def rule_interval(ctx, prop: str) -> RuleResult:
    ix = ctx.ix
    res = RuleResult("INTERVAL")
    m = ix.module(RA)
    c_ = m.cls("IndexRange")
    if c_ is None:
        raise AnalysisError("anchor vanished: range_analysis.IndexRange")

    def bad(f, node, construct, msg):
        res.add(Finding("INTERVAL", RA, node.lineno, f.qualname, construct, msg))

    def method(name):
        f = c_.methods.get(name)
        if f is None:
            raise AnalysisError(f"anchor vanished: IndexRange.{name}")
        res.analysed.append(f"{RA}:{f.qualname}")
        return f

    # ---- monotone functions: lower slot fed by lower endpoints only, upper by upper only ------------
    for name, why in (("__add__", "[a,b] + [c,d] = [a+c, b+d]"), ("__floordiv__", "[a,b] // k = [a//k, b//k] for k > 0"), ("__or__", "join = [min lo, max hi]")):
        f = method(name)
        env = _flow(f.node)
        n_ret = 0
        for r, lo_e, hi_e in _range_returns(f.node):
            lo_k, hi_k = _endpoints(lo_e, env), _endpoints(hi_e, env)
            if not lo_k and not hi_k:
                continue  # constant range (create_unbounded-like)
            n_ret += 1
            res.instances += 1
            res.nontrivial += 1
            ok = lo_k <= {"lo"} and hi_k <= {"hi"}
            res.ob(ok)
            res.sample(f"IndexRange.{name}: lower slot <- {sorted(lo_k)}, upper slot <- {sorted(hi_k)} ({why}): {ok}")
            if not ok:
                bad(f, r, f"{name}:slots", f"IndexRange.{name} returns a range whose lower slot is fed by {sorted(lo_k)} and upper slot by {sorted(hi_k)}; sound interval arithmetic needs {why} — "
                    f"a crossed or negated endpoint makes the interval exclude reachable values, and the emitter / simplify / fold_buffer trust it")
        if n_ret == 0:
            raise AnalysisError(f"INTERVAL: no endpoint-carrying return recognised in IndexRange.{name}")
    # join: the lower bound of a union is a min, the upper a max
    f = method("__or__")
    for n in ast.walk(f.node):
        if isinstance(n, ast.Assign) and isinstance(n.value, ast.Call) and isinstance(n.value.func, ast.Name) and n.value.func.id in ("min", "max"):
            ks = _endpoints(n.value, {})
            want = "min" if ks <= {"lo"} else "max" if ks <= {"hi"} else None
            res.instances += 1
            res.nontrivial += 1
            ok = want == n.value.func.id
            res.ob(ok)
            res.sample(f"IndexRange.__or__: `{ast.unparse(n)}`: {ok}")
            if not ok:
                bad(f, n, f"__or__:{n.value.func.id}", f"the join computes `{ast.unparse(n)}`: the union of two ranges starts at the smaller lower bound and ends at the larger upper bound; "
                    f"otherwise fold_buffer / resize_dim see a narrower access window than the real one")
    # ---- negation swaps the endpoints -------------------------------------------------------------
    f = method("__neg__")
    env = _flow(f.node)
    n_ret = 0
    for r, lo_e, hi_e in _range_returns(f.node):
        n_ret += 1
        lo_k, hi_k = _endpoints(lo_e, env), _endpoints(hi_e, env)
        res.instances += 1
        res.nontrivial += 1
        ok = lo_k <= {"-hi"} and hi_k <= {"-lo"} and bool(lo_k | hi_k)
        res.ob(ok)
        res.sample(f"IndexRange.__neg__: lower <- {sorted(lo_k)}, upper <- {sorted(hi_k)}: {ok}")
        if not ok:
            bad(f, r, "__neg__:slots", f"-[a,b] must be [-b, -a]; IndexRange.__neg__ feeds the lower slot from {sorted(lo_k)} and the upper from {sorted(hi_k)} — `n - i` (via __sub__/__rsub__) gets an inverted or shifted range")
    if n_ret == 0:
        raise AnalysisError("INTERVAL: no return recognised in IndexRange.__neg__")
    # ---- derived operators: a - b = a + (-b),  c - a = (-a) + c,  c + a = a + c ------------------------------
    def signs(e, neg, out):
        if isinstance(e, ast.Name):
            out.setdefault(e.id, set()).add("-" if neg else "+")
        elif isinstance(e, ast.UnaryOp) and isinstance(e.op, ast.USub):
            signs(e.operand, not neg, out)
        elif isinstance(e, ast.BinOp) and isinstance(e.op, (ast.Add, ast.Sub)):
            signs(e.left, neg, out)
            signs(e.right, (not neg) if isinstance(e.op, ast.Sub) else neg, out)
        elif isinstance(e, ast.Call) and isinstance(e.func, ast.Attribute) and e.func.attr in ("__add__", "__radd__", "__sub__", "__rsub__", "__neg__"):
            a = e.func.attr
            recv_neg = neg if a in ("__add__", "__radd__", "__sub__") else not neg
            signs(e.func.value, recv_neg, out)
            for x in e.args:
                signs(x, (not neg) if a == "__sub__" else neg, out)
        else:
            out.setdefault("?" + ast.unparse(e)[:30], set()).add("?")
        return out

    for name, want, law in (("__sub__", ("+", "-"), "a - b = a + (-b)"), ("__rsub__", ("-", "+"), "c - a = (-a) + c"), ("__radd__", ("+", "+"), "c + a = a + c")):
        f = method(name)
        ps_ = f.params()
        rets = [n for n in f.body_nodes() if isinstance(n, ast.Return) and n.value is not None]
        if len(rets) != 1 or len(ps_) != 2:
            raise AnalysisError(f"INTERVAL: IndexRange.{name} is no longer a single-return derived operator")
        sg = signs(rets[0].value, False, {})
        if any(k.startswith("?") for k in sg):
            raise AnalysisError(f"INTERVAL: IndexRange.{name} returns `{ast.unparse(rets[0].value)}`, not a recognised combination of +, -, __add__, __sub__, __neg__")
        res.instances += 1
        res.nontrivial += 1
        ok = sg.get(ps_[0]) == {want[0]} and sg.get(ps_[1]) == {want[1]}
        res.ob(ok)
        res.sample(f"IndexRange.{name}: `{ast.unparse(rets[0].value)}` has {ps_[0]}:{sorted(sg.get(ps_[0], []))} {ps_[1]}:{sorted(sg.get(ps_[1], []))} ({law}): {ok}")
        if not ok:
            bad(f, rets[0], f"{name}:signs", f"IndexRange.{name}({ps_[0]}, {ps_[1]}) must compute {law}; `{ast.unparse(rets[0].value)}` takes {ps_[0]} with sign {sorted(sg.get(ps_[0], []))} and {ps_[1]} with sign "
                f"{sorted(sg.get(ps_[1], []))} — subtraction is not commutative: the range of `4 - i` becomes that of `i - 4`, a never-positive numerator is 'proved' non-negative and printed with C's truncating `/`")
    # ---- scaling: swap exactly when the factor is negative -------------------------------------------
    f = method("__mul__")
    env = _flow(f.node)
    cpar = [a for a in f.params() if a != "self"]
    cn = cpar[0] if cpar else "c"
    n_ret = 0
    for n in ast.walk(f.node):
        if not (isinstance(n, ast.If) and isinstance(n.test, ast.Compare) and len(n.test.ops) == 1 and ast.unparse(n.test.left) == cn
                and isinstance(n.test.comparators[0], ast.Constant) and n.test.comparators[0].value == 0):
            continue
        op = n.test.ops[0]
        if isinstance(op, (ast.Gt, ast.GtE)):
            branches = (("pos", n.body), ("neg", n.orelse))
        elif isinstance(op, (ast.Lt, ast.LtE)):
            branches = (("neg", n.body), ("pos", n.orelse))
        else:
            continue
        for sign, body in branches:
            for st in body:
                for r, lo_e, hi_e in _range_returns(st):
                    n_ret += 1
                    lo_k, hi_k = _endpoints(lo_e, env), _endpoints(hi_e, env)
                    res.instances += 1
                    res.nontrivial += 1
                    ok = (lo_k <= {"lo"} and hi_k <= {"hi"}) if sign == "pos" else (lo_k <= {"hi"} and hi_k <= {"lo"})
                    ok = ok and bool(lo_k | hi_k)
                    res.ob(ok)
                    res.sample(f"IndexRange.__mul__ ({cn} {'>' if sign == 'pos' else '<'} 0): lower <- {sorted(lo_k)}, upper <- {sorted(hi_k)}: {ok}")
                    if not ok:
                        bad(f, r, f"__mul__:{sign}", f"[a,b] * {cn} is [a{cn}, b{cn}] for {cn} > 0 and [b{cn}, a{cn}] for {cn} < 0; on the {cn} {'>' if sign == 'pos' else '<'} 0 path IndexRange.__mul__ "
                            f"feeds the lower slot from {sorted(lo_k)} and the upper from {sorted(hi_k)}")
    if n_ret < 2:
        raise AnalysisError(f"INTERVAL: IndexRange.__mul__ no longer decides the endpoint order by the sign of `{cn}` in a recognised form")
    # ---- loop iterators: [lower(lo), upper(hi) - 1] -----------------------------------------------------
    e_ = m.cls("IndexRangeEnvironment")
    f = e_.methods.get("add_loop_iter") if e_ else None
    if f is None:
        raise AnalysisError("anchor vanished: IndexRangeEnvironment.add_loop_iter")
    res.analysed.append(f"{RA}:{f.qualname}")
    ps = [a for a in f.params() if a != "self"]
    if len(ps) != 3:
        raise AnalysisError("INTERVAL: add_loop_iter(sym, lo_expr, hi_expr) signature changed")
    role: Dict[str, Tuple[str, int]] = {}  # local -> (param it was bounded from, component)
    for n in f.body_nodes():
        if isinstance(n, ast.Assign) and isinstance(n.value, ast.Call) and (dotted(n.value.func) or "").endswith("constant_bound") and n.value.args:
            src_ = ast.unparse(n.value.args[0])
            t = n.targets[0]
            if isinstance(t, ast.Tuple) and len(t.elts) == 2:
                for i, el in enumerate(t.elts):
                    if isinstance(el, ast.Name) and el.id != "_":
                        role[el.id] = (src_, i)
    store = [n for n in f.body_nodes() if isinstance(n, ast.Assign) and isinstance(n.value, ast.Tuple) and len(n.value.elts) == 2
             and all(isinstance(x, ast.Name) and x.id in role for x in n.value.elts)]
    if not store:
        raise AnalysisError("INTERVAL: add_loop_iter no longer builds (lo, hi) from two constant_bound results in a recognised form")
    for n in store:
        lo_v, hi_v = (x.id for x in n.value.elts)
        res.instances += 1
        res.nontrivial += 1
        ok = role[lo_v] == (ps[1], 0) and role[hi_v] == (ps[2], 1)
        res.ob(ok)
        res.sample(f"add_loop_iter: range = (component {role[lo_v][1]} of bound({role[lo_v][0]}), component {role[hi_v][1]} of bound({role[hi_v][0]})): {ok}")
        if not ok:
            bad(f, n, "add_loop_iter:components", f"the iterator of seq({ps[1]}, {ps[2]}) ranges over [lower bound of {ps[1]}, upper bound of {ps[2]} - 1]; add_loop_iter takes component {role[lo_v][1]} of "
                f"bound({role[lo_v][0]}) and component {role[hi_v][1]} of bound({role[hi_v][0]})")
        dec = [k for k in f.body_nodes() if isinstance(k, ast.Assign) and isinstance(k.targets[0], ast.Name) and k.targets[0].id == hi_v
               and isinstance(k.value, ast.BinOp) and isinstance(k.value.op, ast.Sub) and ast.unparse(k.value.left) == hi_v
               and isinstance(k.value.right, ast.Constant) and k.value.right.value == 1]
        res.instances += 1
        ok = len(dec) == 1
        res.ob(ok)
        res.sample(f"add_loop_iter: exclusive upper limit made inclusive (`{hi_v} = {hi_v} - 1`): {ok}")
        if not ok:
            bad(f, n, "add_loop_iter:inclusive", f"ranges are inclusive and the loop's upper limit is exclusive: `{hi_v}` must be decremented by exactly 1 once; otherwise `i < hi`-style facts "
                f"are lost or, worse, an iterator is believed smaller than it gets")
    # call sites hand over the loop's own lo and hi, in that order
    n_sites = 0
    for g in ix.all_funcs():
        for n in g.body_nodes():
            if isinstance(n, ast.Call) and isinstance(n.func, ast.Attribute) and n.func.attr == "add_loop_iter" and len(n.args) == 3:
                n_sites += 1
                genv: Dict[str, Set[str]] = {}
                for k in ast.walk(g.node):
                    if isinstance(k, ast.Assign) and isinstance(k.targets[0], ast.Name):
                        genv.setdefault(k.targets[0].id, set()).update(_endpoints(k.value, {}))
                lo_k, hi_k = _endpoints(n.args[1], genv), _endpoints(n.args[2], genv)
                res.instances += 1
                res.nontrivial += 1
                ok = lo_k == {"lo"} and hi_k == {"hi"}
                res.ob(ok)
                res.sample(f"{g.qualname}: add_loop_iter(iter, <- {sorted(lo_k)}, <- {sorted(hi_k)}): {ok}")
                if not ok:
                    res.add(Finding("INTERVAL", g.file, n.lineno, g.qualname, "add_loop_iter:args", f"`{ast.unparse(n)[:90]}` registers the iterator with a lower limit derived from {sorted(lo_k) or 'no loop field'} and "
                                    f"an upper limit derived from {sorted(hi_k) or 'no loop field'} instead of the loop's own lo and hi: the range environment then 'proves' i >= 0 (or i < n) for a loop where it is false"))
    if n_sites < 2:
        raise AnalysisError(f"INTERVAL: expected the add_loop_iter call sites of the C emitter and of simplify, found {n_sites}")
    # ---- comparisons of ranges ----------------------------------------------------------------------
    f = e_.methods.get("_check_range")
    if f is None:
        raise AnalysisError("anchor vanished: IndexRangeEnvironment._check_range")
    res.analysed.append(f"{RA}:{f.qualname}")
    ps = f.params()
    consts = {}
    for st in e_.node.body:
        if isinstance(st, ast.Assign) and isinstance(st.targets[0], ast.Name) and isinstance(st.value, ast.Constant) and isinstance(st.value.value, str):
            consts[st.targets[0].id] = st.value.value
    want_op = {"<": ast.Lt, "<=": ast.LtE}
    n_cmp = 0
    from ..index import parent as _parent

    for r in f.body_nodes():
        if not (isinstance(r, ast.Return) and isinstance(r.value, ast.Compare) and len(r.value.ops) == 1 and isinstance(r.value.ops[0], (ast.Lt, ast.LtE, ast.Gt, ast.GtE))):
            continue
        n_cmp += 1
        c = r.value
        gov = None
        p_ = r
        while p_ is not None and p_ is not f.node and gov is None:
            q_ = _parent(p_)
            if isinstance(q_, ast.If) and any(p_ is s_ for s_ in q_.body) and isinstance(q_.test, ast.Compare) and isinstance(q_.test.ops[0], ast.Eq):
                gov = consts.get((dotted(q_.test.comparators[0]) or "").split(".")[-1])
            p_ = q_
        res.instances += 1
        res.nontrivial += 1
        shape = ast.unparse(c.left) == f"{ps[0]}[1]" and ast.unparse(c.comparators[0]) == f"{ps[2]}[0]"
        ok = shape and gov in want_op and isinstance(c.ops[0], want_op[gov])
        if gov is None and shape:
            # the fall-through case of an if/elif chain: must be the remaining operator
            raise AnalysisError(f"INTERVAL: _check_range comparison `{ast.unparse(c)}` is not governed by a recognised `op == <constant>` test")
        res.ob(ok)
        res.sample(f"_check_range: under op {gov!r}: `{ast.unparse(c)}`: {ok}")
        if not ok:
            bad(f, r, f"_check_range:{gov}", f"`{ps[0]} {gov} {ps[2]}` holds for all values iff {ps[0]}[1] {gov} {ps[2]}[0] (largest of the first against smallest of the second); "
                f"_check_range returns `{ast.unparse(c)}` — the emitter's `0 <= numerator` proof and simplify's branch deletion rest on it")
    if n_cmp < 2:
        raise AnalysisError("INTERVAL: expected the `<` and `<=` cases of _check_range")
    res.floor = 15
    return res
