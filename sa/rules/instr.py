"""C14 — library instructions: INSTRLINT (format keys, widths, stride assertions) and
INSTRSPEC (lane-symbolic agreement of the C fragment with the Exo body).

Nothing is executed: the C text is parsed by a small expression grammar and
*evaluated symbolically per lane* through a table of intrinsic semantics written for
this checker (the trusted base, listed in evidence); the Exo body (parsed with ast)
gives another per-lane term; terms are compared modulo associativity/commutativity
of + and *.  Mask parameters range over the finite set their assertions admit.
"""
from __future__ import annotations

import ast
import re
from dataclasses import dataclass, field
from typing import Dict, List, Optional, Set, Tuple, Union

from ..index import AnalysisError, Func, dotted
from ..report import Finding, RuleResult

X86 = "src/exo/platforms/x86.py"

# ============================================================ instr discovery


@dataclass
class Arg:
    name: str
    kind: str  # vec | scalar | size | index
    prec: Optional[str] = None  # f32 | f64 | ui16 | R ...
    width: Optional[Union[int, str]] = None  # int or name of a size parameter
    mem: Optional[str] = None


@dataclass
class Instr:
    name: str
    c: str
    node: ast.FunctionDef
    args: List[Arg]
    lineno: int
    file: str


def _str_const(e: ast.AST) -> Optional[str]:
    if isinstance(e, ast.Constant) and isinstance(e.value, str):
        return e.value
    if isinstance(e, ast.BinOp) and isinstance(e.op, ast.Add):
        a, b = _str_const(e.left), _str_const(e.right)
        if a is not None and b is not None:
            return a + b
    if isinstance(e, ast.JoinedStr):
        return None
    return None


def parse_arg(a: ast.arg) -> Arg:
    ann = a.annotation
    mem = None
    if isinstance(ann, ast.BinOp) and isinstance(ann.op, ast.MatMult):
        mem = dotted(ann.right)
        ann = ann.left
    if isinstance(ann, ast.Name):
        if ann.id in ("size", "index"):
            return Arg(a.arg, ann.id)
        return Arg(a.arg, "scalar", ann.id, None, mem)
    # [f32][8]  == Subscript(List([Name f32]), 8) ;  f32[8] == Subscript(Name, 8)
    if isinstance(ann, ast.Subscript):
        base = ann.value
        prec = None
        if isinstance(base, ast.List) and base.elts and isinstance(base.elts[0], ast.Name):
            prec = base.elts[0].id
        elif isinstance(base, ast.Name):
            prec = base.id
        w = ann.slice
        width: Optional[Union[int, str]] = None
        if isinstance(w, ast.Constant):
            width = w.value
        elif isinstance(w, ast.Name):
            width = w.id
        elif isinstance(w, ast.Tuple):
            width = None
        return Arg(a.arg, "vec", prec, width, mem)
    return Arg(a.arg, "scalar")


def find_instrs(ix, rel: str) -> List[Instr]:
    m = ix.module(rel)
    out = []
    for f in m.funcs.values():
        if not isinstance(f.node, ast.FunctionDef) or "." in f.qualname.split("#")[0]:
            continue
        for d in f.node.decorator_list:
            if isinstance(d, ast.Call) and dotted(d.func) == "instr" and d.args:
                c = _str_const(d.args[0])
                if c is None:
                    continue
                out.append(Instr(f.name, c, f.node, [parse_arg(a) for a in f.node.args.args], f.lineno, rel))
    return out


# ================================================================= INSTRLINT

VEC_WIDTH = {("_mm256", "ps"): 8, ("_mm256", "pd"): 4, ("_mm512", "ps"): 16, ("_mm256", "epi16"): 16, ("_mm256", "epu16"): 16, ("_mm256", "si256"): None}
MEM_PREFIX = {"AVX2": "_mm256", "AVX512": "_mm512"}
PREC_LANES = {("AVX2", "f32"): 8, ("AVX2", "f64"): 4, ("AVX2", "ui16"): 16, ("AVX512", "f32"): 16}


def rule_instrlint(ctx, prop: str) -> RuleResult:
    ix = ctx.ix
    res = RuleResult("INSTRLINT")
    files = [X86]
    if ctx.tier == "thorough":
        files += [r for r in sorted(ix.modules) if r.startswith("src/exo/platforms/") and r != X86 and not r.endswith("__init__.py")]
    n = 0
    for rel in files:
        for ins in find_instrs(ix, rel):
            n += 1
            res.instances += 1
            res.nontrivial += 1
            res.analysed.append(f"{rel}:{ins.name}")
            argn = {a.name: a for a in ins.args}
            # (1) format keys
            keys = set(re.findall(r"(?<!\{)\{([A-Za-z_][A-Za-z_0-9]*)\}(?!\})", ins.c))
            for k in sorted(keys):
                base = k
                suf = None
                for s in ("_data", "_int"):
                    if k.endswith(s) and k[: -len(s)] in argn:
                        base, suf = k[: -len(s)], s
                ok = base in argn and (suf != "_int" or argn[base].kind == "vec")
                res.ob(ok)
                if not ok:
                    res.add(Finding("INSTRLINT", rel, ins.lineno, ins.name, f"key:{k}", f"the C template uses {{{k}}} but the compiler only supplies {{arg}}, {{arg_data}} (and {{arg_int}} for windows) for this signature: str.format raises KeyError at code generation"))
            if rel != X86:
                continue
            # (2) register operands: lane count agrees with memory and precision
            for a in ins.args:
                if a.kind == "vec" and a.mem in MEM_PREFIX and isinstance(a.width, int):
                    want = PREC_LANES.get((a.mem, a.prec))
                    ok = want is None or want == a.width
                    res.ob(ok)
                    if not ok:
                        res.add(Finding("INSTRLINT", rel, ins.lineno, ins.name, f"lanes:{a.name}", f"register operand {a.name}: [{a.prec}][{a.width}] @ {a.mem} but such a register holds {want} lanes"))
                    # intrinsic family matches the register file
                    pre = MEM_PREFIX[a.mem]
                    used = set(re.findall(r"\b(_mm\d*)_", ins.c))
                    ok = not used or pre in used or used <= {"_mm"}
                    res.ob(ok)
                    if not ok:
                        res.add(Finding("INSTRLINT", rel, ins.lineno, ins.name, f"family:{a.name}", f"operand {a.name} lives in {a.mem} but the template uses {sorted(used)} intrinsics"))
            # (3) every vector operand wider than 1 has a unit-stride assertion
            asserted = set()
            for s in ins.node.body:
                if isinstance(s, ast.Assert):
                    t = s.test
                    if isinstance(t, ast.Compare) and isinstance(t.left, ast.Call) and dotted(t.left.func) == "stride" and isinstance(t.comparators[0], ast.Constant) and t.comparators[0].value == 1:
                        asserted.add(dotted(t.left.args[0]))
            for a in ins.args:
                if a.kind == "vec" and a.width not in (1, None) and not (ins.name == "prefetch"):
                    ok = a.name in asserted
                    res.ob(ok)
                    if not ok:
                        res.add(Finding("INSTRLINT", rel, ins.lineno, ins.name, f"stride:{a.name}", f"vector operand {a.name} has no `assert stride({a.name}, 0) == 1`: replace() may hand a strided window to a contiguous load/store"))
            # (4) loop trip count equals the lane count of the written operand
            for s in ins.node.body:
                if isinstance(s, ast.For) and isinstance(s.iter, ast.Call) and dotted(s.iter.func) == "seq" and len(s.iter.args) == 2 and isinstance(s.iter.args[1], ast.Constant):
                    trip = s.iter.args[1].value
                    written = {dotted(t.value) for k in ast.walk(s) if isinstance(k, (ast.Assign, ast.AugAssign)) for t in ([k.target] if isinstance(k, ast.AugAssign) else k.targets) if isinstance(t, ast.Subscript)}
                    for wn in written:
                        a = argn.get(wn)
                        if a and isinstance(a.width, int):
                            ok = a.width == trip
                            res.ob(ok)
                            if not ok:
                                res.add(Finding("INSTRLINT", rel, ins.lineno, ins.name, f"trip:{wn}", f"the body writes {trip} lanes of {wn} but the operand has {a.width}"))
            # (5) hygiene of C locals declared by the fragment.  The fragment is pasted into the
            #     caller's scope with the operands' C names substituted: a local declared at brace
            #     depth 0 collides with a second expansion in the same scope; a local that is in
            #     scope where an operand is substituted captures a caller variable of that name.
            frag = ins.c.replace("{{", "\x01").replace("}}", "\x02")
            depth = 0
            decl_re = re.compile(r"\b(?:__m\d+[di]?|__mmask\d+|int|float|double|\w+_t)\s+([A-Za-z_]\w*)\s*=")
            pos = 0
            locals_seen = []
            unbraced = []
            capture = []
            for line in frag.split("\n"):
                # brace depth at the start of this line counts literal braces only
                for mm in decl_re.finditer(line):
                    before = line[: mm.start()]
                    d_here = depth + before.count("\x01") - before.count("\x02")
                    nm = mm.group(1)
                    locals_seen.append(nm)
                    if d_here == 0:
                        unbraced.append(nm)
                depth += line.count("\x01") - line.count("\x02")
                if locals_seen and re.search(r"(?<!\{)\{[A-Za-z_]\w*\}(?!\})", line):
                    for nm in locals_seen:
                        if nm not in capture:
                            capture.append(nm)
            # (6) a size parameter used as a shift count (`1 << {N}` builds the lane mask) must be bounded
            #     by the assertions: `1` is an int, a shift by 32 or more is undefined (x86 wraps the
            #     count: N = 32 gives the mask 0 where the body selects every lane)
            for mm in re.finditer(r"1\s*<<\s*\{([A-Za-z_]\w*)\}", ins.c):
                sz = mm.group(1)
                if sz in argn and argn[sz].kind == "size":
                    bounded = False
                    for st in ins.node.body:
                        if isinstance(st, ast.Assert) and isinstance(st.test, ast.Compare) and len(st.test.ops) == 1:
                            l, r, op = st.test.left, st.test.comparators[0], st.test.ops[0]
                            if isinstance(l, ast.Name) and l.id == sz and isinstance(r, ast.Constant) and isinstance(op, (ast.Lt, ast.LtE)) and r.value <= 31:
                                bounded = True
                            if isinstance(r, ast.Name) and r.id == sz and isinstance(l, ast.Constant) and isinstance(op, (ast.Gt, ast.GtE)) and l.value <= 31:
                                bounded = True
                    res.ob(bounded)
                    if not bounded:
                        res.add(Finding("INSTRLINT", rel, ins.lineno, ins.name, f"shift-unbounded:{sz}",
                                        f"the template computes `1 << {{{sz}}}` but no assertion bounds {sz}: for {sz} >= 32 the shift is undefined in C (x86: {sz} = 32 gives mask 0, "
                                        f"no lane is processed) while the Exo body processes every lane i < {sz}"))
            if unbraced:
                res.ob(False)
                res.add(Finding("INSTRLINT", rel, ins.lineno, ins.name, "decl-unbraced:" + ",".join(sorted(set(unbraced))),
                                f"the C template declares {sorted(set(unbraced))} outside a {{ }} block: two uses of {ins.name} in one scope redeclare the variable and the generated C does not compile"))
            if capture:
                res.ob(False)
                res.add(Finding("INSTRLINT", rel, ins.lineno, ins.name, "capture:" + ",".join(sorted(set(capture))),
                                f"the C template declares the locals {sorted(set(capture))} and substitutes operand names while they are in scope: a caller variable with one of these names "
                                f"(e.g. a register called `{sorted(set(capture))[0]}`) is captured by the local — `__m256 tmp = _mm256_hadd_ps(tmp, tmp)` reads an uninitialised variable"))
    if n < 60:
        raise AnalysisError(f"INSTRLINT: expected >= 60 x86 instructions, found {n}")
    res.floor = 60
    return res


# ================================================================= INSTRSPEC
# ---- terms
# ('lane', buf, i) initial value of buf[i];  ('const', v);  ('op', name, args...)
# sums/products are flattened and sorted (AC-normal form).


def _flat(op, args):
    out = []
    for a in args:
        if isinstance(a, tuple) and a and a[0] == "op" and a[1] == op:
            out.extend(a[2:])
        else:
            out.append(a)
    return out


def mk(op, *args):
    if op in ("add", "mul"):
        xs = _flat(op, args)
        if op == "add":
            xs = [x for x in xs if x != ("const", 0.0)] or [("const", 0.0)]
        if op == "mul":
            if ("const", 0.0) in xs:
                return ("const", 0.0)
            neg = sum(1 for x in xs if x == ("const", -1.0))
            xs = [x for x in xs if x not in (("const", 1.0), ("const", -1.0))]
            if not xs:
                xs = [("const", 1.0)]
            if neg % 2:
                inner = xs[0] if len(xs) == 1 else ("op", "mul") + tuple(sorted(xs, key=repr))
                return ("op", "neg", inner)
        if len(xs) == 1:
            return xs[0]
        return ("op", op) + tuple(sorted(xs, key=repr))
    if op == "neg":
        (a,) = args
        if isinstance(a, tuple) and a[:2] == ("op", "neg"):
            return a[2]
        if a[0] == "const":
            return ("const", -a[1])
        return ("op", "neg", a)
    if op == "sub":
        a, b = args
        return mk("add", a, mk("neg", b))
    return ("op", op) + tuple(args)


def show(t) -> str:
    if t[0] == "lane":
        return f"{t[1]}[{t[2]}]"
    if t[0] == "const":
        return str(t[1])
    if t[0] == "undef":
        return "undef"
    return f"{t[1]}({', '.join(show(x) for x in t[2:])})"


# ---- C fragment: tokenizer + parser
_TOK = re.compile(r"\s*(?:(\$[A-Za-z_][A-Za-z_0-9]*)|([A-Za-z_][A-Za-z_0-9]*)|(\d+\.\d*f?|\d+f?|\.\d+f?)|(<<|>>|\+=|[{}()\[\],;=&*+\-<>.]))")


def ctokens(s: str) -> List[str]:
    out, pos = [], 0
    while pos < len(s):
        m = _TOK.match(s, pos)
        if not m:
            if s[pos:].strip() == "":
                break
            raise ValueError(f"C lex error at {s[pos:pos+20]!r}")
        pos = m.end()
        out.append(m.group(1) or m.group(2) or m.group(3) or m.group(4))
    return out


class CParser:
    """statements: [type] name = expr ; | lvalue = expr ; | *p += expr ; | call ;  (inside optional braces)"""

    TYPES = {"__m256", "__m256d", "__m256i", "__m512", "__m128", "const", "float", "double"}

    def __init__(self, toks: List[str]):
        self.t = toks
        self.i = 0

    def peek(self, k=0):
        return self.t[self.i + k] if self.i + k < len(self.t) else None

    def eat(self, x=None):
        tok = self.peek()
        if x is not None and tok != x:
            raise ValueError(f"C parse error: expected {x!r}, got {tok!r} at {self.t[self.i:self.i+6]}")
        self.i += 1
        return tok

    def program(self):
        stmts = []
        while self.peek() is not None:
            if self.peek() in ("{", "}"):
                self.eat()
                continue
            if self.peek() == ";":
                self.eat()
                continue
            stmts.append(self.stmt())
        return stmts

    def stmt(self):
        # declaration
        if self.peek() in self.TYPES:
            while self.peek() in self.TYPES:
                self.eat()
            name = self.eat()
            self.eat("=")
            if self.peek() == "{":
                e = self.braced()
            else:
                e = self.expr()
            self.eat(";")
            return ("decl", name, e)
        if self.peek() == "*":
            self.eat()
            tgt = self.unary()
            op = self.eat()
            e = self.expr()
            self.eat(";")
            return ("deref_" + ("add" if op == "+=" else "set"), tgt, e)
        e = self.expr()
        if self.peek() == "=":
            self.eat()
            rhs = self.expr()
            self.eat(";")
            return ("assign", e, rhs)
        self.eat(";")
        return ("expr", e)

    def braced(self):
        self.eat("{")
        xs = []
        while self.peek() != "}":
            xs.append(self.expr())
            if self.peek() == ",":
                self.eat()
        self.eat("}")
        return ("init", xs)

    def expr(self):
        return self.shift()

    def shift(self):
        e = self.additive()
        while self.peek() in ("<<", ">>"):
            op = self.eat()
            r = self.additive()
            e = ("bin", op, e, r)
        return e

    def additive(self):
        e = self.unary()
        while self.peek() in ("+", "-"):
            op = self.eat()
            r = self.unary()
            e = ("bin", op, e, r)
        return e

    def unary(self):
        tok = self.peek()
        if tok == "&":
            self.eat()
            return ("addr", self.unary())
        if tok == "-":
            self.eat()
            return ("neg", self.unary())
        if tok == "(":
            # cast or parenthesised
            j = self.i + 1
            if self.t[j] in self.TYPES:
                depth = 0
                while True:
                    if self.t[j] == "(":
                        depth += 1
                    if self.t[j] == ")":
                        if depth == 0:
                            break
                        depth -= 1
                    j += 1
                ty = self.t[self.i + 1 : j]
                self.i = j + 1
                if self.peek() == "{":
                    b = self.braced()
                    return ("cast", ty, b)
                return ("cast", ty, self.unary())
            self.eat("(")
            e = self.expr()
            self.eat(")")
            return e
        return self.postfix()

    def postfix(self):
        tok = self.eat()
        if tok is None:
            raise ValueError("unexpected end of C fragment")
        if re.match(r"^[\d.]", tok):
            return ("num", float(tok.rstrip("f")))
        if tok.startswith("$"):
            return ("op", tok[1:])
        if self.peek() == "(":
            self.eat("(")
            args = []
            while self.peek() != ")":
                args.append(self.expr())
                if self.peek() == ",":
                    self.eat()
            self.eat(")")
            return ("call", tok, args)
        return ("var", tok)


# ---- lane-symbolic evaluation


# outcomes (of comparing a with b) on which each _mm*_cmp predicate is true; the signalling /
# quiet distinction does not change the result
_O = frozenset
CMP_PRED = {}
for _names, _outs in (
    (("_CMP_EQ_OQ", "_CMP_EQ_OS"), {"eq"}), (("_CMP_EQ_UQ", "_CMP_EQ_US"), {"eq", "un"}),
    (("_CMP_LT_OS", "_CMP_LT_OQ"), {"lt"}), (("_CMP_LE_OS", "_CMP_LE_OQ"), {"lt", "eq"}),
    (("_CMP_GT_OS", "_CMP_GT_OQ"), {"gt"}), (("_CMP_GE_OS", "_CMP_GE_OQ"), {"gt", "eq"}),
    (("_CMP_NEQ_UQ", "_CMP_NEQ_US"), {"lt", "gt", "un"}), (("_CMP_NEQ_OQ", "_CMP_NEQ_OS"), {"lt", "gt"}),
    (("_CMP_NLT_US", "_CMP_NLT_UQ"), {"eq", "gt", "un"}), (("_CMP_NLE_US", "_CMP_NLE_UQ"), {"gt", "un"}),
    (("_CMP_NGT_US", "_CMP_NGT_UQ"), {"lt", "eq", "un"}), (("_CMP_NGE_US", "_CMP_NGE_UQ"), {"lt", "un"}),
    (("_CMP_ORD_Q", "_CMP_ORD_S"), {"lt", "eq", "gt"}), (("_CMP_UNORD_Q", "_CMP_UNORD_S"), {"un"}),
    (("_CMP_TRUE_UQ", "_CMP_TRUE_US"), {"lt", "eq", "gt", "un"}), (("_CMP_FALSE_OQ", "_CMP_FALSE_OS"), set()),
):
    for _n in _names:
        CMP_PRED[_n] = _O(_outs)


class Unanalysed(Exception):
    pass


class IllTyped(Exception):
    """The C fragment cannot mean what the body says whatever the values are."""


class CEval:
    def __init__(self, ins: Instr, params: Dict[str, int]):
        self.ins = ins
        self.params = params
        self.args = {a.name: a for a in ins.args}
        self.env: Dict[str, object] = {}
        self.state: Dict[Tuple[str, int], tuple] = {}  # written lanes
        self.used_intrinsics: Set[str] = set()

    def width(self, name) -> int:
        a = self.args[name]
        w = a.width
        if isinstance(w, str):
            w = self.params[w]
        return int(w) if w is not None else 1

    def rd(self, name, i):
        return self.state.get((name, i), ("lane", name, i))

    def vec_of(self, name, w=None):
        n = w or self.width(name)
        return ("vec", [self.rd(name, i) for i in range(n)])

    def store(self, name, vec, mask=None):
        lanes = vec[1]
        for i, v in enumerate(lanes):
            if mask is None or mask[i]:
                self.state[(name, i)] = v

    # -- expression evaluation: returns ('vec', lanes) | ('ptr', name) | ('int', n) | ('imask', [bool...]) | ('scalar', term)
    def ev(self, e):
        k = e[0]
        if k == "num":
            return ("int", int(e[1])) if float(e[1]).is_integer() and False else ("scalar", ("const", float(e[1])))
        if k == "op":
            nm = e[1]
            base = nm[:-5] if nm.endswith("_data") else nm
            if base in self.params and not nm.endswith("_data"):
                return ("int", self.params[base])
            a = self.args.get(base)
            if a is None:
                raise Unanalysed(f"unknown operand {nm}")
            if a.kind in ("size", "index"):
                return ("int", self.params[base])
            if nm.endswith("_data"):
                if a.kind == "vec" and a.mem in MEM_PREFIX:
                    return ("reg", base)
                return ("mem", base)  # C lvalue `buf[0]`; & of it is the pointer
            if a.kind == "scalar":
                return ("ptr", base)  # by-reference scalar argument
            return ("mem", base)
        if k == "var":
            if e[1] in self.env:
                return self.env[e[1]]
            if e[1].startswith("_CMP_"):
                return ("pred", e[1])
            raise Unanalysed(f"unknown C variable {e[1]}")
        if k == "addr":
            v = self.ev(e[1])
            if v[0] in ("mem", "reg"):
                return ("ptr", v[1])
            raise Unanalysed("address of non-operand")
        if k == "cast":
            if e[2][0] == "init":
                xs = [self.ev(x) for x in e[2][1]]
                ty = "".join(e[1])
                n = 16 if "512" in ty else 8
                vals = [self._scalar(x) for x in xs]
                vals = vals + [("const", 0.0)] * (n - len(vals))
                return ("vec", vals)
            return self.ev(e[2])
        if k == "init":
            return ("vec", [self._scalar(self.ev(x)) for x in e[1]])
        if k == "neg":
            v = self.ev(e[1])
            return ("scalar", mk("neg", self._scalar(v)))
        if k == "bin":
            a, b = self.ev(e[2]), self.ev(e[3])
            ia, ib = self._int(a), self._int(b)
            if e[1] == "<<":
                return ("int", ia << ib)
            if e[1] == ">>":
                return ("int", ia >> ib)
            if e[1] == "+":
                return ("int", ia + ib)
            if e[1] == "-":
                return ("int", ia - ib)
        if k == "call":
            return self.call(e[1], [self.ev(a) for a in e[2]])
        raise Unanalysed(f"C construct {k}")

    def _int(self, v) -> int:
        if v[0] == "int":
            return v[1]
        if v[0] == "scalar" and v[1][0] == "const":
            return int(v[1][1])
        raise Unanalysed("non-constant integer expression")

    def _scalar(self, v):
        if v[0] == "scalar":
            return v[1]
        if v[0] == "int":
            return ("const", float(v[1]))
        raise Unanalysed("scalar expected")

    def _vec(self, v, n=None):
        if v[0] == "vec":
            return v[1]
        if v[0] == "reg":
            return self.vec_of(v[1])[1]
        if v[0] == "mem":
            raise IllTyped(f"`{v[1]}` is a scalar memory operand ({{{v[1]}_data}} expands to the lvalue {v[1]}[0]) but is used where a vector register is required")
        raise Unanalysed(f"vector expected, got {v[0]}")

    def _ptr(self, v):
        if v[0] == "ptr":
            return v[1]
        raise Unanalysed("pointer expected")

    def _kmask(self, v, n):
        k = self._int(v)
        return [bool((k >> i) & 1) for i in range(n)]

    def call(self, f: str, a):
        self.used_intrinsics.add(f)
        m = re.match(r"^_mm(256|512)?_(.*)$", f)
        if not m:
            raise Unanalysed(f"function {f} not in the intrinsic table")
        bits, op = m.group(1), m.group(2)

        def lanes_for(suffix):
            if bits == "512":
                return 16
            return {"ps": 8, "pd": 4, "ss": 8, "sd": 4, "epi16": 16, "epu16": 16, "epi32": 8, "epi8": 32, "si256": None}.get(suffix, 8)

        def ew(opname, *vs):
            vs = [self._vec(v) for v in vs]
            return ("vec", [mk(opname, *[v[i] for v in vs]) for i in range(len(vs[0]))])

        suf = op.rsplit("_", 1)[-1]
        n = lanes_for(suf)
        if op in ("setzero_ps", "setzero_pd"):
            return ("vec", [("const", 0.0)] * n)
        if op in ("loadu_ps", "loadu_pd", "loadu_si256"):
            p = self._ptr(a[0])
            w = self.width(p)
            if n is None:
                n = w
            return ("vec", [self.rd(p, i) if i < w else ("undef",) for i in range(n)])
        if op in ("storeu_ps", "storeu_pd", "storeu_si256"):
            p = self._ptr(a[0])
            v = self._vec(a[1])
            self.store(p, ("vec", v))
            return ("void",)
        if op in ("add_ps", "add_pd"):
            return ew("add", a[0], a[1])
        if op in ("sub_ps", "sub_pd"):
            return ew("sub", a[0], a[1])
        if op in ("mul_ps", "mul_pd"):
            return ew("mul", a[0], a[1])
        if op in ("div_ps", "div_pd"):
            return ew("div", a[0], a[1])
        if op in ("max_ps", "max_pd"):
            return ew("max", a[0], a[1])
        if op in ("xor_ps",):
            x, y = self._vec(a[0]), self._vec(a[1])
            if x == y:
                return ("vec", [("const", 0.0)] * len(x))
            raise Unanalysed("xor of different operands")
        if op in ("fmadd_ps", "fmadd_pd"):
            x, y, z = (self._vec(v) for v in a)
            return ("vec", [mk("add", mk("mul", x[i], y[i]), z[i]) for i in range(len(x))])
        if op in ("set1_ps", "set1_pd"):
            v = a[0]
            if v[0] == "ptr":
                # `_mm512_set1_ps({src_data})` where src is a 1-element buffer: {src_data} is the lvalue src[0]
                s = self.rd(v[1], 0)
            elif v[0] == "mem":
                s = self.rd(v[1], 0)
            else:
                s = self._scalar(v)
            return ("vec", [s] * n)
        if op in ("broadcast_ss", "broadcast_sd"):
            p = self._ptr(a[0]) if a[0][0] == "ptr" else (a[0][1] if a[0][0] == "mem" else None)
            if p is None:
                raise Unanalysed("broadcast of non-pointer")
            return ("vec", [self.rd(p, 0)] * n)
        if op == "adds_epu16":
            return ew("sat_add_u16", a[0], a[1])
        if op == "mask_add_ps":
            src, x, y = self._vec(a[0]), self._vec(a[2]), self._vec(a[3])
            k = self._kmask(a[1], len(src))
            return ("vec", [mk("add", x[i], y[i]) if k[i] else src[i] for i in range(len(src))])
        if op == "maskz_loadu_ps":
            p = self._ptr(a[1])
            k = self._kmask(a[0], n)
            return ("vec", [self.rd(p, i) if k[i] else ("const", 0.0) for i in range(n)])
        if op == "mask_storeu_ps":
            p = self._ptr(a[0])
            v = self._vec(a[2])
            self.store(p, ("vec", v), self._kmask(a[1], len(v)))
            return ("void",)
        if op == "mask_fmadd_ps":
            x, y, z = self._vec(a[0]), self._vec(a[2]), self._vec(a[3])
            k = self._kmask(a[1], len(x))
            return ("vec", [mk("add", mk("mul", x[i], y[i]), z[i]) if k[i] else x[i] for i in range(len(x))])
        if op == "mask3_fmadd_ps":
            x, y, z = self._vec(a[0]), self._vec(a[1]), self._vec(a[2])
            k = self._kmask(a[3], len(x))
            return ("vec", [mk("add", mk("mul", x[i], y[i]), z[i]) if k[i] else z[i] for i in range(len(x))])
        # ---- integer mask construction (AVX2): lanes are python ints (32-bit)
        if op == "set1_epi8":
            b = self._int(a[0]) & 0xFF
            return ("ivec", [b | (b << 8) | (b << 16) | (b << 24)] * 8)
        if op == "set1_epi32":
            return ("ivec", [self._int(a[0]) & 0xFFFFFFFF] * 8)
        if op == "set_epi32":
            vals = [self._int(x) for x in a]
            return ("ivec", list(reversed(vals)))
        if op == "cmpgt_epi32":
            x, y = a[0], a[1]
            if x[0] != "ivec" or y[0] != "ivec":
                raise Unanalysed("cmpgt on symbolic lanes")
            sx = lambda v: v - (1 << 32) if v & 0x80000000 else v
            return ("ivec", [0xFFFFFFFF if sx(p) > sx(q) else 0 for p, q in zip(x[1], y[1])])
        if op == "castsi256_ps":
            return a[0]
        if op in ("maskload_ps",):
            p = self._ptr(a[0])
            mk_ = a[1]
            if mk_[0] != "ivec":
                raise Unanalysed("symbolic mask")
            return ("vec", [self.rd(p, i) if (mk_[1][i] & 0x80000000) else ("const", 0.0) for i in range(8)])
        if op in ("maskstore_ps",):
            p = self._ptr(a[0])
            mk_ = a[1]
            v = self._vec(a[2])
            if mk_[0] != "ivec":
                raise Unanalysed("symbolic mask")
            self.store(p, ("vec", v), [bool(mk_[1][i] & 0x80000000) for i in range(8)])
            return ("void",)
        if op in ("blendv_ps", "blendv_pd"):
            x, y = self._vec(a[0]), self._vec(a[1])
            msk = a[2]
            if msk[0] == "ivec":
                return ("vec", [y[i] if (msk[1][i] & 0x80000000) else x[i] for i in range(len(x))])
            if msk[0] == "cmpvec":
                # one result per outcome of the floating-point comparison: less / equal / greater / unordered (NaN)
                return ("vec", [mk("case4", msk[1][i][0], msk[1][i][1], *[(y[i] if o in msk[1][i][2] else x[i]) for o in ("lt", "eq", "gt", "un")]) for i in range(len(x))])
            raise Unanalysed("blend mask")
        if op in ("cmp_ps", "cmp_pd"):
            x, y = self._vec(a[0]), self._vec(a[1])
            if a[2][0] != "pred" or a[2][1] not in CMP_PRED:
                raise Unanalysed("comparison predicate")
            return ("cmpvec", [(x[i], y[i], CMP_PRED[a[2][1]]) for i in range(len(x))])
        if op == "extractf128_ps":
            v = self._vec(a[0])
            h = self._int(a[1])
            return ("vec", v[4 * h : 4 * h + 4])
        if op == "extractf128_pd":
            v = self._vec(a[0])
            h = self._int(a[1])
            return ("vec", v[2 * h : 2 * h + 2])
        if op == "cvtps_pd":
            return ("vec", self._vec(a[0])[:4])
        if op in ("castps128_ps256",):
            v = self._vec(a[0])
            return ("vec", v + [("undef",)] * 4)
        if op in ("castpd128_pd256",):
            v = self._vec(a[0])
            return ("vec", v + [("undef",)] * 2)
        if op == "hadd_ps":
            x, y = self._vec(a[0]), self._vec(a[1])
            return ("vec", [mk("add", x[0], x[1]), mk("add", x[2], x[3]), mk("add", y[0], y[1]), mk("add", y[2], y[3]),
                            mk("add", x[4], x[5]), mk("add", x[6], x[7]), mk("add", y[4], y[5]), mk("add", y[6], y[7])])
        if op == "hadd_pd":
            x, y = self._vec(a[0]), self._vec(a[1])
            return ("vec", [mk("add", x[0], x[1]), mk("add", y[0], y[1]), mk("add", x[2], x[3]), mk("add", y[2], y[3])])
        if op in ("cvtss_f32", "cvtsd_f64"):
            return ("scalar", self._vec(a[0])[0])
        if f == "_mm_prefetch":
            return ("void",)
        raise Unanalysed(f"intrinsic {f} not in the table")

    def run(self, prog):
        for st in prog:
            k = st[0]
            if k == "decl":
                self.env[st[1]] = self.ev(st[2])
            elif k == "assign":
                lhs = st[1]
                v = self.ev(st[2])
                if lhs[0] == "op":
                    tgt = self.ev(lhs)
                    if tgt[0] == "reg":
                        if v[0] == "reg":
                            v = self.vec_of(v[1])
                        self.store(tgt[1], ("vec", self._vec(v)))
                    else:
                        raise Unanalysed("assignment to memory operand")
                elif lhs[0] == "var":
                    self.env[lhs[1]] = v
                else:
                    raise Unanalysed("assignment target")
            elif k in ("deref_add", "deref_set"):
                p = self._ptr(self.ev(st[1]))
                s = self._scalar(self.ev(st[2]))
                self.state[(p, 0)] = mk("add", self.rd(p, 0), s) if k == "deref_add" else s
            elif k == "expr":
                self.ev(st[1])


# ---- Exo body evaluation


class BodyEval:
    def __init__(self, ins: Instr, params: Dict[str, int]):
        self.ins = ins
        self.params = params
        self.state: Dict[Tuple[str, int], tuple] = {}
        self.args = {a.name: a for a in ins.args}

    def rd(self, name, i):
        return self.state.get((name, i), ("lane", name, i))

    def idx(self, e, env) -> int:
        if isinstance(e, ast.Constant):
            return int(e.value)
        if isinstance(e, ast.Name):
            if e.id in env:
                return env[e.id]
            return self.params[e.id]
        if isinstance(e, ast.BinOp):
            a, b = self.idx(e.left, env), self.idx(e.right, env)
            return {ast.Add: a + b, ast.Sub: a - b, ast.Mult: a * b}[type(e.op)]
        raise Unanalysed("index expression")

    def cond(self, e, env) -> bool:
        if isinstance(e, ast.Compare) and len(e.ops) == 1:
            a, b = self.idx(e.left, env), self.idx(e.comparators[0], env)
            return {ast.Lt: a < b, ast.LtE: a <= b, ast.Gt: a > b, ast.GtE: a >= b, ast.Eq: a == b}[type(e.ops[0])]
        raise Unanalysed("guard expression")

    def val(self, e, env):
        if isinstance(e, ast.Constant):
            return ("const", float(e.value))
        if isinstance(e, ast.Name):
            if e.id in self.args and self.args[e.id].kind == "scalar":
                return self.rd(e.id, 0)
            raise Unanalysed(f"name {e.id} in value position")
        if isinstance(e, ast.Subscript):
            return self.rd(dotted(e.value), self.idx(e.slice, env))
        if isinstance(e, ast.UnaryOp) and isinstance(e.op, ast.USub):
            return mk("neg", self.val(e.operand, env))
        if isinstance(e, ast.BinOp):
            a, b = self.val(e.left, env), self.val(e.right, env)
            op = {ast.Add: "add", ast.Sub: "sub", ast.Mult: "mul", ast.Div: "div"}.get(type(e.op))
            if op is None:
                raise Unanalysed("operator")
            return mk(op, a, b)
        if isinstance(e, ast.Call):
            fn = dotted(e.func)
            xs = [self.val(a, env) for a in e.args]
            if fn == "relu":
                return mk("max", xs[0], ("const", 0.0))
            if fn == "select":
                # select(x, v, y, z) = y if x < v else z  (z also when x or v is NaN)
                return mk("case4", xs[0], xs[1], xs[2], xs[3], xs[3], xs[3])
            raise Unanalysed(f"extern {fn}")
        raise Unanalysed("value expression")

    def stmts(self, body, env):
        for s in body:
            if isinstance(s, (ast.Assert, ast.Pass)) or (isinstance(s, ast.Expr) and isinstance(s.value, ast.Constant)):
                continue
            if isinstance(s, ast.For):
                lo, hi = (self.idx(x, env) for x in s.iter.args)
                for i in range(lo, hi):
                    self.stmts(s.body, {**env, s.target.id: i})
            elif isinstance(s, ast.If):
                if self.cond(s.test, env):
                    self.stmts(s.body, env)
                else:
                    self.stmts(s.orelse, env)
            elif isinstance(s, ast.Assign):
                t = s.targets[0]
                v = self.val(s.value, env)
                self.wr(t, v, env, False)
            elif isinstance(s, ast.AugAssign) and isinstance(s.op, ast.Add):
                self.wr(s.target, self.val(s.value, env), env, True)
            else:
                raise Unanalysed("statement form")

    def wr(self, t, v, env, acc):
        if isinstance(t, ast.Subscript):
            key = (dotted(t.value), self.idx(t.slice, env))
        elif isinstance(t, ast.Name):
            key = (t.id, 0)
        else:
            raise Unanalysed("write target")
        self.state[key] = mk("add", self.rd(*key), v) if acc else v


def param_space(ins: Instr) -> List[Dict[str, int]]:
    """All admissible values of size parameters (from the assertions; sizes are >= 1)."""
    sizes = [a.name for a in ins.args if a.kind == "size"]
    if not sizes:
        return [{}]
    lo = {s: 1 for s in sizes}
    hi = {s: None for s in sizes}
    for st in ins.node.body:
        if isinstance(st, ast.Assert) and isinstance(st.test, ast.Compare) and len(st.test.ops) == 1:
            l, r, op = st.test.left, st.test.comparators[0], st.test.ops[0]
            if isinstance(l, ast.Name) and l.id in sizes and isinstance(r, ast.Constant):
                v = r.value
                if isinstance(op, ast.LtE):
                    hi[l.id] = v if hi[l.id] is None else min(hi[l.id], v)
                elif isinstance(op, ast.Lt):
                    hi[l.id] = v - 1 if hi[l.id] is None else min(hi[l.id], v - 1)
                elif isinstance(op, ast.GtE):
                    lo[l.id] = max(lo[l.id], v)
                elif isinstance(op, ast.Gt):
                    lo[l.id] = max(lo[l.id], v + 1)
            if isinstance(r, ast.Name) and r.id in sizes and isinstance(l, ast.Constant):
                v = l.value
                if isinstance(op, ast.LtE):
                    lo[r.id] = max(lo[r.id], v)
                elif isinstance(op, ast.Lt):
                    lo[r.id] = max(lo[r.id], v + 1)
    # a size that is the extent of an operand is also bounded by the widest register
    for s in sizes:
        if hi[s] is None:
            hi[s] = 16
    out = [{}]
    for s in sizes:
        out = [{**d, s: v} for d in out for v in range(lo[s], hi[s] + 1)]
    return out


def ctext(ins: Instr) -> str:
    """The template with placeholders turned into `$name` tokens and `{{`/`}}` unescaped."""
    s = ins.c.replace("{{", "\x01").replace("}}", "\x02")
    s = re.sub(r"\{([A-Za-z_][A-Za-z_0-9]*)\}", r" $\1 ", s)
    return s.replace("\x01", "{").replace("\x02", "}")


# (instruction, kind) -> known id : recorded rather than repaired
def compare_instr(ins: Instr) -> Tuple[str, str, List[str]]:
    """-> (verdict, detail, intrinsics)   verdict in agree | differ | unanalysed"""
    used: Set[str] = set()
    try:
        prog = CParser(ctokens(ctext(ins))).program()
    except (ValueError, IndexError) as e:
        return "unanalysed", f"C fragment outside the grammar: {e}", []
    diffs = []
    try:
        for params in param_space(ins):
            ce = CEval(ins, params)
            ce.run(prog)
            used |= ce.used_intrinsics
            be = BodyEval(ins, params)
            be.stmts(ins.node.body, {})
            keys = set(ce.state) | set(be.state)
            for k in sorted(keys):
                cv = ce.state.get(k, ("lane",) + k)
                bv = be.state.get(k, ("lane",) + k)
                if cv != bv:
                    diffs.append((params, k, bv, cv))
                    break
            if len(diffs) >= 3:
                break
    except IllTyped as e:
        return "differ", f"ill-typed: {e}", sorted(used)
    except Unanalysed as e:
        return "unanalysed", str(e), sorted(used)
    except (KeyError, IndexError, TypeError) as e:
        return "unanalysed", f"{type(e).__name__}: {e}", sorted(used)
    if diffs:
        params, k, bv, cv = diffs[0]
        ptxt = ", ".join(f"{a}={b}" for a, b in params.items())
        return "differ", f"{(ptxt + ': ') if ptxt else ''}{k[0]}[{k[1]}] — body: {show(bv)}; C: {show(cv)}", sorted(used)
    return "agree", "", sorted(used)


def rule_instrspec(ctx, prop: str) -> RuleResult:
    ix = ctx.ix
    res = RuleResult("INSTRSPEC")
    instrs = find_instrs(ix, X86)
    n_agree = n_un = 0
    table: Set[str] = set()
    for ins in instrs:
        res.instances += 1
        res.analysed.append(f"{X86}:{ins.name}")
        verdict, detail, used = compare_instr(ins)
        table |= set(used)
        if verdict == "unanalysed":
            n_un += 1
            res.notes.append(f"unanalysed: {ins.name}: {detail}")
            continue
        res.nontrivial += 1
        ok = verdict == "agree"
        res.ob(ok)
        if ok:
            n_agree += 1
            res.sample(f"{ins.name}: C fragment and body agree on every lane" + (f" for all {len(param_space(ins))} admissible parameter values" if len(param_space(ins)) > 1 else ""))
        else:
            res.add(
                Finding("INSTRSPEC", X86, ins.lineno, ins.name, "spec-mismatch",
                        f"the C fragment does not do what the Exo body says: {detail}")
            )
    res.notes.append(f"{len(instrs)} instructions: {n_agree} agree, {len(res.findings)} differ, {n_un} unanalysed (outside the intrinsic table / grammar)")
    res.notes.append("intrinsic table used (trusted base): " + ", ".join(sorted(table)))
    if len(instrs) < 60 or n_agree < 40:
        raise AnalysisError(f"INSTRSPEC: {len(instrs)} instructions, only {n_agree} analysed-and-agreeing — checker blind")
    res.floor = 60
    return res


def rule_regwidth(ctx, prop: str) -> RuleResult:
    """Register memories expand a window `r[k, lo:hi]` to `r[k]` — the lane offset is dropped
    (`idxs = indices[:-1]`) — and declare `T r[dims[:-1]]`.  That is the meaning of the Exo
    body only if the last dimension of every such buffer is exactly ONE register: `alloc`
    must reject anything else before it drops the dimension, and the width helper
    `_is_const_size(sz, c)` (one private copy per platform file) must test `int(sz) == c`.
    With `% c == 0`, `r: f32[16] @ AVX2` is one `__m256` and r[0:8], r[8:16] are the same
    register: the instruction's C fragment overwrites lanes its body leaves alone."""
    from ..index import parent

    ix = ctx.ix
    res = RuleResult("REGWIDTH")
    helpers = []
    for m in ix.modules.values():
        if not m.rel.startswith("src/exo/"):
            continue
        f = m.funcs.get("_is_const_size")
        if f is not None and isinstance(f.node, ast.FunctionDef):
            helpers.append((m, f))
    if len(helpers) < 3:
        raise AnalysisError(f"anchor vanished: expected the per-platform copies of _is_const_size, found {len(helpers)}")
    for m, f in helpers:
        res.instances += 1
        res.nontrivial += 1
        res.analysed.append(f"{m.rel}:_is_const_size")
        ps = f.params()
        rets = [n for n in f.body_nodes() if isinstance(n, ast.Return)]
        ok = False
        if len(ps) == 2 and len(rets) == 1 and rets[0].value is not None:
            v = rets[0].value
            conj = v.values if isinstance(v, ast.BoolOp) and isinstance(v.op, ast.And) else [v]
            for c in conj:
                if isinstance(c, ast.Compare) and len(c.ops) == 1 and isinstance(c.ops[0], ast.Eq):
                    sides = {ast.unparse(c.left), ast.unparse(c.comparators[0])}
                    if sides == {f"int({ps[0]})", ps[1]}:
                        ok = True
        res.ob(ok)
        res.sample(f"{m.rel}:_is_const_size tests int({ps[0] if ps else '?'}) == {ps[1] if len(ps) > 1 else '?'}: {ok}")
        if not ok:
            res.add(Finding("REGWIDTH", m.rel, f.lineno, "_is_const_size", "exact-width",
                            f"`{ast.unparse(rets[0])[:70] if rets else '?'}`: the register-width guard must accept exactly `int(sz) == c`; a weaker test (multiple of the width, at least the width) lets a buffer of "
                            f"several registers be declared as one register while the window code drops the lane offset — r[0:8] and r[8:16] become the same register"))
    # every alloc that drops the last dimension is dominated by a raising width guard on shape[-1]
    n_alloc = 0
    for m in ix.modules.values():
        if not m.rel.startswith("src/exo/"):
            continue
        for c in m.classes.values():
            f = c.methods.get("alloc")
            if f is None:
                continue
            drops = [n for n in f.body_nodes() if isinstance(n, ast.Assign) and ast.unparse(n.value).replace(" ", "") == "shape[:-1]"]
            if not drops:
                continue
            n_alloc += 1
            res.instances += 1
            res.nontrivial += 1
            res.analysed.append(f"{m.rel}:{c.name}.alloc")
            first_drop = min(d.lineno for d in drops)
            ok = False
            for n in f.body_nodes():
                if isinstance(n, ast.If) and n.lineno < first_drop and "_is_const_size(shape[-1]" in ast.unparse(n.test) and isinstance(n.test, ast.UnaryOp) and isinstance(n.test.op, ast.Not):
                    if any(isinstance(k, ast.Raise) for s in n.body for k in ast.walk(s)):
                        ok = True
            res.ob(ok)
            res.sample(f"{m.rel}:{c.name}.alloc rejects a last dimension that is not one register before dropping it: {ok}")
            if not ok:
                res.add(Finding("REGWIDTH", m.rel, f.lineno, f"{c.name}.alloc", "guard-before-drop",
                                f"{c.name}.alloc drops the last dimension from the C declaration (`shape = shape[:-1]`) without first rejecting a last dimension that is not exactly one register wide"))
    if n_alloc < 4:
        raise AnalysisError(f"REGWIDTH: expected >= 4 register memories dropping their last dimension, found {n_alloc}")
    res.floor = 7
    return res
