"""C12 / C01 identity rules: NAMECONF, DELGUARD (DESIGN §3.6, §3.21)."""
from __future__ import annotations

import ast
from typing import Dict, List, Optional, Set, Tuple

from ..index import AnalysisError, Func, dotted, last_name, norm_stmt, parent, alpha_eq
from ..mustflow import run_must
from ..report import Finding, RuleResult

S = "src/exo/rewrite/LoopIR_scheduling.py"
L = "src/exo/core/LoopIR.py"

DEFECT, ADVISORY, SANITISED = "defect", "advisory", "sanitised"

# (file, function, construct) -> (status, reason, properties)
NAME_TRIAGE: Dict[Tuple[str, str, str], Tuple[str, str, Tuple[str, ...]]] = {
    (S, "DoSimplify.add_fact", "self.facts[str(expr)]"): (DEFECT, "facts keyed by printed expression: an inner loop shadowing `i` inherits the outer `i == 0` fact (D12)", ("C12",)),
    (S, "DoSimplify.add_fact", "self.facts[str(mod_expr)]"): (DEFECT, "same table (D12)", ("C12",)),
    (S, "DoSimplify.is_known_constant", "self.facts.get(str(e))"): (DEFECT, "lookup side of the same table (D12)", ("C12",)),
    (S, "DoInlineAssign", "_replace_pats(use_sym_id=False)"): (DEFECT, "inlines into reads of a *different* Sym with the same name (D13)", ("C01",)),
    (S, "DoFoldIntoReduce", "access_to_str(assign_s) != access_to_str(assign_s.rhs.lhs)"): (DEFECT, "destination and operand compared by printed name: after inline, `a_1 = a + 1.0` (two Syms named a) folds to `a_1 += 1.0` (D14)", ("C01",)),
    (S, "DoSimplify.is_quotient_remainder", "str(rem.lhs) == str(num)"): (SANITISED, "both sides are the same object (num is rem.lhs)", ("C12",)),
    (S, "DoSimplify.is_quotient_remainder", "str(rem.rhs) == str(mod)"): (SANITISED, "both sides are the same object (mod is rem.rhs)", ("C12",)),
    (S, "DoSimplify.is_quotient_remainder.check_quot", "str(const) == str(mod)"): (SANITISED, "literal constants: no names involved", ("C12",)),
    (S, "DoSimplify.is_quotient_remainder.check_quot", "str(div.rhs) == str(mod)"): (SANITISED, "literal constants (asserted Const): no names involved", ("C12",)),
    (S, "DoSimplify.is_quotient_remainder.check_quot", "str(div.lhs) == str(num)"): (ADVISORY, "numerators compared by printed text: same class as D12 (needs two Syms of one name inside one index expression; not reproduced)", ("C12",)),
    (S, "DoBindExpr", "str(c._node) == str(expr)"): (ADVISORY, "occurrences to bind selected by printed text; same class as D13 (not reproduced)", ("C01",)),
    (L, "LoopIR_Compare.match_name", "n1.name() == n2.name()"): (DEFECT, "join_loops compares the two loop bodies by printed names: two DIFFERENT buffers of one name (x and the staging buffer stage_mem also called x) make `x[i] = 1.0` and `x_1[i] = 1.0` equal and the loops are joined over the wrong buffer (D74)", ("C01",)),
    (S, "DoInsertNoopCall.get_typ_mem", "str(name) == buf_name"): (SANITISED, "resolves a user-supplied name in a nearest-first scope list", ("C01",)),
    (S, "DoStageMem.get_typ_mem", "str(name) == buf_name"): (SANITISED, "resolves a user-supplied name in a nearest-first scope list", ("C01",)),
    ("src/exo/API_scheduling.py", "ArgCursorA._cursor_call", "arg.name() == name"): (SANITISED, "user-supplied argument name", ("C01",)),
    ("src/exo/API_scheduling.py", "ArgOrAllocCursorA._cursor_call", "arg.name() == name"): (SANITISED, "user-supplied argument name", ("C01",)),
}


def _ir_string_funcs(f: Func) -> Set[str]:
    """Nested helpers of f that return a string built from IR names."""
    out = set()
    for n in ast.walk(f.node):
        if isinstance(n, ast.FunctionDef) and n is not f.node:
            for r in ast.walk(n):
                if isinstance(r, ast.Return) and isinstance(r.value, ast.JoinedStr):
                    out.add(n.name)
    return out


def _is_strof(e: ast.AST, helpers: Set[str], f: Optional[Func] = None, _depth: int = 0) -> bool:
    # a local bound to a printed name:  key = f"div_{sanitize_str(str(e))}" ... D[key]
    if isinstance(e, ast.Name) and f is not None and _depth < 2:
        vals = [k.value for k in f.body_nodes() if isinstance(k, ast.Assign) and len(k.targets) == 1 and isinstance(k.targets[0], ast.Name) and k.targets[0].id == e.id]
        return bool(vals) and any(_is_strof(v, helpers, f, _depth + 1) for v in vals)
    if isinstance(e, ast.JoinedStr):
        return any(isinstance(v, ast.FormattedValue) and _is_strof(v.value, helpers, f, _depth) for v in e.values)
    if isinstance(e, ast.Call) and isinstance(e.func, ast.Name) and e.func.id == "sanitize_str" and e.args:
        return _is_strof(e.args[0], helpers, f, _depth)
    if isinstance(e, ast.Call):
        if dotted(e.func) == "str" and e.args:
            return True
        if isinstance(e.func, ast.Attribute) and e.func.attr == "name" and not e.args and not e.keywords:
            return True
        if isinstance(e.func, ast.Name) and e.func.id in helpers:
            return True
    return False


def nameconf_sites(ix, scope_prefixes: Tuple[str, ...]):
    for f in ix.all_funcs():
        if not f.file.startswith(scope_prefixes) or not isinstance(f.node, (ast.FunctionDef, ast.AsyncFunctionDef)):
            continue
        helpers = _ir_string_funcs(f)
        for n in f.body_nodes():
            if isinstance(n, ast.Compare) and len(n.ops) == 1 and isinstance(n.ops[0], (ast.Eq, ast.NotEq, ast.In, ast.NotIn)):
                l, r = n.left, n.comparators[0]
                if _is_strof(l, helpers) or _is_strof(r, helpers):
                    # one-sided comparisons against literals are not identity decisions
                    if isinstance(l, ast.Constant) or isinstance(r, ast.Constant):
                        continue
                    yield f, n, ast.unparse(n)
            if isinstance(n, ast.Subscript) and _is_strof(n.slice, helpers, f):
                yield f, n, ast.unparse(n)
            if (isinstance(n, ast.Compare) and len(n.ops) == 1 and isinstance(n.ops[0], (ast.In, ast.NotIn)) and isinstance(n.left, ast.Name)
                    and (dotted(n.comparators[0]) or "").startswith("self.") and _is_strof(n.left, helpers, f)):
                yield f, n, ast.unparse(n)
            if isinstance(n, ast.Call) and isinstance(n.func, ast.Attribute) and n.func.attr in ("get", "setdefault", "pop") and n.args and _is_strof(n.args[0], helpers, f):
                yield f, n, ast.unparse(n)
            if isinstance(n, ast.Call) and last_name(n) in ("match_pattern", "_replace_pats"):
                for kw in n.keywords:
                    if kw.arg == "use_sym_id" and isinstance(kw.value, ast.Constant) and kw.value.value is False:
                        yield f, n, f"{last_name(n)}(use_sym_id=False)"


def rule_nameconf(ctx, prop: str) -> RuleResult:
    ix = ctx.ix
    res = RuleResult("NAMECONF")
    scope = ("src/exo/rewrite/LoopIR_scheduling.py", "src/exo/rewrite/LoopIR_unification.py", "src/exo/core/LoopIR.py", "src/exo/API_scheduling.py")
    n = 0
    for f, node, cons in nameconf_sites(ix, scope):
        key = (f.file, f.qualname, cons)
        tri = NAME_TRIAGE.get(key)
        if tri is None:
            # same function, alpha-equivalent construct (a local was renamed): the triage still applies
            cands = [v for (fl, q_, c_), v in NAME_TRIAGE.items() if fl == f.file and q_ == f.qualname and alpha_eq(c_, cons)]
            if len(cands) == 1:
                tri = cands[0]
        if tri is not None and prop not in tri[2]:
            continue
        n += 1
        res.instances += 1
        res.nontrivial += 1
        res.analysed.append(f"{f.file}:{f.qualname}")
        if tri is None:
            res.ob(False)
            res.add(
                Finding("NAMECONF", f.file, node.lineno, f.qualname, cons,
                        "an identity decision is taken on printed names (str(expr)/sym.name()): `str` of an IR expression uses a fresh name environment, so two distinct "
                        "Syms with one name print identically — untriaged site")
            )
            continue
        status, why, _ = tri
        res.sample(f"{f.qualname}: `{cons}` — {status}: {why}")
        if status == SANITISED:
            res.ob(True)
        elif status == ADVISORY:
            res.ob(True)
            res.add(Finding("NAMECONF", f.file, node.lineno, f.qualname, cons, why, advisory=True))
        else:
            res.ob(False)
            res.add(Finding("NAMECONF", f.file, node.lineno, f.qualname, cons, "identity decided by printed name: " + why))
    res.floor = 5 if prop == "C12" else (0 if prop == "C05" else 6)
    return res


def rule_delguard(ctx, prop: str) -> RuleResult:
    """simplify deletes a loop / branch only behind a literal test of its bounds /
    condition, or emptiness of its rewritten body."""
    ix = ctx.ix
    res = RuleResult("DELGUARD")
    f = ix.func(S, "DoSimplify.map_s")
    res.analysed.append(f"{S}:DoSimplify.map_s")

    def is_site(n):
        return isinstance(n, ast.Call) and isinstance(n.func, ast.Attribute) and n.func.attr in ("_delete", "_move")

    an = run_must(f.node, is_site, branch_facts=True)
    sites = an.site_facts()
    if len(sites) < 6:
        raise AnalysisError(f"DELGUARD: expected >= 6 delete/move sites in DoSimplify.map_s, found {len(sites)}")
    for n, facts in sites:
        res.instances += 1
        res.nontrivial += 1
        const_guard = "true:.Const" in facts and "true:isinstance" in facts
        empty_guard = "true:.body" in facts and "call:map_stmts" in facts
        ok = const_guard or empty_guard
        # If-branch removal additionally depends on the literal's value
        in_if = "true:.If" in facts
        if in_if and n.func.attr in ("_delete", "_move"):
            ok = ok and ("true:.val" in facts or "false:.val" in facts)
        # For removal by bounds: both bounds literal and equal
        if "true:.For" in facts and const_guard:
            ok = ok and "true:.val" in facts
        res.ob(ok)
        res.sample(f"line {n.lineno} {n.func.attr}: literal-guard={const_guard} empty-body-guard={empty_guard}")
        if not ok:
            res.add(
                Finding("DELGUARD", S, n.lineno, f.qualname, f"{n.func.attr}@{'If' if in_if else 'For'}",
                        "a loop or branch is removed on a path that did not establish that its condition/bounds are literals (or that its rewritten body is empty): code that can execute is deleted")
            )
    # polarity: literal-true keeps body, literal-false keeps orelse
    from .. import pat

    t = f.node
    ok = False
    for n in ast.walk(t):
        if isinstance(n, ast.If) and isinstance(n.test, ast.Attribute) and n.test.attr == "val":
            b_txt = "".join(ast.unparse(s) for s in n.body)
            e_txt = "".join(ast.unparse(s) for s in n.orelse)
            if ".body()._move" in b_txt.replace("\n", "") and ".orelse()" not in b_txt.split("_move")[0] and ".orelse()" in e_txt:
                ok = True
    res.instances += 1
    res.ob(ok)
    if not ok:
        res.add(Finding("DELGUARD", S, f.lineno, f.qualname, "true->body", "for a literal condition, `True` must keep the body and `False` the else branch"))
    # dead-code elimination siblings discharge the same obligation through SMT checks
    for qn, chk in (("DoEliminateIfDeadBranch", "Check_ExprEqvInContext"), ("DoEliminateDeadLoop", "Check_CompareExprs")):
        g = ix.func(S, qn)
        res.analysed.append(f"{S}:{qn}")
        an2 = run_must(g.node, is_site)
        for n, facts in an2.site_facts():
            res.instances += 1
            res.nontrivial += 1
            ok = any(x.startswith("call:Check_") for x in facts)
            res.ob(ok)
            if not ok:
                res.add(Finding("DELGUARD", S, n.lineno, qn, f"{n.func.attr}<-Check", f"{qn} removes code on a path that never passed a Check_* of the condition/bounds"))
    res.floor = 8
    return res


def rule_modguard(ctx, prop: str) -> RuleResult:
    """Index normalisation drops `/ c` or `% c` only behind the two-sided range fact
    0 <= e < c (floor semantics): a one-sided test is not enough for either operator."""
    ix = ctx.ix
    res = RuleResult("MODGUARD")
    m = ix.module(S)
    funcs = [f for qn, f in m.funcs.items() if qn.startswith("_DoNormalize.index_start.") and isinstance(f.node, ast.FunctionDef)]
    if len(funcs) < 4:
        raise AnalysisError("anchor vanished: nested simplification helpers of _DoNormalize.index_start")
    n_two = 0
    for f in funcs:
        for n in f.body_nodes():
            if not (isinstance(n, ast.Call) and isinstance(n.func, ast.Attribute)):
                continue
            if n.func.attr == "check_expr_bound":
                res.instances += 1
                res.nontrivial += 1
                res.analysed.append(f"{S}:{f.qualname}")
                res.ob(False)
                res.add(
                    Finding("MODGUARD", S, n.lineno, f.qualname, "one-sided:" + ast.unparse(n)[:60],
                            "a division/modulo is simplified away behind a one-sided range test: with floor semantics `e % c == e` and the splitting of `e / c` need 0 <= e as well as e < c "
                            "(for i in seq(0,4): x[(i-1) % 4] would become x[i-1])")
                )
            if n.func.attr == "check_expr_bounds" and len(n.args) == 5:
                res.instances += 1
                res.nontrivial += 1
                res.analysed.append(f"{S}:{f.qualname}")
                a = n.args
                ok = isinstance(a[0], ast.Constant) and a[0].value == 0 and (dotted(a[1]) or "").endswith(".leq") and (dotted(a[3]) or "").endswith(".lt")
                res.ob(ok)
                res.sample(f"{f.qualname}: {ast.unparse(n)[:90]}")
                if ok:
                    n_two += 1
                else:
                    res.add(Finding("MODGUARD", S, n.lineno, f.qualname, "bounds-form", "the range fact justifying the simplification must be 0 <= e < c"))
    res.instances += 1
    ok = n_two >= 3
    res.ob(ok)
    if not ok:
        res.add(Finding("MODGUARD", S, funcs[0].lineno, "_DoNormalize.index_start", "two-sided-guards", f"only {n_two} two-sided range guards remain in the div/mod simplifications (3 needed: two in division, one in modulo)"))
    res.floor = 4
    return res


def rule_divaccount(ctx, prop: str) -> RuleResult:
    """Accounting of the constant term in `(C + D + N) / d` (D: terms divisible by d, N: the
    rest).  The quotient may be split only around an expression X with 0 <= X < d; what is
    returned must be ((C + D + N) - X) / d.  So: X = N (constant left out, legal when
    d | C) gives constant C // d; X = C + N (constant counted in the remainder) gives
    constant 0.  Any other pairing counts the constant twice or not at all."""
    ix = ctx.ix
    res = RuleResult("DIVACCOUNT")
    m = ix.module(S)
    f = m.funcs.get("_DoNormalize.index_start.division_simplification")
    if f is None:
        raise AnalysisError("anchor vanished: _DoNormalize.index_start.division_simplification")
    res.analysed.append(f"{S}:{f.qualname}")
    from .. import pat

    # the (constant, terms) pair of the normalised numerator
    m0 = pat.find("_M_c, _M_l = get_normalized_expr(_M_e.lhs)", f.node)
    m1 = pat.find("_M_d = _M_e.rhs.val", f.node)
    if not m0 or not m1:
        raise AnalysisError("anchor vanished: numerator/denominator bindings of division_simplification")
    C = ast.unparse(m0[1]["_M_c"])
    D = ast.unparse(m1[1]["_M_d"])

    def const_form(e: ast.AST) -> Optional[str]:
        t = ast.unparse(e)
        if t == C:
            return "C"
        if t == f"{C}.update(val=0)":
            return "0"
        if t == f"{C}.update(val={C}.val // {D})":
            return "C//d"
        return None

    def defs_of(name: str, before: int) -> Optional[ast.AST]:
        best = None
        for n in f.body_nodes():
            if isinstance(n, ast.Assign) and len(n.targets) == 1 and isinstance(n.targets[0], ast.Name) and n.targets[0].id == name and n.lineno < before:
                if best is None or n.lineno > best.lineno:
                    best = n
        return best.value if best is not None else None

    def enclosing_ifs(n: ast.AST) -> List[Tuple[ast.If, bool]]:
        out = []
        c = n
        p = parent(c)
        while p is not None and p is not f.node:
            if isinstance(p, ast.If):
                out.append((p, c in p.body))
            c, p = p, parent(p)
        return out

    rets = [n for n in f.body_nodes() if isinstance(n, ast.Return) and isinstance(n.value, ast.Call) and last_name(n.value) == "generate_loopIR" and len(n.value.args) == 3]
    for r in rets:
        res.instances += 1
        res.nontrivial += 1
        k = const_form(r.value.args[1])
        guard = None
        for iff, in_body in enclosing_ifs(r):
            t = iff.test
            if in_body and isinstance(t, ast.Call) and isinstance(t.func, ast.Attribute) and t.func.attr == "check_expr_bounds" and len(t.args) == 5:
                guard = t
        conds = " and ".join(ast.unparse(i.test) if b else f"not ({ast.unparse(i.test)})" for i, b in enclosing_ifs(r))
        if guard is None:
            # no remainder expression: every term is divisible, the constant is floor-divided
            ok = k == "C//d"
            res.ob(ok)
            res.sample(f"{f.qualname}: no remainder, constant {k}: {ok}")
            if not ok:
                res.add(Finding("DIVACCOUNT", S, r.lineno, f.qualname, "all-divisible", f"with every term divisible by {D} the quotient's constant must be {C}.val // {D} (found `{ast.unparse(r.value.args[1])}`)"))
            continue
        x = guard.args[2]
        xdef = defs_of(x.id, guard.lineno) if isinstance(x, ast.Name) else x
        if not (isinstance(xdef, ast.Call) and last_name(xdef) == "generate_loopIR" and len(xdef.args) == 3):
            raise AnalysisError(f"{f.qualname}:{guard.lineno}: cannot resolve the bounded remainder expression `{ast.unparse(x)}`")
        kx = const_form(xdef.args[1])
        if k is None or kx is None:
            raise AnalysisError(f"{f.qualname}:{r.lineno}: unrecognised constant form `{ast.unparse(r.value.args[1])}` / `{ast.unparse(xdef.args[1])}`")
        if kx == "0":
            # the constant was left out of the remainder: needs d | C on this path, result C // d
            ok = k == "C//d" and f"{C}.val % {D} == 0" in conds
        elif kx == "C":
            ok = k == "0"
        else:
            ok = False
        res.ob(ok)
        res.sample(f"{f.qualname}:{r.lineno}: remainder constant {kx}, quotient constant {k}, path `{conds[:80]}`: {ok}")
        if not ok:
            res.add(
                Finding("DIVACCOUNT", S, r.lineno, f.qualname, f"remainder={kx},quotient={k}",
                        f"(C + D + N) / {D} is split around a remainder whose constant part is {kx} but the quotient is given the constant {k}: "
                        f"the constant is counted {'twice' if kx == 'C' else 'wrongly'} — e.g. (4*io + ii - 1) / 4 with ii in [1,5) becomes io - 1")
            )
    # splitting the denominator:  x / d  ==  (x / a) / b  holds (floor division, a, b > 0) exactly when a * b == d.
    # Wherever the helper divides by one factor first and returns a division of THAT result, the two divisors
    # must be complementary factors of d (`v` and `d // v`); dividing twice by the same factor gives x / (b*b).
    g = m.funcs.get("_DoNormalize.index_start.division_simplification_and_try_spliting_denominator")
    if g is None:
        raise AnalysisError("anchor vanished: _DoNormalize.index_start.division_simplification_and_try_spliting_denominator")
    res.analysed.append(f"{S}:{g.qualname}")

    def div_by(e_: ast.AST):
        """`LoopIR.BinOp('/', NUM, <x>.update(val=V), ...)` -> (text of NUM, text of V)"""
        if isinstance(e_, ast.Call) and dotted(e_.func) == "LoopIR.BinOp" and len(e_.args) >= 3 and isinstance(e_.args[0], ast.Constant) and e_.args[0].value == "/":
            den = e_.args[2]
            if isinstance(den, ast.Call) and isinstance(den.func, ast.Attribute) and den.func.attr == "update":
                for kw in den.keywords:
                    if kw.arg == "val":
                        return ast.unparse(e_.args[1]), ast.unparse(kw.value)
        return None

    dvars = [ast.unparse(n.targets[0]) for n in g.body_nodes() if isinstance(n, ast.Assign) and len(n.targets) == 1 and ast.unparse(n.value).endswith(".rhs.val")]
    n_split = 0
    for loop in [n for n in g.body_nodes() if isinstance(n, ast.While)]:
        stmts = [st for st in ast.walk(loop) if isinstance(st, (ast.Assign, ast.Return))]
        stmts.sort(key=lambda st: (st.lineno, st.col_offset))
        inner = None
        for st in stmts:
            if isinstance(st, ast.Assign) and len(st.targets) == 1 and isinstance(st.targets[0], ast.Name):
                d_ = div_by(st.value)
                if d_ is not None:
                    inner = (st.targets[0].id, d_[1])
            elif isinstance(st, ast.Return) and st.value is not None and inner is not None:
                d_ = div_by(st.value)
                if d_ is None or d_[0] != inner[0]:
                    continue
                n_split += 1
                res.instances += 1
                res.nontrivial += 1
                A, B = inner[1], d_[1]
                ok = any(B == f"{D_} // {A}" or A == f"{D_} // {B}" for D_ in dvars)
                res.ob(ok)
                res.sample(f"{g.qualname}:{st.lineno}: (x / {A}) / {B} with complementary factors of {dvars}: {ok}")
                if not ok:
                    res.add(Finding("DIVACCOUNT", S, st.lineno, g.qualname, f"split:{A}|{B}",
                                    f"x / d is rewritten to (x / {A}) / {B}: the two divisors are not complementary factors of d ({A} * {B} != d) — "
                                    f"(8*i + j) / 16 with j in [0, 8) becomes i / 8 instead of i / 2"))
    if n_split < 2:
        raise AnalysisError(f"DIVACCOUNT: expected the two denominator-splitting returns, found {n_split}")
    res.floor = 5
    return res


def rule_factstate(ctx, prop: str) -> RuleResult:
    """`simplify` turns the condition of an `if` into a fact that it applies throughout the
    branch.  That is sound for index variables (immutable in the branch) but not for
    configuration fields, which the branch — or a procedure it calls — may write.
    `DoSimplify.add_fact` must not record a fact whose expression reads configuration
    state (or the class must invalidate such facts at every WriteConfig and Call)."""
    ix = ctx.ix
    res = RuleResult("FACTSTATE")
    c = ix.module(S).cls("DoSimplify")
    af = c.methods.get("add_fact")
    if af is None:
        raise AnalysisError("anchor vanished: DoSimplify.add_fact")
    res.analysed.append(f"{S}:DoSimplify.add_fact")
    res.instances += 1
    res.nontrivial += 1
    first_store = min((k.lineno for k in af.body_nodes() if isinstance(k, ast.Assign) and isinstance(k.targets[0], ast.Subscript) and "facts" in ast.unparse(k.targets[0].value)), default=None)
    if first_store is None:
        raise AnalysisError("anchor vanished: the fact store of DoSimplify.add_fact")
    # (a) a guard that leaves add_fact before the store when the expression reads configuration
    guarded = False
    for k in af.body_nodes():
        if isinstance(k, ast.If) and k.lineno < first_store and any(isinstance(x, ast.Return) for x in k.body):
            t = ast.unparse(k.test)
            names = {x.func.id for x in ast.walk(k.test) if isinstance(x, ast.Call) and isinstance(x.func, ast.Name)}
            helper_mentions = any("ReadConfig" in ast.unparse(h.node) for q, h in ix.module(S).funcs.items() if q.startswith("DoSimplify.add_fact.") and h.node.name in names)
            if "ReadConfig" in t or helper_mentions:
                guarded = True
    # (b) or invalidation at WriteConfig / Call in map_s
    ms = c.methods.get("map_s")
    invalidates = False
    if ms is not None:
        for k in ms.body_nodes():
            if isinstance(k, ast.If) and "WriteConfig" in ast.unparse(k.test) and any("facts" in ast.unparse(x) and isinstance(x, (ast.Delete, ast.Call, ast.Assign)) for b in k.body for x in ast.walk(b)):
                invalidates = True
    ok = guarded or invalidates
    res.ob(ok)
    res.sample(f"DoSimplify: facts about configuration reads are not recorded ({guarded}) or are invalidated at writes ({invalidates})")
    if not ok:
        res.add(
            Finding("FACTSTATE", S, af.lineno, "DoSimplify.add_fact", "config-fact",
                    "simplify records `Cfg.a == 0` as a fact for the whole branch and never invalidates it: after `Cfg.a = 1` in the branch, `y[Cfg.a]` is rewritten to `y[0]`")
        )
    res.floor = 1
    return res
