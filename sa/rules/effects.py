"""Rules on the effect abstraction that every commutativity / race / configuration check is
built on (rewrite/new_eff.py): order of effects (EFFORDER) and the transfer functions of the
location-set computation (LOCSETS)."""
from __future__ import annotations

import ast
from typing import Dict, List, Optional, Set, Tuple

from ..index import AnalysisError, Func, dotted, last_name, parent
from ..report import Finding, RuleResult

NE = "src/exo/rewrite/new_eff.py"

OPERAND_FUNCS = {"expr_effs", "list_expr_effs"}
OWN_EFFECTS = {"Write", "Reduce", "GlobalWrite", "Guard", "Loop", "Alloc"}


def _case_of(f: Func, subject: str):
    """(ctor names, body) for each `isinstance(subject, ...)` case of the if/elif chain."""
    out = []
    for n in f.body_nodes():
        if isinstance(n, ast.If):
            t = n.test
            if isinstance(t, ast.Call) and dotted(t.func) == "isinstance" and len(t.args) == 2 and isinstance(t.args[0], ast.Name) and t.args[0].id == subject:
                cs = t.args[1].elts if isinstance(t.args[1], ast.Tuple) else [t.args[1]]
                out.append(([ast.unparse(c).split(".")[-1] for c in cs], n.body, n))
    return out


def _loop_subject(f: Func, default: str) -> str:
    """the variable the function's main `for <v> in <list>:` loop dispatches on"""
    for n in f.node.body:
        if isinstance(n, ast.For) and isinstance(n.target, ast.Name):
            return n.target.id
    return default


def rule_efforder(ctx, prop: str) -> RuleResult:
    """The effect list of a statement is in EVALUATION order: operands are read (expr_effs /
    list_expr_effs of its index, right-hand side, bounds, arguments) before the statement's own
    effect (E.Write / E.Reduce / E.GlobalWrite / E.Guard / E.Loop / E.Alloc / the callee's effects).
    get_basic_locsets walks the list backwards and lets a write hide LATER reads of the same
    location; with the write first, `CFG.a = CFG.a + 1` hides its own read of CFG.a and every
    later one, and delete_config / write_config in front of it are accepted with an empty set of
    changed fields."""
    ix = ctx.ix
    res = RuleResult("EFFORDER")
    f = ix.func(NE, "stmts_effs")
    res.analysed.append(f"{NE}:stmts_effs")
    n_cases = 0
    aliases = {"EConstruct"}
    subj = _loop_subject(f, "s")
    for ctors, body, node in _case_of(f, subj):
        operand_lines: List[int] = []
        own_lines: List[int] = []
        for st in body:
            for k in ast.walk(st):
                if isinstance(k, ast.Call):
                    nm = last_name(k)
                    if nm in OPERAND_FUNCS:
                        operand_lines.append(k.lineno)
                    elif nm == "proc_effs":
                        own_lines.append(k.lineno)
                    elif isinstance(k.func, ast.Attribute) and dotted(k.func.value) == "E" and k.func.attr in OWN_EFFECTS:
                        own_lines.append(k.lineno)
                    elif isinstance(k.func, ast.Name) and k.func.id in aliases:
                        own_lines.append(k.lineno)
        if not operand_lines or not own_lines:
            continue
        n_cases += 1
        res.instances += 1
        res.nontrivial += 1
        ok = max(operand_lines) < min(own_lines)
        res.ob(ok)
        res.sample(f"stmts_effs case {'/'.join(ctors)}: operand reads (lines {sorted(operand_lines)}) precede the statement's own effect (line {min(own_lines)}): {ok}")
        if not ok:
            res.add(Finding("EFFORDER", NE, max(operand_lines), "stmts_effs", f"order:{'/'.join(ctors)}",
                            f"case {'/'.join(ctors)}: the reads of the statement's operands are appended AFTER its own effect. The location-set computation walks the list backwards and a write hides "
                            f"later reads of the same location, so `CFG.a = CFG.a + 1` hides its own read of CFG.a (and every later one): a configuration write placed or deleted in front of it "
                            f"is judged invisible"))
    # the body of a loop is analysed under the loop-invariant dataflow only: whatever global
    # (configuration) value the loop itself may change is unknown on entry to the body.  That is the
    # `E.BindEnv(globenv([s]))` PREFIX of the body's effect list.  Without it every iteration is analysed with
    # the pre-loop values: a guard on a field the loop writes is decided with the stale value and the
    # configuration reads behind it vanish from the read-later set of delete_config / call_eqv
    from .. import pat

    res.instances += 1
    res.nontrivial += 1
    fcase = [(c, b, n_) for c, b, n_ in _case_of(f, subj) if "For" in c]
    ok = False
    if fcase:
        _, fbody, fnode = fcase[0]
        wrapper = ast.Module(body=fbody, type_ignores=[])
        hits = pat.find_all("[E.BindEnv(globenv([_M_s]))] + stmts_effs(_M_s.body)", wrapper)
        for node_, b in hits:
            if ast.unparse(b["_M_s"]) == subj:
                # ... and that list is what goes into the E.Loop
                par_ = parent(node_)
                tgt = par_.targets[0].id if isinstance(par_, ast.Assign) and isinstance(par_.targets[0], ast.Name) else None
                loops = [k for st in fbody for k in ast.walk(st) if isinstance(k, ast.Call) and isinstance(k.func, ast.Attribute) and dotted(k.func.value) == "E" and k.func.attr == "Loop"]
                if loops and (tgt is None or any(isinstance(x, ast.Name) and x.id == tgt for lp in loops for x in ast.walk(lp))):
                    ok = True
    else:
        raise AnalysisError("anchor vanished: For case of stmts_effs")
    res.ob(ok)
    res.sample(f"stmts_effs case For: body effects prefixed by the loop-invariant dataflow BindEnv(globenv([{subj}])): {ok}")
    if not ok:
        res.add(Finding("EFFORDER", NE, fcase[0][2].lineno, "stmts_effs", "loop-havoc-prefix",
                        "the effects of a loop body are not prefixed by `E.BindEnv(globenv([s]))`: configuration fields the loop itself writes keep their pre-loop value in the analysis of every "
                        "iteration, so a read guarded by such a field (reachable only from the second iteration on) is not seen and delete_config / write_config / call_eqv accept a change of a value that is read later"))
    # evaluating an expression evaluates its sub-expressions: in expr_effs every expression-typed child of a
    # constructor (per the ADT) contributes its OWN effects — `expr_effs(e.F)` / `list_expr_effs(e.F)` / a
    # comprehension over e.F.  Lifting a child into the coordinates of an E.Read (`lift_es(e.idx)`) is not that:
    # a configuration field read inside the index of a right-hand-side read (`x[CFG.a]`) then is no read at all
    # and delete_config / write_config accept changing it
    fe = ix.func(NE, "expr_effs")
    res.analysed.append(f"{NE}:expr_effs")
    esubj = ([a for a in fe.params()] or ["e"])[0]
    mod = ctx.adts["LoopIR"]
    n_child = 0
    for ctors, body, node in _case_of(fe, esubj):
        for K in ctors:
            if K not in mod.ctors:
                continue
            for fld in mod.ctor(K).fields:
                if fld.type not in ("expr", "w_access"):
                    continue
                n_child += 1
                res.instances += 1
                res.nontrivial += 1
                want = f"{esubj}.{fld.name}"
                ok = False
                for st in body:
                    for k in ast.walk(st):
                        if isinstance(k, ast.Call) and last_name(k) in OPERAND_FUNCS and k.args and ast.unparse(k.args[0]) == want:
                            ok = True
                        if isinstance(k, ast.comprehension) and ast.unparse(k.iter) == want:
                            ok = True
                res.ob(ok)
                if not ok:
                    res.add(Finding("EFFORDER", NE, node.lineno, "expr_effs", f"child-effects:{K}.{fld.name}",
                                    f"expr_effs, case {K}: the effects of the sub-expression(s) `{want}` are not collected (no expr_effs / list_expr_effs of it). A configuration read inside "
                                    f"`{want}` — `y[0] = x[CFG.a]` — is then no read at all: delete_config(CFG.a = 3) in front of it is accepted and the procedure reads the stale value"))
    if n_child < 5:
        raise AnalysisError(f"EFFORDER: expected >= 5 expression-typed children over the cases of expr_effs, found {n_child}")
    if n_cases < 5:
        raise AnalysisError(f"EFFORDER: expected >= 5 statement cases with operand reads and an own effect in stmts_effs, found {n_cases}")
    res.floor = 11
    return res


def rule_locsets(ctx, prop: str) -> RuleResult:
    """Transfer functions of get_basic_locsets (backwards walk; accumulators returned as
    (RG, WG, RH, WH, Red, Alc)).  Unsound are exactly: (1) a kill `LDiff(A, X)` other than
    exposed global reads killed by a global write (or by the writes of a nested body) and exposed
    heap reads killed by a heap write (or by the heap writes of a nested body) — in particular a
    REDUCE kills nothing: a later read observes the accumulated value; (2) an update of an
    accumulator that does not carry its old value on; (3) an effect whose own location is not
    added to its own accumulator."""
    ix = ctx.ix
    res = RuleResult("LOCSETS")
    f = ix.func(NE, "get_basic_locsets")
    res.analysed.append(f"{NE}:get_basic_locsets")
    rets = [n for n in f.body_nodes() if isinstance(n, ast.Return) and isinstance(n.value, ast.Tuple)]
    if not rets or len(rets[-1].value.elts) != 6 or not all(isinstance(e, ast.Name) for e in rets[-1].value.elts):
        raise AnalysisError("anchor vanished: get_basic_locsets no longer returns its six accumulators as a tuple of names")
    acc = [e.id for e in rets[-1].value.elts]  # RG WG RH WH Red Alc
    A = {nm: i for i, nm in enumerate(acc)}
    OWN = {"GlobalRead": 0, "GlobalWrite": 1, "Read": 2, "Write": 3, "Reduce": 4}
    KILLS = {"GlobalWrite": {(0, "P")}, "Write": {(2, "P")}, "Guard/Loop": {(0, "B1"), (2, "B3")}}
    n_cases = 0
    subj = _loop_subject(f, "eff")
    for ctors, body, node in _case_of(f, subj):
        key = "Guard/Loop" if set(ctors) == {"Guard", "Loop"} else (ctors[0] if len(ctors) == 1 else "/".join(ctors))
        points = set()
        bnames: Dict[str, str] = {}
        for st in body:
            for k in ast.walk(st):
                if isinstance(k, ast.Assign) and len(k.targets) == 1:
                    t = k.targets[0]
                    if isinstance(t, ast.Name) and isinstance(k.value, ast.Call) and dotted(k.value.func) in ("LS.Point",):
                        points.add(t.id)
                    if isinstance(t, ast.Tuple) and len(t.elts) == 6 and all(isinstance(e, ast.Name) for e in t.elts):
                        for i_, e in enumerate(t.elts):
                            bnames[e.id] = f"B{i_}"

        def canon(e: ast.AST) -> str:
            if isinstance(e, ast.Name):
                if e.id in A:
                    return f"A{A[e.id]}"
                if e.id in points:
                    return "P"
                if e.id in bnames:
                    return bnames[e.id]
            return ast.unparse(e)

        updates = []  # (acc index, value node)
        for st in body:
            for k in ast.walk(st):
                if isinstance(k, ast.Assign) and len(k.targets) == 1 and isinstance(k.targets[0], ast.Name) and k.targets[0].id in A:
                    updates.append((A[k.targets[0].id], k))
        if not updates:
            continue
        n_cases += 1
        # (1) kills
        for ai, k in updates:
            for c in ast.walk(k.value):
                if isinstance(c, ast.Call) and last_name(c) == "LDiff" and len(c.args) == 2:
                    res.instances += 1
                    res.nontrivial += 1
                    a0, a1 = canon(c.args[0]), canon(c.args[1])
                    ok = a0.startswith("A") and (int(a0[1:]), a1) in KILLS.get(key, set()) and int(a0[1:]) == ai
                    res.ob(ok)
                    res.sample(f"case {key}: kill `{ast.unparse(c)}` allowed: {ok}")
                    if not ok:
                        res.add(Finding("LOCSETS", NE, c.lineno, "get_basic_locsets", f"kill:{key}:{a0}-{a1}",
                                        f"case {key}: `{ast.unparse(k)}` removes locations from `{ast.unparse(c.args[0])}`. Only a WRITE hides later reads of its location; "
                                        + ("a reduce does not — the later read observes the accumulated value — so the clauses Red1 ∩ R2 = ∅ / Red2 ∩ R1 = ∅ of Commutes become vacuous "
                                           "and reorder_loops of a running sum (acc += a[i,j]; out[i,j] = acc) is accepted" if key == "Reduce" else "this kill makes the read / write sets too small and every check built on them too permissive")))
        # (2) carry-on
        for ai, k in updates:
            res.instances += 1
            ok = any(isinstance(c, ast.Name) and c.id == acc[ai] for c in ast.walk(k.value))
            res.ob(ok)
            if not ok:
                res.add(Finding("LOCSETS", NE, k.lineno, "get_basic_locsets", f"carry:{key}:A{ai}", f"case {key}: `{ast.unparse(k)}` discards what `{acc[ai]}` had accumulated from the later effects"))
        # (3) own location
        if key in OWN:
            res.instances += 1
            res.nontrivial += 1
            want = OWN[key]
            ok = any(ai == want and isinstance(k.value, ast.Call) and last_name(k.value) == "LUnion" and "P" in {canon(a) for a in k.value.args} for ai, k in updates)
            res.ob(ok)
            res.sample(f"case {key}: own location joined into `{acc[want]}`: {ok}")
            if not ok:
                res.add(Finding("LOCSETS", NE, node.lineno, "get_basic_locsets", f"own:{key}", f"case {key}: the effect's own location is not added to `{acc[want]}`: accesses of this kind are invisible to every check"))
        if key == "Guard/Loop":
            for want, b in ((0, "B0"), (1, "B1"), (2, "B2"), (3, "B3"), (4, "B4")):
                res.instances += 1
                ok = any(ai == want and isinstance(k.value, ast.Call) and last_name(k.value) == "LUnion" and b in {canon(a) for a in k.value.args} for ai, k in updates)
                res.ob(ok)
                if not ok:
                    res.add(Finding("LOCSETS", NE, node.lineno, "get_basic_locsets", f"body:{b}", f"case Guard/Loop: the nested body's set {b} is not joined into `{acc[want]}`"))
    if n_cases < 7:
        raise AnalysisError(f"LOCSETS: expected >= 7 effect cases updating the accumulators, found {n_cases}")
    res.floor = 20
    return res


def rule_cfgreals(ctx, prop: str) -> RuleResult:
    """In the analysis a real-valued scalar variable is a constant symbol.  That is only true of
    scalars that are never assigned; predicates over the others must go through
    `filter_reals(pred, get_changing_scalars(proc.body))`, which makes them unknown.
    Check_DeleteConfigWrite decides "the configuration field has the same value before and after
    these statements" (`G(AEq(pt_e, stmtsG(pt_e)))`): for `CFG.a = x; x = 2.0; CFG.a = x` that
    equality holds symbolically (x == x) although the two values differ, the second write is
    judged redundant and deleted, and a later read of CFG.a sees the old value."""
    ix = ctx.ix
    res = RuleResult("CFGREALS")
    f = ix.func(NE, "Check_DeleteConfigWrite")
    res.analysed.append(f"{NE}:Check_DeleteConfigWrite")
    eqs = [n for n in f.all_nodes() if isinstance(n, ast.Call) and last_name(n) == "AEq"]  # nested helpers included
    if not eqs:
        raise AnalysisError("anchor vanished: no AEq(value before, value after) in Check_DeleteConfigWrite")
    chg = {n.targets[0].id for n in f.body_nodes() if isinstance(n, ast.Assign) and len(n.targets) == 1 and isinstance(n.targets[0], ast.Name) and isinstance(n.value, ast.Call) and last_name(n.value) == "get_changing_scalars"}
    for e in eqs:
        res.instances += 1
        res.nontrivial += 1
        p_ = parent(e)
        ok = False
        while p_ is not None and not isinstance(p_, ast.stmt):
            if isinstance(p_, ast.Call) and last_name(p_) == "filter_reals" and len(p_.args) == 2 and isinstance(p_.args[1], ast.Name) and p_.args[1].id in chg:
                ok = True
            p_ = parent(p_)
        res.ob(ok)
        res.sample(f"Check_DeleteConfigWrite: `{ast.unparse(e)[:50]}` filtered for changing real scalars: {ok}")
        if not ok:
            res.add(Finding("CFGREALS", NE, e.lineno, "Check_DeleteConfigWrite", f"unfiltered:{ast.unparse(e)[:40]}",
                            f"`{ast.unparse(e)[:60]}` is decided with real scalar variables as constant symbols: `CFG.a = x; x = 2.0; CFG.a = x; y[0] = CFG.a` — the second write equals the first "
                            f"symbolically, delete_config removes it and y[0] receives the old x. The equality must go through filter_reals(..., get_changing_scalars(proc.body))"))
    res.floor = 2
    return res
