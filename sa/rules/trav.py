"""TRAV — traversal completeness of visitor overrides (DESIGN §3.2).

For every subclass of LoopIR_Do / LoopIR_Rewrite (incl. Cursor_Rewrite) and every
override of a traversal hook, decide per constructor K of the hook's syntactic
category what happens on *every path* on which the node is a K:
  delegate  – the path calls super().<hook>(...)
  visit     – the path hands every required child field of K to the class's hooks
  prune     – neither (children silently skipped)
A prune is a violation when the skipped children can hold something the class
looks at (see `cares`).
"""
from __future__ import annotations

import ast
from dataclasses import dataclass
from typing import Dict, List, Optional, Set, Tuple

from ..adt import ADTs
from ..dispatch import TypeTests
from ..flow import always_raises
from ..index import AnalysisError, Class, Func, Index, dotted, norm_stmt, last_name
from ..report import Finding, RuleResult

HOOK_SUM = {
    "do_s": "stmt",
    "map_s": "stmt",
    "do_e": "expr",
    "map_e": "expr",
    "do_t": "type",
    "map_t": "type",
    "do_w_access": "w_access",
    "map_w_access": "w_access",
}
BASES = ("LoopIR_Do", "LoopIR_Rewrite")
SELF_HOOKS = {
    "do_s", "do_e", "do_t", "do_w_access", "do_stmts",
    "map_s", "map_e", "map_t", "map_w_access", "map_stmts", "map_exprs", "map_fnarg",
    "apply_s", "apply_e", "apply_t", "apply_w_access", "apply_stmts", "apply_exprs", "apply_fnarg",
    "_map_list",
}

# Expression-valued fields in *control* positions: the typechecker only admits
# control-typed expressions there (typecheck.py check_access / check_w_access /
# For bounds / If cond / Tensor.hi), i.e. Read-of-control, Const, USub, BinOp,
# StrideExpr, ReadConfig.  Data constructs (Extern, WindowExpr, data Reads) cannot
# occur below them.
CONTROL_FIELDS = {
    ("Read", "idx"),
    ("Assign", "idx"),
    ("Reduce", "idx"),
    ("WindowExpr", "idx"),
    ("For", "lo"),
    ("For", "hi"),
    ("If", "cond"),
    ("Tensor", "hi"),
    ("WindowType", "idx"),
    ("Interval", "lo"),
    ("Interval", "hi"),
    ("Point", "pt"),
}
# `type` attribute of expressions and the `type` field of Assign/Reduce/Alloc are
# annotations: they are reachable through hooks but contain only control exprs.


@dataclass
class PathEnd:
    visited: Set[str]
    delegated: bool
    how: str  # return | fall
    line: int
    copied: Optional[Set[str]] = None  # for a replacement return: subject fields reused in it
    helper: Optional[str] = None  # whole node handed to a non-hook method of self


class _Sim:
    """Enumerate paths of a hook body under the assumption `subject` is a K."""

    MAX_PATHS = 2000

    def __init__(self, func: Func, adts: ADTs, subject: str, hook: str, nested: Dict[str, ast.FunctionDef]):
        self.f = func
        self.adts = adts
        self.subject = subject
        self.hook = hook
        self.is_map = hook.startswith("map_")
        self.tt = TypeTests(adts, func.module, func.node)
        self.subject_aliases = {subject}
        self.cursor_aliases: Set[str] = set()
        self.nested = nested
        # s = sc._node  (Cursor_Rewrite idiom) / x = s
        for n in func.body_nodes():
            if isinstance(n, ast.Assign) and len(n.targets) == 1 and isinstance(n.targets[0], ast.Name):
                d = dotted(n.value)
                if d == f"{subject}._node":
                    self.subject_aliases.add(n.targets[0].id)
                    self.cursor_aliases.add(subject)

    # -- facts contributed by one statement/expression ------------------
    def _fields_in(self, node: ast.AST, subj: Set[str], curs: Set[str]) -> Set[str]:
        out: Set[str] = set()
        for n in ast.walk(node):
            if isinstance(n, ast.Attribute) and dotted(n.value) in subj and n.attr != "_node":
                out.add(n.attr)
            if isinstance(n, ast.Call) and isinstance(n.func, ast.Attribute) and dotted(n.func.value) in curs:
                out.add(n.func.attr)
        return out

    def _scan(self, node: ast.AST, st: "_St", subj: Optional[Set[str]] = None, depth: int = 0) -> None:
        """Record: fields of subject handed to own hooks; delegation; helper hand-off."""
        subj = self.subject_aliases if subj is None else subj
        curs = self.cursor_aliases
        has_hook_call = False
        # a call is a *helper hand-off* only as the whole value of a return or
        # of an assignment:  return self.index_start(e)  /  e = self.map_binop(e)
        direct_values = set()
        if isinstance(node, ast.Call):
            direct_values.add(node)
        if isinstance(node, ast.Assign) and isinstance(node.value, ast.Call):
            direct_values.add(node.value)
        for n in ast.walk(node):
            if not isinstance(n, ast.Call):
                continue
            fn = n.func
            if isinstance(fn, ast.Attribute):
                is_super = isinstance(fn.value, ast.Call) and dotted(fn.value.func) == "super"
                is_self = isinstance(fn.value, ast.Name) and fn.value.id == "self"
                if is_super and fn.attr in SELF_HOOKS:
                    if any(dotted(a) in subj for a in n.args):
                        if fn.attr == self.hook:
                            st.delegated = True
                    else:
                        has_hook_call = True
                elif is_self and fn.attr in SELF_HOOKS:
                    if any(dotted(a) in subj for a in n.args) and fn.attr == self.hook:
                        # self.map_e(e) on the node itself inside map_e: recursion, not a visit
                        pass
                    else:
                        has_hook_call = True
                elif is_self and any(dotted(a) in subj for a in n.args) and n in direct_values:
                    st.helper = fn.attr
            elif isinstance(fn, ast.Name) and fn.id in self.nested and depth < 2:
                # local helper: inline with parameter aliasing
                nd = self.nested[fn.id]
                ps = [a.arg for a in nd.args.args]
                sub2 = set(subj)
                for pname, arg in zip(ps, n.args):
                    if dotted(arg) in subj:
                        sub2.add(pname)
                for b in nd.body:
                    self._scan(b, st, sub2, depth + 1)
        if has_hook_call:
            st.visited |= self._fields_in(node, subj, curs)

    def _has_hook_call(self, node: ast.AST) -> bool:
        for n in ast.walk(node):
            if isinstance(n, ast.Call) and isinstance(n.func, ast.Attribute) and n.func.attr in SELF_HOOKS:
                v = n.func.value
                if isinstance(v, ast.Name) and v.id == "self":
                    return True
        return False

    def run(self, K: Tuple[str, str]) -> List[PathEnd]:
        self.K = K
        self.ends: List[PathEnd] = []
        self.npaths = 0
        self._block(self.f.node.body, _St(), 0, [])
        return self.ends

    def _end(self, st: "_St", how: str, line: int, ret: Optional[ast.expr] = None):
        copied = None
        if self.is_map and ret is not None:
            is_none = isinstance(ret, ast.Constant) and ret.value is None
            is_subj = dotted(ret) in self.subject_aliases or (
                isinstance(ret, ast.List) and len(ret.elts) == 1 and dotted(ret.elts[0]) in self.subject_aliases
            )
            if not is_none and not is_subj and not st.returns_local_unknown(ret):
                copied = self._fields_in(ret, self.subject_aliases, self.cursor_aliases) | st.copied_into_locals(ret)
        self.ends.append(PathEnd(set(st.visited), st.delegated, how, line, copied, st.helper))

    def _block(self, stmts: List[ast.stmt], st: "_St", i: int, cont: List[Tuple[List[ast.stmt], int]]):
        """Process stmts[i:], then the continuation stack."""
        self.npaths += 1
        if self.npaths > self.MAX_PATHS:
            raise AnalysisError(f"TRAV: path explosion in {self.f.qualname}")
        while True:
            if i >= len(stmts):
                if not cont:
                    self._end(st, "fall", getattr(self.f.node, "end_lineno", self.f.lineno))
                    return
                stmts, i = cont[-1]
                cont = cont[:-1]
                continue
            s = stmts[i]
            i += 1
            if isinstance(s, ast.Return):
                if s.value is not None:
                    self._scan(s.value, st)
                self._end(st, "return", s.lineno, s.value)
                return
            if isinstance(s, ast.Raise) or (isinstance(s, ast.Assert) and isinstance(s.test, ast.Constant) and not s.test.value):
                return  # failing path: nothing to require
            if isinstance(s, ast.If):
                t = self.tt.parse(s.test)
                takes: List[Tuple[List[ast.stmt], Set[str]]] = []
                if t is not None and t.subject in self.subject_aliases:
                    inside = self.K in t.ctors
                    pos = not t.negated
                    if inside and not t.guarded:
                        takes = [(s.body if pos else s.orelse, set())]
                    elif not inside and (pos or not t.guarded):
                        takes = [(s.orelse if pos else s.body, set())]
                    else:
                        takes = [(s.body, set()), (s.orelse, set())]
                    if t.guarded:
                        self._scan(s.test, st)
                else:
                    self._scan(s.test, st)
                    # `if not s.idx:` / `if len(s.idx) == 0:` — the field is empty on
                    # the true branch: nothing to visit there
                    vt, vf = self._vacuous(s.test)
                    takes = [(s.body, vt), (s.orelse, vf)]
                for br, vac in takes:
                    st2 = st.copy()
                    st2.visited |= vac
                    self._block(br, st2, 0, cont + [(stmts, i)])
                return
            if isinstance(s, (ast.For, ast.While)):
                hdr = s.iter if isinstance(s, ast.For) else s.test
                tmp = ast.Module(body=[ast.Expr(value=hdr)] + list(s.body), type_ignores=[])
                shadow = set()
                if isinstance(s, ast.For):
                    shadow = {n.id for n in ast.walk(s.target) if isinstance(n, ast.Name)} & self.subject_aliases
                if shadow:
                    # `for e in e.idx: self.do_e(e)` — the loop variable shadows the node
                    st2 = _St()
                    self._scan(tmp, st2, self.subject_aliases - shadow)
                    if st2.visited or self._has_hook_call(tmp):
                        st.visited |= self._fields_in(hdr, self.subject_aliases, self.cursor_aliases)
                else:
                    self._scan(tmp, st)
                continue
            if isinstance(s, ast.Try):
                self._block(s.body + s.orelse + s.finalbody, st.copy(), 0, cont + [(stmts, i)])
                for h in s.handlers:
                    self._block(h.body + s.finalbody, st.copy(), 0, cont + [(stmts, i)])
                return
            if isinstance(s, ast.With):
                self._block(s.body, st.copy(), 0, cont + [(stmts, i)])
                return
            if isinstance(s, (ast.FunctionDef, ast.ClassDef)):
                continue
            self._scan(s, st)
            if isinstance(s, ast.Assign) and len(s.targets) == 1 and isinstance(s.targets[0], ast.Name):
                tgt = s.targets[0].id
                if tgt in self.subject_aliases and dotted(s.value) not in self.subject_aliases:
                    # the node variable is overwritten by a computed value (e = self.f(e))
                    st.reassigned = True
                st.locals[tgt] = self._fields_in(s.value, self.subject_aliases, self.cursor_aliases) - st.visited_in(s.value, self)

    def _vacuous(self, test: ast.expr) -> Tuple[Set[str], Set[str]]:
        """(fields empty on the true branch, fields empty on the false branch)."""

        def fld(v) -> Optional[str]:
            if isinstance(v, ast.Attribute) and dotted(v.value) in self.subject_aliases:
                return v.attr
            return None

        t: Set[str] = set()
        f: Set[str] = set()
        if isinstance(test, ast.UnaryOp) and isinstance(test.op, ast.Not):
            a, b = self._vacuous(test.operand)
            return b, a
        if fld(test):
            f.add(fld(test))
        if isinstance(test, ast.Compare) and len(test.ops) == 1:
            l, r = test.left, test.comparators[0]
            if isinstance(l, ast.Call) and dotted(l.func) == "len" and l.args and fld(l.args[0]) and isinstance(r, ast.Constant) and r.value == 0:
                if isinstance(test.ops[0], ast.Eq):
                    t.add(fld(l.args[0]))
                elif isinstance(test.ops[0], (ast.Gt, ast.NotEq)):
                    f.add(fld(l.args[0]))
        return t, f


class _St:
    def __init__(self):
        self.visited: Set[str] = set()
        self.delegated = False
        self.helper: Optional[str] = None
        self.reassigned = False
        self.locals: Dict[str, Set[str]] = {}

    def copy(self) -> "_St":
        o = _St()
        o.visited = set(self.visited)
        o.delegated = self.delegated
        o.helper = self.helper
        o.reassigned = self.reassigned
        o.locals = {k: set(v) for k, v in self.locals.items()}
        return o

    def visited_in(self, node: ast.AST, sim: "_Sim") -> Set[str]:
        tmp = _St()
        sim._scan(node, tmp)
        return tmp.visited

    def copied_into_locals(self, ret: ast.expr) -> Set[str]:
        out: Set[str] = set()
        for n in ast.walk(ret):
            if isinstance(n, ast.Name) and n.id in self.locals:
                out |= self.locals[n.id]
        return out

    def returns_local_unknown(self, ret: ast.expr) -> bool:
        return False


def _trivial_prune(f: Func) -> bool:
    """`def do_e(self, e): pass` / `return e` / `return None` / docstring only."""
    body = [s for s in f.node.body if not (isinstance(s, ast.Expr) and isinstance(s.value, ast.Constant))]
    if not body:
        return True
    if len(body) == 1:
        s = body[0]
        if isinstance(s, ast.Pass):
            return True
        if isinstance(s, ast.Return):
            if s.value is None or isinstance(s.value, ast.Constant):
                return True
            params = f.params()
            if isinstance(s.value, ast.Name) and s.value.id in params:
                return True
            if isinstance(s.value, ast.List) and len(s.value.elts) == 1 and isinstance(s.value.elts[0], ast.Name) and s.value.elts[0].id in params:
                return True
    return False


def visitor_classes(ix: Index) -> List[Class]:
    return ix.subclasses_of(BASES)


def _own_hook(ix: Index, c: Class, hook: str) -> Optional[Func]:
    """The class's (or an intermediate repo ancestor's, excluding the two bases)
    definition of hook."""
    for k in ix.mro(c):
        if k.name in BASES:
            return None
        if hook in k.methods:
            return k.methods[hook]
    return None


# (class, hook, K|*, field|*) -> reason.  Confirmed by reading; one line each.
EXEMPT: Dict[Tuple[str, str, str, str], str] = {
    ("BuildEnv", "do_s", "*", "*"): "search cut-off: once the target statement has been passed (self.halt) nothing more is collected",
    ("DoSimplify", "map_s", "If", "orelse"): "branch with literal-true condition: orelse is deleted, not kept (DELGUARD checks the guard)",
    ("DoSimplify", "map_s", "If", "body"): "branch with literal-false condition: body is deleted, not kept (DELGUARD checks the guard)",
    ("DoSimplify", "map_s", "For", "body"): "loop with equal literal bounds is deleted together with its body (DELGUARD)",
    ("DoLiftAlloc", "map_s", "*", "idx"): "legacy autolift_alloc (no claim, Appendix A): indices are prefixed, not rewritten; the lifted buffer cannot occur in an index",
    ("DoLiftAlloc", "map_e", "*", "idx"): "legacy autolift_alloc (no claim, Appendix A): as above",
}
# Classes whose facts live in *data* positions only: skipping a control-position
# child (CONTROL_FIELDS) cannot lose a fact.
CONTROL_BLIND: Dict[str, str] = {
    "PrecisionAnalysis": "assigns precisions to numeric expressions; index expressions have none",
    "CheckFoldBuffer": "collects accesses to one numeric buffer; a numeric buffer cannot be read in an index, bound or condition",
}


def required_fields(adts: ADTs, K: str, hook: str, cares_e: bool, cares_t: bool) -> List[str]:
    L = adts["LoopIR"]
    req = []
    for fld in L.ctor(K).fields:
        if fld.type == "stmt":
            if hook in ("do_s", "map_s"):
                req.append(fld.name)
        elif fld.type in ("expr", "w_access"):
            if cares_e:
                req.append(fld.name)
        elif fld.type == "type":
            if cares_t and hook not in ("do_t", "map_t"):
                req.append(fld.name)
            elif hook in ("do_t", "map_t"):
                req.append(fld.name)
    return req


def analyse_hook(ix: Index, adts: ADTs, c: Class, hook: str, f: Func, cares_e: bool, cares_t: bool):
    """Yield (K, status, missing_fields, line, helper)."""
    params = f.params()
    if len(params) < 2:
        return
    subject = params[1]
    sumname = HOOK_SUM[hook]
    L = adts["LoopIR"]
    nested = {}
    for n in ast.walk(f.node):
        if isinstance(n, ast.FunctionDef) and n is not f.node:
            nested[n.name] = n
    for K in L.ctors_of(sumname):
        sim = _Sim(f, adts, subject, hook, nested)
        ends = sim.run(("LoopIR", K))
        req = set(required_fields(adts, K, hook, cares_e, cares_t))
        worst_missing: Set[str] = set()
        line = f.lineno
        status = "delegate" if ends else "fail"
        helper = None
        for e in ends:
            if e.delegated:
                continue
            if e.helper is not None:
                helper = e.helper
                if status not in ("prune",):
                    status = "helper"
                continue
            if e.copied is not None:
                miss = (req - e.visited) & e.copied  # replacement: only reused children matter
            else:
                miss = req - e.visited
            if miss:
                if len(miss) >= len(worst_missing):
                    worst_missing = miss
                    line = e.line
                status = "prune"
            elif status not in ("prune", "helper"):
                status = "visit" if e.copied is None else "replace"
        yield K, status, sorted(worst_missing), line, helper


def rule_trav(ctx, prop: str, only_classes: Optional[Set[str]] = None, rule_name: str = "TRAV") -> RuleResult:
    ix, adts = ctx.ix, ctx.adts
    res = RuleResult(rule_name)
    classes = visitor_classes(ix)
    n_over = 0
    for c in sorted(classes, key=lambda c: (c.file, c.qualname)):
        if only_classes is not None and c.name not in only_classes:
            continue
        hooks = {h: _own_hook(ix, c, h) for h in HOOK_SUM}
        own = {h: f for h, f in hooks.items() if f is not None}
        if not own:
            continue
        e_hook = own.get("do_e") or own.get("map_e")
        t_hook = own.get("do_t") or own.get("map_t")
        # does the class look at expressions / types at all?
        cares_t = t_hook is not None and not _trivial_prune(t_hook)
        cares_e = (e_hook is not None and not _trivial_prune(e_hook)) or (cares_t and not (e_hook is not None and _trivial_prune(e_hook)))
        for h, f in sorted(own.items()):
            if _trivial_prune(f):
                res.sample(f"{c.name}.{h}: declared total prune")
                continue
            n_over += 1
            res.analysed.append(f"{f.file}:{f.qualname}")
            nontriv = False
            for K, status, missing, line, helper in analyse_hook(ix, adts, c, h, f, cares_e, cares_t):
                res.instances += 1
                req = required_fields(adts, K, h, cares_e, cares_t)
                if req:
                    nontriv = True
                ok = status != "prune"
                if not ok:
                    # drop exempted fields
                    missing = [
                        m
                        for m in missing
                        if not any(k in EXEMPT for k in ((c.name, h, K, m), (c.name, h, K, "*"), (c.name, h, "*", m), (c.name, h, "*", "*")))
                        and not (c.name in CONTROL_BLIND and (K, m) in CONTROL_FIELDS)
                    ]
                    # control-position refinement: a skipped control field matters
                    # only to classes that look at control expressions
                    ok = not missing
                res.ob(ok)
                if not ok:
                    res.add(
                        Finding(
                            rule_name,
                            f.file,
                            line,
                            f.qualname,
                            f"{K}:{','.join(missing)}",
                            f"override {c.name}.{h} neither delegates to super().{h} nor visits child field(s) {missing} of LoopIR.{K} on some path: "
                            f"everything below is silently skipped",
                        )
                    )
                elif req:
                    res.sample(f"{c.name}.{h} on {K}: {status} (required {req})")
            if nontriv:
                res.nontrivial += 1
    res.notes.append(f"{len(classes)} visitor subclasses, {n_over} non-trivial hook overrides")
    return res


def _reads_expr_fields_via_hooks(own: Dict[str, Func]) -> bool:
    for f in own.values():
        for n in f.body_nodes():
            if isinstance(n, ast.Call) and isinstance(n.func, ast.Attribute) and isinstance(n.func.value, ast.Name) and n.func.value.id == "self" and n.func.attr in ("do_e", "map_e"):
                return True
    return False


BASE_EXEMPT = {
    ("LoopIR_Do", "do_t", "Tensor", "type"): "Tensor.type is the scalar base type (shape() asserts no nesting): it has no children",
    ("LoopIR_Do", "do_s", "Free", "type"): "Free nodes exist only after MemoryAnalysis (backend); no LoopIR_Do runs on them",
}


def rule_travbase(ctx, prop: str) -> RuleResult:
    """The template visitors themselves visit every child field of every constructor."""
    ix, adts = ctx.ix, ctx.adts
    res = RuleResult("TRAVBASE")
    m = ix.module("src/exo/core/LoopIR.py")
    ms = ix.module("src/exo/rewrite/LoopIR_scheduling.py")
    targets = [(m.cls("LoopIR_Rewrite"), h) for h in ("map_s", "map_e", "map_t", "map_w_access")]
    targets += [(m.cls("LoopIR_Do"), h) for h in ("do_s", "do_e", "do_t", "do_w_access")]
    targets += [(ms.cls("Cursor_Rewrite"), "map_s")]
    for c, h in targets:
        f = c.methods.get(h)
        if f is None:
            raise AnalysisError(f"anchor vanished: {c.name}.{h}")
        res.analysed.append(f"{f.file}:{f.qualname}")
        res.nontrivial += 1
        for K, status, missing, line, helper in analyse_hook(ix, adts, c, h, f, True, True):
            res.instances += 1
            missing = [x for x in missing if (c.name, h, K, x) not in BASE_EXEMPT]
            ok = status != "prune" or not missing
            res.ob(ok)
            if not ok:
                res.add(
                    Finding(
                        "TRAVBASE",
                        f.file,
                        line,
                        f.qualname,
                        f"{K}:{','.join(missing)}",
                        f"template visitor {c.name}.{h} does not visit child field(s) {missing} of LoopIR.{K}: every pass built on it "
                        f"(Alpha_Rename, SubstArgs, DoPartialEval, effect collectors ...) silently skips them",
                    )
                )
            else:
                res.sample(f"{c.name}.{h} on {K}: {status}")
    # rebuild clause (LoopIR_Rewrite): a case computes `new_X = self.map_*(n.X)` per child and rebuilds the
    # node only `if <some new_X is there>`.  A new_X left out of that test is computed and then thrown away
    # whenever it is the ONLY child that changed (a loop whose lower bound alone mentions the substituted
    # variable keeps the old variable: unroll_loop / partial_eval leave `seq(i, 8)` with `i` unbound); one left
    # out of `update(...)` is always thrown away.
    rw = m.cls("LoopIR_Rewrite")
    n_rebuild = 0
    for h in ("map_s", "map_e", "map_t", "map_w_access"):
        f = rw.methods.get(h)
        if f is None:
            continue
        for n in f.body_nodes():
            if not (isinstance(n, ast.If) and "isinstance" in ast.unparse(n.test)):
                continue
            news = []
            for st in n.body:
                if isinstance(st, ast.Assign) and len(st.targets) == 1 and isinstance(st.targets[0], ast.Name) and st.targets[0].id.startswith("new_") and isinstance(st.value, ast.Call) and (last_name(st.value) or "").startswith(("map_", "_map_")):
                    news.append(st.targets[0].id)
            if not news:
                continue
            gate = [st for st in n.body if isinstance(st, ast.If)]
            if not gate:
                continue
            n_rebuild += 1
            res.instances += 1
            res.nontrivial += 1
            tested = {k.id for k in ast.walk(gate[0].test) if isinstance(k, ast.Name)}
            used = {k.id for st in gate[0].body for k in ast.walk(st) if isinstance(k, ast.Name)}
            miss_t = [v for v in news if v not in tested]
            miss_u = [v for v in news if v not in used]
            ok = not miss_t and not miss_u
            res.ob(ok)
            if not ok:
                ctor = ast.unparse(n.test)[:60]
                res.add(Finding("TRAVBASE", f.file, gate[0].lineno, f.qualname, f"rebuild:{','.join(miss_t + miss_u)}",
                                f"LoopIR_Rewrite.{h}, case `{ctor}`: " + (f"{miss_t} computed but not part of the change test `{ast.unparse(gate[0].test)[:60]}`" if miss_t else f"{miss_u} computed but not passed to update(...)")
                                + ": the rewritten child is dropped when it is the only one that changed — a substitution (unroll_loop, divide_loop's tail, partial_eval, inline) leaves the old variable in a "
                                "loop's lower bound after removing its binder"))
    if n_rebuild < 10:
        raise AnalysisError(f"TRAVBASE: expected >= 10 rebuild gates in LoopIR_Rewrite, found {n_rebuild}")
    return res


def rule_bypass(ctx, prop: str) -> RuleResult:
    """A class that overrides hook H must not hand a *child* to super().H(child):
    the child's own top node then escapes the override (it is dispatched by the
    base implementation, only grandchildren come back to the override)."""
    ix, adts = ctx.ix, ctx.adts
    res = RuleResult("BYPASS")
    for c in sorted(visitor_classes(ix), key=lambda c: (c.file, c.qualname)):
        own = {h: _own_hook(ix, c, h) for h in HOOK_SUM}
        own = {h: f for h, f in own.items() if f is not None and not _trivial_prune(f)}
        for mname, f in sorted(c.methods.items()):
            for n in f.body_nodes():
                if not (isinstance(n, ast.Call) and isinstance(n.func, ast.Attribute)):
                    continue
                v = n.func.value
                if not (isinstance(v, ast.Call) and dotted(v.func) == "super"):
                    continue
                h = n.func.attr
                if h not in HOOK_SUM:
                    continue
                res.instances += 1
                if h == mname:
                    res.ob(True)
                    continue  # ordinary delegation from inside the hook itself
                res.nontrivial += 1
                bad = h in own
                res.ob(not bad)
                if bad:
                    res.add(
                        Finding(
                            "BYPASS",
                            f.file,
                            n.lineno,
                            f.qualname,
                            norm_stmt(n),
                            f"{c.name} overrides {h} but {mname} passes a child to super().{h}(...): when that child itself is a node the override "
                            f"handles (e.g. the right-hand side is directly a read of the tracked buffer) it is never seen",
                        )
                    )
    return res
