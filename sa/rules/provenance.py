"""C10 / C11 / C19 (and FWDPRESENT for C06): CFGMOD, EQVGATE, UFOWN, EQVSHAPE,
NOPROV, FWDPRESENT, ANNOTONLY, PREDSONLY (DESIGN §3.13, §3.19)."""
from __future__ import annotations

import ast
from typing import Dict, List, Optional, Set, Tuple

from ..flow import always_raises
from ..index import AnalysisError, Func, Index, dotted, last_name, norm_stmt, parent
from ..mustflow import run_must
from ..report import Finding, RuleResult

S = "src/exo/rewrite/LoopIR_scheduling.py"
AS = "src/exo/API_scheduling.py"
API = "src/exo/API.py"
PE = "src/exo/core/proc_eqv.py"

CFG_CHECKS = {"Check_DeleteConfigWrite", "Check_ExtendEqv"}


def _returns(f: Func) -> List[ast.Return]:
    return [n for n in f.body_nodes() if isinstance(n, ast.Return) and n.value is not None]


def rule_cfgmod(ctx, prop: str) -> RuleResult:
    ix = ctx.ix
    res = RuleResult("CFGMOD")
    m = ix.module(S)
    # (a) primitives that touch configuration writes / callees
    touching: List[Tuple[Func, str]] = []
    for f in m.funcs.values():
        if "." in f.qualname or not f.name.startswith("Do"):
            continue
        why = None
        for n in f.all_nodes():
            if isinstance(n, ast.Call) and dotted(n.func) == "LoopIR.WriteConfig":
                why = "constructs LoopIR.WriteConfig"
            if isinstance(n, ast.Call) and isinstance(n.func, ast.Attribute) and n.func.attr == "_replace":
                v = n.func.value
                if isinstance(v, ast.Call) and last_name(v) == "_child_node" and v.args and isinstance(v.args[0], ast.Constant) and v.args[0].value == "f":
                    why = "replaces the callee of a Call"
        if f.name == "DoDeleteConfig":
            why = "deletes a configuration write"
        if why:
            touching.append((f, why))
    if len(touching) < 4:
        raise AnalysisError(f"CFGMOD: expected >= 4 configuration-touching primitives, found {[f.name for f, _ in touching]}")
    three_valued: Set[str] = set()
    for f, why in touching:
        res.instances += 1
        res.nontrivial += 1
        res.analysed.append(f"{S}:{f.qualname}")
        cfgvars = set()
        for n in f.body_nodes():
            if isinstance(n, ast.Assign) and isinstance(n.value, ast.Call) and last_name(n.value) in CFG_CHECKS and isinstance(n.targets[0], ast.Name):
                cfgvars.add(n.targets[0].id)
        ok = bool(cfgvars)
        res.ob(ok)
        if not ok:
            res.add(Finding("CFGMOD", S, f.lineno, f.qualname, "no-config-check", f"{f.name} {why} but never obtains the set of possibly-changed fields from Check_DeleteConfigWrite/Check_ExtendEqv"))
            continue
        rets = _returns(f)
        good = bool(rets)
        for r in rets:
            v = r.value
            if not (isinstance(v, ast.Tuple) and len(v.elts) == 3 and isinstance(v.elts[2], ast.Name) and v.elts[2].id in cfgvars):
                good = False
        res.ob(good)
        res.sample(f"{f.name}: {why}; returns (ir, fwd, {sorted(cfgvars)})")
        if good:
            three_valued.add(f.name)
        else:
            res.add(Finding("CFGMOD", S, f.lineno, f.qualname, "return-cfg", f"{f.name} computes the changed-field set but does not return it as third component on every return"))
    # (b) API_scheduling threads it into the derivation
    am = ix.module(AS)
    n_thread = 0
    for f in am.funcs.values():
        for n in f.body_nodes():
            if isinstance(n, ast.Assign) and isinstance(n.value, ast.Call) and last_name(n.value) in {f.name for f, _ in touching}:
                n_thread += 1
                res.instances += 1
                res.nontrivial += 1
                tg = n.targets[0]
                ok = isinstance(tg, ast.Tuple) and len(tg.elts) == 3 and all(isinstance(e, ast.Name) for e in tg.elts)
                cfg = tg.elts[2].id if ok else None
                irv = tg.elts[0].id if ok else None
                threaded = False
                if ok:
                    for c in f.body_nodes():
                        if isinstance(c, ast.Call) and dotted(c.func) == "Procedure" and c.args and isinstance(c.args[0], ast.Name) and c.args[0].id == irv:
                            for kw in c.keywords:
                                if kw.arg == "_mod_config" and isinstance(kw.value, ast.Name) and kw.value.id == cfg:
                                    threaded = True
                res.ob(threaded)
                res.sample(f"{f.qualname}: {last_name(n.value)} -> _mod_config={cfg}")
                if not threaded:
                    res.add(Finding("CFGMOD", AS, n.lineno, f.qualname, f"{last_name(n.value)}->_mod_config", f"the changed-field set returned by {last_name(n.value)} does not reach Procedure(..., _mod_config=...): the derivation is recorded as changing no configuration field"))
    if n_thread < 4:
        raise AnalysisError(f"CFGMOD: expected >= 4 API call sites of configuration primitives, found {n_thread}")
    # (c) Procedure.__init__ -> derive_proc(..., frozenset(_mod_config))
    init = ix.func(API, "Procedure.__init__")
    res.analysed.append(f"{API}:Procedure.__init__")
    ok = False
    for n in init.body_nodes():
        if isinstance(n, ast.Call) and last_name(n) == "derive_proc" and len(n.args) >= 3:
            if "_mod_config" in ast.unparse(n.args[2]):
                ok = True
    res.instances += 1
    res.nontrivial += 1
    res.ob(ok)
    if not ok:
        res.add(Finding("CFGMOD", API, init.lineno, init.qualname, "derive_proc<-_mod_config", "Procedure.__init__ does not hand _mod_config to derive_proc: every derivation is recorded as strict equivalence"))
    res.floor = 9
    return res


def rule_eqvgate(ctx, prop: str) -> RuleResult:
    ix = ctx.ix
    res = RuleResult("EQVGATE")
    f = ix.func(S, "DoCallSwap")
    res.analysed.append(f"{S}:DoCallSwap")

    def is_edit(n):
        return isinstance(n, ast.Call) and isinstance(n.func, ast.Attribute) and n.func.attr in ("_replace", "_insert", "_delete", "_move", "_wrap")

    an = run_must(f.node, is_edit)
    sites = an.site_facts()
    if not sites:
        raise AnalysisError("anchor vanished: edit in DoCallSwap")
    # the variable tested by the gate comes from get_strictest_eqv_proc
    gate_var = key_var = None
    for n in f.body_nodes():
        if isinstance(n, ast.Assign) and isinstance(n.value, ast.Call) and last_name(n.value) == "get_strictest_eqv_proc" and isinstance(n.targets[0], ast.Tuple):
            gate_var = n.targets[0].elts[0].id
            key_var = n.targets[0].elts[1].id
            a = [ast.unparse(x) for x in n.value.args]
            res.instances += 1
            ok = len(a) == 2 and a[0].endswith(".f")
            res.ob(ok)
            if not ok:
                res.add(Finding("EQVGATE", S, n.lineno, "DoCallSwap", "eqv-args", "get_strictest_eqv_proc must compare the *current callee* with the new procedure"))
    if gate_var is None:
        raise AnalysisError("anchor vanished: get_strictest_eqv_proc in DoCallSwap")
    for n, facts in sites:
        res.instances += 1
        res.nontrivial += 1
        ok = f"guard:{gate_var}" in facts and "call:get_strictest_eqv_proc" in facts
        res.ob(ok)
        res.sample(f"DoCallSwap edit at line {n.lineno}: dominated by raising guard on `{gate_var}`: {ok}")
        if not ok:
            res.add(Finding("EQVGATE", S, n.lineno, "DoCallSwap", "edit<-eqv-guard", "the callee is swapped on a path that did not pass `if not is_eqv: raise`: call_eqv accepts procedures of different origin"))
        ok2 = "call:Check_ExtendEqv" in facts
        res.ob(ok2)
        if not ok2:
            res.add(Finding("EQVGATE", S, n.lineno, "DoCallSwap", "edit<-Check_ExtendEqv", "the swap is not preceded by Check_ExtendEqv"))
    # polarity of the guard: `if not is_eqv: raise`
    pol = False
    for n in f.body_nodes():
        if isinstance(n, ast.If) and always_raises(n.body) and isinstance(n.test, ast.UnaryOp) and isinstance(n.test.op, ast.Not) and dotted(n.test.operand) == gate_var:
            pol = True
    res.instances += 1
    res.ob(pol)
    if not pol:
        res.add(Finding("EQVGATE", S, f.lineno, "DoCallSwap", "guard-polarity", f"the raising guard must be `if not {gate_var}`"))
    # configkeys reach Check_ExtendEqv
    ok = any(isinstance(n, ast.Call) and last_name(n) == "Check_ExtendEqv" and any(isinstance(a, ast.Name) and a.id == key_var for a in n.args) for n in f.body_nodes())
    res.instances += 1
    res.ob(ok)
    if not ok:
        res.add(Finding("EQVGATE", S, f.lineno, "DoCallSwap", "keys->Check_ExtendEqv", "the configuration keys under which the two callees differ are not handed to Check_ExtendEqv"))
    res.floor = 4
    return res


def rule_ufown(ctx, prop: str) -> RuleResult:
    ix = ctx.ix
    res = RuleResult("UFOWN")
    stores = {"_UF_Unv", "_UF_Strict", "_UF_Unv_key"}
    for m in ix.modules.values():
        for n in ast.walk(m.tree):
            if isinstance(n, ast.Name) and n.id in stores:
                res.instances += 1
                ok = m.rel == PE
                res.ob(ok)
                if not ok:
                    res.add(Finding("UFOWN", m.rel, n.lineno, "<module>", n.id, f"the equivalence store `{n.id}` is touched outside core/proc_eqv.py: equivalences can be asserted without a recorded derivation"))
            if isinstance(n, ast.ImportFrom) and n.module and n.module.endswith("proc_eqv"):
                for a in n.names:
                    if a.name in stores or a.name == "*" and False:
                        res.instances += 1
                        res.ob(False)
                        res.add(Finding("UFOWN", m.rel, n.lineno, "<module>", a.name, "equivalence store imported outside proc_eqv"))
    writers = {"assert_eqv_proc", "derive_proc", "decl_new_proc", "new_uf_by_eqv_key"}
    allowed = {(API, "Procedure.__init__"), (API, "Procedure.unsafe_assert_eq")}
    n_calls = 0
    for f in ix.all_funcs():
        for n in f.body_nodes():
            if isinstance(n, ast.Call) and last_name(n) in writers:
                n_calls += 1
                res.instances += 1
                res.nontrivial += 1
                ok = f.file == PE or (f.file, f.qualname) in allowed
                res.ob(ok)
                res.sample(f"{f.file}:{f.qualname} calls {last_name(n)}")
                if not ok:
                    res.add(Finding("UFOWN", f.file, n.lineno, f.qualname, last_name(n), f"{last_name(n)} called outside Procedure.__init__/unsafe_assert_eq: an equivalence enters the relation without a derivation step"))
    if n_calls < 4:
        raise AnalysisError(f"UFOWN: expected >= 4 calls of equivalence writers, found {n_calls}")
    res.floor = 10
    return res


def rule_eqvshape(ctx, prop: str) -> RuleResult:
    """Per-field closure: polarity and structure of the union-find bookkeeping."""
    ix = ctx.ix
    res = RuleResult("EQVSHAPE")
    m = ix.module(PE)

    def need(cond: bool, fn: Func, key: str, msg: str, sample: str = ""):
        res.instances += 1
        res.nontrivial += 1
        res.ob(cond)
        if sample:
            res.sample(sample)
        if not cond:
            res.add(Finding("EQVSHAPE", PE, fn.lineno, fn.qualname, key, msg))

    ae = m.func("assert_eqv_proc")
    res.analysed.append(f"{PE}:assert_eqv_proc")
    # (1) per-key union only for keys NOT disturbed by the step
    perkey = False
    for n in ae.body_nodes():
        if isinstance(n, ast.For) and "_UF_Unv_key" in ast.unparse(n.iter) and ".items()" in ast.unparse(n.iter):
            for k in n.body:
                if isinstance(k, ast.If) and isinstance(k.test, ast.Compare) and isinstance(k.test.ops[0], ast.NotIn) and "config_set" in ast.unparse(k.test.comparators[0]):
                    if any(isinstance(x, ast.Call) and last_name(x) == "union" for s in k.body for x in ast.walk(s)) and not k.orelse:
                        perkey = True
    need(perkey, ae, "perkey-union", "assert_eqv_proc must union in the per-field relation exactly for `key not in config_set`: otherwise a step that disturbed field K still makes the procedures K-equivalent",
         "assert_eqv_proc: per-key union guarded by `key not in config_set`")
    # (2) strict union only when nothing was disturbed
    strict = False
    for n in ae.body_nodes():
        if isinstance(n, ast.If) and isinstance(n.test, ast.UnaryOp) and isinstance(n.test.op, ast.Not) and dotted(n.test.operand) == "config_set":
            if any(isinstance(x, ast.Call) and last_name(x) == "union" and "_UF_Strict" in ast.unparse(x.func) for s in n.body for x in ast.walk(s)):
                strict = True
    strict_elsewhere = [n for n in ae.body_nodes() if isinstance(n, ast.Call) and last_name(n) == "union" and "_UF_Strict" in ast.unparse(n.func)]
    need(strict and len(strict_elsewhere) == 1, ae, "strict-union", "the strict relation must be extended only under `if not config_set`")
    # (3) new keys are materialised *before* the unions of this step, each as its own private copy
    #     of the universal relation.  Materialisation site = any store into _UF_Unv_key, wherever
    #     it lives in the module (helper names are not anchors).
    def fresh_copy(v: ast.AST) -> bool:
        return isinstance(v, ast.Call) and isinstance(v.func, ast.Attribute) and v.func.attr == "copy_entire_UF" and dotted(v.func.value) == "_UF_Unv"

    sites = []  # (func, node, ok, how)
    for fn in m.funcs.values():
        if not isinstance(fn.node, ast.FunctionDef):
            continue
        for n in fn.body_nodes():
            if isinstance(n, (ast.Assign, ast.AugAssign)):
                tgts = n.targets if isinstance(n, ast.Assign) else [n.target]
                for t in tgts:
                    if isinstance(t, ast.Subscript) and dotted(t.value) == "_UF_Unv_key":
                        sites.append((fn, n, isinstance(n, ast.Assign) and fresh_copy(n.value), "item store"))
                    if isinstance(t, ast.Name) and t.id == "_UF_Unv_key":
                        sites.append((fn, n, False, "rebinding"))
            if isinstance(n, ast.Call) and isinstance(n.func, ast.Attribute) and dotted(n.func.value) == "_UF_Unv_key" and n.func.attr in ("update", "setdefault", "__setitem__"):
                ok_u = False
                if n.func.attr == "update" and len(n.args) == 1 and isinstance(n.args[0], ast.DictComp):
                    ok_u = fresh_copy(n.args[0].value)  # evaluated once per key
                if n.func.attr in ("setdefault", "__setitem__") and len(n.args) == 2:
                    ok_u = fresh_copy(n.args[1])
                sites.append((fn, n, ok_u, n.func.attr))
    if not sites:
        raise AnalysisError("anchor vanished: no store into _UF_Unv_key in proc_eqv.py")
    for fn, n, ok_s, how in sites:
        need(ok_s, fn, "copy-from-universal",
             f"a per-field relation must start as its OWN copy of the universal relation (`_UF_Unv_key[k] = _UF_Unv.copy_entire_UF()` evaluated per key); "
             f"`{ast.unparse(n)[:70]}` ({how}) does not guarantee that — relations of fields first seen in the same step would share one object and a later step "
             f"disturbing only one of them is recorded as exact",
             f"{fn.qualname}: `{ast.unparse(n)[:60]}` private copy: {ok_s}")
    mat_funcs = {fn.node.name for fn, _, _, _ in sites}
    grew = True
    while grew:  # helpers that reach a materialisation site through other helpers
        grew = False
        for fn in m.funcs.values():
            if isinstance(fn.node, ast.FunctionDef) and fn.node.name not in mat_funcs and fn is not ae:
                if any(isinstance(n, ast.Call) and last_name(n) in mat_funcs for n in fn.body_nodes()):
                    mat_funcs.add(fn.node.name)
                    grew = True
    first_union = min((n.lineno for n in ae.body_nodes() if isinstance(n, ast.Call) and last_name(n) == "union"), default=None)
    new_key = [n.lineno for n in ae.body_nodes() if isinstance(n, ast.Call) and last_name(n) in mat_funcs]
    new_key += [n.lineno for fn, n, _, _ in sites if fn is ae]
    need(bool(new_key) and first_union is not None and max(new_key) < first_union, ae, "newkey-before-union",
         "a relation for a newly seen field must be copied from the universal one before this step's unions are applied to it (else the disturbing step itself is inherited)")
    from .. import pat

    nk = ae
    cp = m.cls("_UnionFind").methods.get("copy_entire_UF")
    need(cp is not None and pat.has("for _M_v, _M_p in self.lookup.items():\n    _M_c.lookup[_M_v] = _M_p", cp.node), cp or nk, "copy-all-links", "copy_entire_UF must copy every parent link")
    # (4) every proc is a node of every relation
    dn = m.func("decl_new_proc")
    b1 = pat.find("_UF_Strict.new_node(_M_p)", dn.node)
    okd = b1 is not None and pat.has("_UF_Unv.new_node(_M_p)", dn.node, b1[1]) and pat.has("for _M_u in _UF_Unv_key.values():\n    _M_u.new_node(_M_p)", dn.node, b1[1])
    need(okd, dn, "decl-all", "a new procedure must be added to the strict, universal and every per-field relation")
    dp = m.func("derive_proc")
    calls = [last_name(n) for n in sorted((n for n in dp.body_nodes() if isinstance(n, ast.Call)), key=lambda n: n.lineno)]
    need(calls[:2] == ["decl_new_proc", "assert_eqv_proc"], dp, "derive=decl+assert", "derive_proc must declare the new proc and then assert its equivalence with the origin under the given field set")
    ok = False
    ps = dp.params()
    for n in dp.body_nodes():
        if isinstance(n, ast.Call) and last_name(n) == "assert_eqv_proc":
            a = [ast.unparse(x) for x in n.args]
            ok = len(ps) == 3 and a == ps
        if isinstance(n, ast.Call) and last_name(n) == "decl_new_proc":
            ok = ok if len(n.args) == 1 and ast.unparse(n.args[0]) == ps[1] else False
    need(ok, dp, "derive-args", "derive_proc must declare its second parameter and forward (orig, new, field-set) unchanged")
    # (5) queries
    gs = m.func("get_strictest_eqv_proc")
    res.analysed.append(f"{PE}:get_strictest_eqv_proc")
    g1 = pat.find("_M_ok = _UF_Unv.check_eqv(_M_a, _M_b)", gs.node)
    ok = False
    if g1 is not None:
        b = g1[1]
        for n, bb in pat.find_all("{_M_k for _M_k, _M_u in _UF_Unv_key.items() if not _M_u.check_eqv(_M_a, _M_b)}", gs.node, b):
            # computed only when universally equivalent
            p_ = parent(n)
            while p_ is not None and not isinstance(p_, ast.If):
                p_ = parent(p_)
            if isinstance(p_, ast.If) and ast.unparse(p_.test) == ast.unparse(b["_M_ok"]):
                ok = True
        ret = [n for n in gs.body_nodes() if isinstance(n, ast.Return) and isinstance(n.value, ast.Tuple) and len(n.value.elts) == 2 and ast.unparse(n.value.elts[0]) == ast.unparse(b["_M_ok"])]
        ok = ok and bool(ret)
    need(ok, gs, "keys=not-eqv", "get_strictest_eqv_proc: is_eqv is connectivity in the universal relation; the reported keys are exactly the fields whose relation does NOT connect the two procedures, computed only when is_eqv")
    ce = m.func("check_eqv_proc")
    c1 = pat.find("if not _UF_Unv.check_eqv(_M_a, _M_b):\n    return False", ce.node)
    ok = c1 is not None and pat.has("all((_M_u.check_eqv(_M_a, _M_b) for _M_k, _M_u in _UF_Unv_key.items() if _M_k not in _M_cs))", ce.node, c1[1])
    need(ok, ce, "check=all-nonexcluded", "check_eqv_proc must require connectivity in the universal and in every non-excluded per-field relation")
    # (5b) the representative under which per-procedure analyses are cached must be taken in the
    #      STRICT relation: procedures equivalent only modulo configuration differ in exactly
    #      the configuration effects those analyses compute
    gr = m.func("get_repr_proc")
    finds = [n for n in gr.body_nodes() if isinstance(n, ast.Call) and isinstance(n.func, ast.Attribute) and n.func.attr == "find"]
    repr_callers = [fn for fn in ix.all_funcs() if fn.file.startswith("src/exo/") and fn is not gr and any(isinstance(k, ast.Call) and last_name(k) == "get_repr_proc" for k in fn.body_nodes())]
    if repr_callers:
      need(bool(finds) and all(dotted(n.func.value) == "_UF_Strict" for n in finds), gr, "repr-strict",
           "get_repr_proc must return the representative of the strict relation: with the universal one a callee derived by delete_config/write_config is analysed as its origin "
           "(its configuration writes invented or forgotten) and delete_config / call_eqv accept changes of a field that is read later")
    # (6) union-find core
    uf = m.cls("_UnionFind")
    un = uf.methods["union"]
    u1 = pat.find("_M_p1, _M_p2 = (self.find(_M_v1), self.find(_M_v2))", un.node)
    ok = False
    if u1 is not None:
        b = u1[1]
        ok = pat.has("self.lookup[_M_p2] = _M_p1", un.node, b) or pat.has("self.lookup[_M_p1] = _M_p2", un.node, b)
        ok = ok and ast.unparse(b["_M_v1"]) != ast.unparse(b["_M_v2"])
    need(ok, un, "union-roots", "union must link the *roots* of its two arguments")
    ck = uf.methods["check_eqv"]
    k1 = pat.find("_M_p1, _M_p2 = (self.find(_M_v1), self.find(_M_v2))", ck.node)
    ok = k1 is not None and pat.has("return _M_p1 is _M_p2", ck.node, k1[1]) and ast.unparse(k1[1]["_M_v1"]) != ast.unparse(k1[1]["_M_v2"])
    need(ok, ck, "check-roots", "check_eqv must compare the two roots for identity")
    # (6b) nodes of the relation are LoopIR.proc objects, whose generated __eq__ is STRUCTURAL (and whose
    #      hash is the identity): every comparison between nodes / representatives inside the union-find
    #      must be `is` / `is not`.  With `==` two classes whose roots merely look alike (the same
    #      add_assertion applied twice, transpose twice, write_config + delete_config) are reported
    #      connected although no recorded step connects them.
    for mname, fn in sorted(uf.methods.items()):
        nodes_ = set(a for a in fn.params() if a != "self")
        changed = True
        while changed:
            changed = False
            for n in fn.body_nodes():
                if not isinstance(n, ast.Assign):
                    continue
                tg = n.targets[0]
                pairs = list(zip(tg.elts, n.value.elts)) if isinstance(tg, ast.Tuple) and isinstance(n.value, ast.Tuple) and len(tg.elts) == len(n.value.elts) else [(tg, n.value)]
                for t, v in pairs:
                    if not isinstance(t, ast.Name) or t.id in nodes_:
                        continue
                    from_find = isinstance(v, ast.Call) and isinstance(v.func, ast.Attribute) and v.func.attr == "find"
                    from_lookup = isinstance(v, ast.Subscript) and ast.unparse(v.value).endswith("lookup")
                    from_node = isinstance(v, ast.Name) and v.id in nodes_
                    if from_find or from_lookup or from_node:
                        nodes_.add(t.id)
                        changed = True
        for n in fn.body_nodes():
            if isinstance(n, ast.Compare):
                sides = [n.left] + list(n.comparators)
                for i_, op in enumerate(n.ops):
                    a_, b_ = sides[i_], sides[i_ + 1]
                    if isinstance(a_, ast.Name) and a_.id in nodes_ and isinstance(b_, ast.Name) and b_.id in nodes_:
                        okc = isinstance(op, (ast.Is, ast.IsNot))
                        need(okc, fn, f"identity:{mname}:{ast.unparse(n)}",
                             f"`{ast.unparse(n)}` compares two nodes of the equivalence relation with a structural operator: LoopIR.proc.__eq__ compares contents, so two distinct "
                             f"procedures that merely look alike (no recorded derivation between them) are treated as one representative and reported equivalent",
                             f"_UnionFind.{mname}: `{ast.unparse(n)}` identity comparison: {okc}")
    fd = uf.methods["find"]
    ok = pat.has("while _M_v is not _M_p:\n    _M__", fd.node) and any(isinstance(n, ast.Return) for n in fd.body_nodes())
    need(ok, fd, "find-loop", "find must follow parent links until a self-parent root")
    res.floor = 15
    return res


def _procedure_calls(f: Func):
    for n in f.body_nodes():
        if isinstance(n, ast.Call) and dotted(n.func) in ("Procedure", "api.Procedure", "API.Procedure"):
            yield n


NOPROV_EXPECT_NONE = {
    (API, "proc"): "a freshly parsed procedure is a new origin",
    (API, "Procedure.partial_eval"): "signature changed (arguments removed)",
    (API, "Procedure.transpose"): "signature changed (argument dimensions permuted)",
    (API, "Procedure.add_assertion"): "admissible inputs narrowed: assertions extended",
    (AS, "extract_subproc#subproc"): "the extracted sub-procedure is a new origin",
    ("src/exo/API_cursors.py", "CallCursor.subproc"): "view of an existing callee; its LoopIR.proc is already registered (decl_new_proc is idempotent)",
}


def rule_noprov(ctx, prop: str) -> RuleResult:
    ix = ctx.ix
    res = RuleResult("NOPROV")
    n_with = 0
    for f in ix.all_funcs():
        if not f.file.startswith("src/exo/") or f.file.startswith(("src/exo/platforms", "src/exo/libs")):
            continue
        for c in _procedure_calls(f):
            res.instances += 1
            res.nontrivial += 1
            prov = None
            for kw in c.keywords:
                if kw.arg == "_provenance_eq_Procedure":
                    prov = kw.value
            if len(c.args) >= 2:
                prov = c.args[1]
            has = prov is not None and not (isinstance(prov, ast.Constant) and prov.value is None)
            key = (f.file, f.qualname)
            key2 = None
            p = parent(c)
            if isinstance(p, ast.Assign) and isinstance(p.targets[0], ast.Name):
                key2 = (f.file, f"{f.qualname}#{p.targets[0].id}")
            expect_none = key in NOPROV_EXPECT_NONE or (key2 in NOPROV_EXPECT_NONE if key2 else False)
            if not expect_none and key2 is not None:
                # the table names the site by the local it is assigned to; if that local was renamed, the
                # site is still recognisable as THE one call of this function that carries no provenance
                # (one table entry for the function, one such call)
                ents = [k for k in NOPROV_EXPECT_NONE if k[0] == f.file and k[1].startswith(f.qualname + "#")]
                tgt_names = {pp.targets[0].id for cc in _procedure_calls(f) for pp in [parent(cc)] if isinstance(pp, ast.Assign) and isinstance(pp.targets[0], ast.Name)}
                if len(ents) == 1 and ents[0][1].split("#", 1)[1] not in tgt_names and not has:
                    lacking = [cc for cc in _procedure_calls(f) if not any(kw.arg == "_provenance_eq_Procedure" for kw in cc.keywords) and len(cc.args) < 2]
                    if len(lacking) == 1 and lacking[0] is c:
                        expect_none = True
                        key2 = ents[0]
            if key2 and (f.file, f"{f.qualname}#subproc") in NOPROV_EXPECT_NONE and key2[1].endswith("#proc"):
                expect_none = False
            if expect_none:
                ok = not has
                res.ob(ok)
                res.sample(f"{f.qualname}: Procedure(...) without provenance ({NOPROV_EXPECT_NONE.get(key) or NOPROV_EXPECT_NONE.get(key2)})")
                if not ok:
                    res.add(Finding("NOPROV", f.file, c.lineno, f.qualname, "provenance-on-signature-change", f"{f.qualname} changes the signature / admissible inputs but records the result as derived from the original: call_eqv would accept it as a substitute"))
            else:
                n_with += 1
                ok = has
                res.ob(ok)
                if not ok:
                    res.add(Finding("NOPROV", f.file, c.lineno, f.qualname, "missing-provenance", f"{f.qualname} builds a Procedure without `_provenance_eq_Procedure`: the derivation is not recorded (forwarding and call_eqv break) — or an untriaged new-origin site"))
                else:
                    # in API_scheduling the origin must be the op's own `proc` parameter
                    if f.file == AS:
                        ok2 = isinstance(prov, ast.Name) and f.params() and prov.id == f.params()[0]
                        res.ob(ok2)
                        if not ok2:
                            res.add(Finding("NOPROV", f.file, c.lineno, f.qualname, "provenance-other", f"provenance `{ast.unparse(prov)}` is not the procedure the operation was applied to"))
    if n_with < 50:
        raise AnalysisError(f"NOPROV: expected >= 50 derivations with provenance, found {n_with}")
    res.floor = 60
    return res


FWD_LEGACY = {
    (S, "Cursor_Rewrite.result"): "legacy template (DoLiftAlloc, DoAddUnsafeGuard): falls back to a forwarder that raises",
    (S, "DoFissionLoops.result"): "legacy autofission: falls back to a forwarder that raises",
}


def rule_fwdpresent(ctx, prop: str) -> RuleResult:
    ix = ctx.ix
    res = RuleResult("FWDPRESENT")
    for f in ix.all_funcs():
        if not f.file.startswith("src/exo/"):
            continue
        for c in _procedure_calls(f):
            kws = {kw.arg: kw.value for kw in c.keywords}
            prov = kws.get("_provenance_eq_Procedure")
            if prov is None or (isinstance(prov, ast.Constant) and prov.value is None):
                continue
            res.instances += 1
            res.nontrivial += 1
            has = "_forward" in kws and not (isinstance(kws["_forward"], ast.Constant) and kws["_forward"].value is None)
            ok = has or (f.file, f.qualname) in FWD_LEGACY
            res.ob(ok)
            if not ok:
                res.add(Finding("FWDPRESENT", f.file, c.lineno, f.qualname, "no-_forward", f"{f.qualname} records a derivation without a forwarding function: cursors into the old procedure can no longer be forwarded (NotImplementedError) although the statement still exists"))
    # the fallback forwarder raises (reports "cannot be forwarded") rather than returning something
    init = ix.func(API, "Procedure.__init__")
    ok = False
    for n in init.all_nodes():
        if isinstance(n, ast.FunctionDef) and n.name == "_forward" and always_raises(n.body):
            ok = True
    res.instances += 1
    res.ob(ok)
    if not ok:
        res.add(Finding("FWDPRESENT", API, init.lineno, init.qualname, "fallback-raises", "the default forwarder must raise, not return a cursor"))
    res.floor = 50
    return res


def rule_fwdwalk(ctx, prop: str) -> RuleResult:
    """Procedure.forward composes the recorded forwarders oldest-first along the
    provenance chain; implicit forwarding in CursorArgumentProcessor uses it."""
    ix = ctx.ix
    res = RuleResult("FWDWALK")
    f = ix.func(API, "Procedure.forward")
    res.analysed.append(f"{API}:Procedure.forward")
    from .. import pat

    b = None
    m1 = pat.find("_M_fs.append(_M_p._forward)", f.node)
    b = m1[1] if m1 else None
    m2 = pat.find("_M_p = _M_p._provenance_eq_Procedure", f.node, b) if b is not None else None
    m3 = None
    if b is not None:
        for n in f.body_nodes():
            if isinstance(n, ast.While) and pat.has("_M_p is not None", n.test, b) and pat.has("_M_p is not _M__.proc()", n.test, b) and isinstance(n.test, ast.BoolOp) and isinstance(n.test.op, ast.And):
                m3 = n
    m4 = pat.find("for _M_fn in reversed(_M_fs):\n    _M_v = _M_fn(_M_v)", f.node, b) if b is not None else None
    ret_ok = False
    start_ok = False
    if m4 is not None:
        v = ast.unparse(m4[1]["_M_v"])

        def derived(seed):
            # names assigned (anywhere in the function) from an expression mentioning a derived name
            out = set(seed)
            grew = True
            while grew:
                grew = False
                for n in f.body_nodes():
                    if isinstance(n, ast.Assign) and len(n.targets) == 1 and isinstance(n.targets[0], ast.Name) and n.targets[0].id not in out:
                        if any(isinstance(x, ast.Name) and x.id in out for x in ast.walk(n.value)):
                            out.add(n.targets[0].id)
                            grew = True
            return out

        from_v = derived({v})
        for n in f.body_nodes():
            if isinstance(n, ast.Return) and n.value is not None and any(isinstance(x, ast.Name) and x.id in from_v for x in ast.walk(n.value)):
                ret_ok = True
        # the accumulator starts from the cursor handed in (the method's own parameter)
        params = [a.arg for a in f.node.args.args if a.arg != "self"]
        from_param = derived(set(params))
        start_ok = v in from_param and v not in params
    checks = [
        ("collect", m1 is not None, "each procedure on the chain contributes its own _forward"),
        ("walk", m2 is not None, "the walk follows _provenance_eq_Procedure"),
        ("stop", m3 is not None, "the walk stops at the cursor's own procedure (or at the origin), and only then"),
        ("order", m4 is not None, "forwarders are applied oldest first, each to the result of the previous one"),
        ("result", ret_ok and start_ok, "the cursor handed in is what gets forwarded and the result is what is returned"),
    ]
    for key, ok, why in checks:
        res.instances += 1
        res.nontrivial += 1
        res.ob(ok)
        res.sample(f"Procedure.forward: {why}: {ok}")
        if not ok:
            res.add(Finding("FWDWALK", API, f.lineno, f.qualname, key, f"Procedure.forward: {why} — violated"))
    # CursorArgumentProcessor forwards implicitly through p.forward
    am = ix.module(AS)
    cap = am.cls("CursorArgumentProcessor")
    call = cap.methods.get("__call__")
    if call is None:
        raise AnalysisError("anchor vanished: CursorArgumentProcessor.__call__")
    res.instances += 1
    ok = any(isinstance(n, ast.Call) and isinstance(n.func, ast.Attribute) and n.func.attr == "forward" for n in call.all_nodes())
    res.ob(ok)
    if not ok:
        res.add(Finding("FWDWALK", AS, call.lineno, call.qualname, "implicit-forward", "cursor arguments are no longer forwarded to the procedure the operation is applied to"))
    # subclasses must not override __call__ (only _cursor_call)
    for c in ix.all_classes():
        if c.file != AS or c is cap:
            continue
        if any(k is cap for k in ix.mro(c)[1:]):
            res.instances += 1
            ok = "__call__" not in c.methods
            res.ob(ok)
            if not ok:
                res.add(Finding("FWDWALK", AS, c.node.lineno, c.name, "__call__-override", f"{c.name} overrides __call__ of CursorArgumentProcessor: its cursors bypass implicit forwarding"))
    res.floor = 8
    return res


# ------------------------------------------------------------------ C19
ANNOT_FIELDS = {"type", "mem", "src_type", "as_tensor", "is_window"}


def rule_annotonly(ctx, prop: str) -> RuleResult:
    ix = ctx.ix
    res = RuleResult("ANNOTONLY")

    def written_fields(f: Func) -> Set[str]:
        out: Set[str] = set()
        for n in f.all_nodes():
            if isinstance(n, ast.Call) and isinstance(n.func, ast.Attribute):
                if n.func.attr in ("_child_node", "_child_block") and n.args and isinstance(n.args[0], ast.Constant):
                    # only when the chain ends in an edit
                    p = parent(n)
                    while isinstance(p, (ast.Attribute, ast.Call, ast.Subscript)):
                        if isinstance(p, ast.Call) and isinstance(p.func, ast.Attribute) and p.func.attr in ("_replace", "_insert", "_delete"):
                            out.add(n.args[0].value)
                            break
                        p = parent(p)
                if n.func.attr == "update":
                    out |= {kw.arg for kw in n.keywords if kw.arg}
            if isinstance(n, ast.Return) and isinstance(n.value, ast.Dict):
                out |= {k.value for k in n.value.keys if isinstance(k, ast.Constant)}
        return out

    spec = [
        (S, "DoSetTypAndMem", ANNOT_FIELDS, "set_precision / set_memory / set_window"),
        (S, "DoParallelizeLoop", {"loop_mode"}, "parallelize_loop"),
        (AS, "rename", {"name"}, "rename"),
        (AS, "make_instr", {"instr", "c_instr", "c_global"}, "make_instr"),
    ]
    for file, qn, allowed, what in spec:
        f = ix.func(file, qn)
        res.analysed.append(f"{file}:{qn}")
        res.instances += 1
        res.nontrivial += 1
        w = written_fields(f)
        if not w:
            raise AnalysisError(f"ANNOTONLY: no written field found in {qn}")
        extra = w - allowed
        res.ob(not extra)
        res.sample(f"{qn} ({what}) writes fields {sorted(w)}; allowed {sorted(allowed)}")
        if extra:
            res.add(Finding("ANNOTONLY", file, f.lineno, qn, ",".join(sorted(extra)), f"{what} writes field(s) {sorted(extra)} outside its annotation set {sorted(allowed)}: the loop nest itself is changed"))
    # set_precision must retype *every* access of the buffer: reads and writes
    f = ix.func(S, "DoSetTypAndMem")
    names = {last_name(n) for n in f.body_nodes() if isinstance(n, ast.Call)}
    res.instances += 1
    ok = {"_replace_reads", "_replace_writes"} <= names
    res.ob(ok)
    if not ok:
        res.add(Finding("ANNOTONLY", S, f.lineno, "DoSetTypAndMem", "reads+writes", "set_precision must update the type annotation on both reads and writes of the buffer (backend precision analysis trusts it)"))
    res.floor = 5
    return res


def rule_predsonly(ctx, prop: str) -> RuleResult:
    ix = ctx.ix
    res = RuleResult("PREDSONLY")
    f = ix.func(API, "Procedure.add_assertion")
    res.analysed.append(f"{API}:Procedure.add_assertion")
    ctor = None
    for n in f.body_nodes():
        if isinstance(n, ast.Call) and (dotted(n.func) or "").endswith("LoopIR.proc"):
            ctor = n
        if isinstance(n, ast.Call) and isinstance(n.func, ast.Attribute) and n.func.attr == "update" and any(kw.arg == "preds" for kw in n.keywords):
            ctor = n
    if ctor is None:
        raise AnalysisError("anchor vanished: proc construction in add_assertion")
    res.instances += 1
    res.nontrivial += 1
    if isinstance(ctor.func, ast.Attribute) and ctor.func.attr == "update":
        kws = {kw.arg: kw.value for kw in ctor.keywords}
        ok = set(kws) == {"preds"}
        pv = kws.get("preds")
    else:
        order = ["name", "args", "preds", "body", "instr", "srcinfo"]
        ok = len(ctor.args) == 6
        pv = None
        if ok:
            for nm, a in zip(order, ctor.args):
                if nm == "preds":
                    pv = a
                else:
                    if not (isinstance(a, ast.Attribute) and a.attr == nm):
                        ok = False
    res.ob(ok)
    if not ok:
        res.add(Finding("PREDSONLY", API, ctor.lineno, f.qualname, "other-fields", "add_assertion must copy name, args, body, instr and srcinfo unchanged"))
    res.instances += 1
    ok2 = isinstance(pv, ast.BinOp) and isinstance(pv.op, ast.Add) and isinstance(pv.left, ast.Attribute) and pv.left.attr == "preds"
    res.ob(ok2)
    res.sample(f"add_assertion builds preds as `{ast.unparse(pv) if pv is not None else None}`")
    if not ok2:
        res.add(Finding("PREDSONLY", API, ctor.lineno, f.qualname, "preds-extend", "add_assertion must *extend* the existing assertions (p.preds + [new]); replacing or dropping them widens the admissible inputs"))
    # the new assertion is parsed in the procedure's own scope
    res.instances += 1
    ok3 = any(isinstance(n, ast.Call) and last_name(n) == "parse_fragment" for n in f.body_nodes())
    res.ob(ok3)
    if not ok3:
        res.add(Finding("PREDSONLY", API, f.lineno, f.qualname, "parse_fragment", "the assertion text is not parsed in the procedure's scope"))
    res.floor = 3
    return res


def rule_partialeval(ctx, prop: str) -> RuleResult:
    """partial_eval: substitution of literals and removal of exactly the bound arguments."""
    ix, adts = ctx.ix, ctx.adts
    res = RuleResult("PEVAL")
    m = ix.module(S)
    c = m.cls("DoPartialEval")
    mp = c.methods.get("map_proc")
    me = c.methods.get("map_e")
    if mp is None or me is None:
        raise AnalysisError("anchor vanished: DoPartialEval.map_proc/map_e")
    res.analysed += [f"{S}:{mp.qualname}", f"{S}:{me.qualname}"]
    from .. import pat

    d1 = pat.find("_M_p = super().map_proc(_M_p) or _M_p", mp.node)
    drop = d1 is not None and pat.has("return _M_p.update(args=[_M_a for _M_a in _M_p.args if _M_a.name not in self.env])", mp.node, d1[1])
    val_kind = val_int = False
    for n in mp.body_nodes():
        if isinstance(n, ast.For) and pat.has("self.env.items()", n.iter):
            for k in ast.walk(n):
                if isinstance(k, ast.If) and always_raises(k.body):
                    attrs = {x.attr for x in ast.walk(k.test) if isinstance(x, ast.Attribute)}
                    if {"is_indexable", "is_bool"} <= attrs:
                        val_kind = True
                    if pat.has("not isinstance(_M_v, int)", k.test):
                        val_int = True
    sub = list(pat.find_all("if _M_e.name in self.env:\n    return LoopIR.Const(self.env[_M_e.name], _M__, _M__)", me.node))
    checks = [
        ("delegate", d1 is not None, "the body is rewritten through the template (TRAV-checked) before arguments are dropped"),
        ("drop-bound", drop, "exactly the arguments named in the environment are removed from the signature"),
        ("validate-kind", val_kind, "only index/size/bool arguments may be fixed"),
        ("validate-int", val_int, "values must be integers"),
        ("subst-read", len(sub) >= 2, "a read of a bound index/bool argument becomes the literal bound to that argument"),
        ("fallthrough", pat.has("return super().map_e(_M_e)", me.node), "every other expression is rewritten recursively"),
    ]
    for key, ok, why in checks:
        res.instances += 1
        res.nontrivial += 1
        res.ob(ok)
        res.sample(f"DoPartialEval: {why}: {ok}")
        if not ok:
            res.add(Finding("PEVAL", S, mp.lineno, "DoPartialEval", key, f"partial_eval: {why} — not established"))
    # API maps positional values to the leading arguments, named ones by name
    pf = ix.func(API, "Procedure.partial_eval")
    res.instances += 1
    ok = pat.has("{_M_a.name: _M_v for _M_a, _M_v in zip(_M_p.args, args)}", pf.node)
    res.ob(ok)
    if not ok:
        res.add(Finding("PEVAL", API, pf.lineno, pf.qualname, "positional", "positional values must bind the leading arguments in order"))
    res.floor = 7
    return res


def rule_cfgshape(ctx, prop: str) -> RuleResult:
    """Shape of the two configuration checks (C10): a changed field that may be read
    later must raise; a field is left out of the reported set only when it is
    *definitely* unchanged or overwritten; the reported set is what is returned."""
    from .. import pat

    ix = ctx.ix
    res = RuleResult("CFGSHAPE")
    m = ix.module("src/exo/rewrite/new_eff.py")

    def need(ok, f, key, msg, sample=""):
        res.instances += 1
        res.nontrivial += 1
        res.ob(ok)
        if sample:
            res.sample(sample)
        if not ok:
            res.add(Finding("CFGSHAPE", m.rel, f.lineno, f.qualname, key, msg))

    for name in ("Check_DeleteConfigWrite", "Check_ExtendEqv"):
        f = m.func(name)
        res.analysed.append(f"{m.rel}:{name}")
        # (1) read-later => definitely unchanged, else raise
        sw = pat.find("_M_sw = AImplies(AMay(_M_rd), ADef(_M_un))", f.node)
        ok = False
        if sw is not None:
            b = {"_M_sw": sw[1]["_M_sw"]}
            for n, _ in pat.find_all("if not _M_s.verify(_M_sw):\n    _M__", f.node, b):
                if always_raises(n.body):
                    ok = True
        need(ok, f, "read-later->raise", f"{name}: a configuration value that may be read later must be *definitely* unchanged, otherwise the operation must raise",
             f"{name}: AImplies(AMay(read later), ADef(unchanged)) guarded by raise: {ok}")
        # what "read later" means: membership in the post-effects' global reads
        ok = sw is not None and any(pat.has("_M_x = is_elem(_M_pt, _M_set)", n) for n in [f.node]) and _defined_from(f, sw[1]["_M_rd"], "READ_G")
        need(ok, f, "read-later=READ_G(post)", f"{name}: 'read later' must be membership in the global reads of the code that follows")
        # (2) visible unless definitely invisible; visible ones are collected and returned
        rets = [n for n in f.body_nodes() if isinstance(n, ast.Return) and isinstance(n.value, ast.Name)]
        ok = False
        vis = None
        for r in rets:
            v = r.value.id
            for n, bb in pat.find_all("if not _M_s.verify(_M_inv):\n    _M_v.add(_M_k)", f.node):
                if ast.unparse(bb["_M_v"]) == v:
                    vis = bb
                    ok = True
        need(ok, f, "not-invisible->reported", f"{name}: a field whose change is not provably invisible must be added to the returned set")
        if vis is not None:
            inv = ast.unparse(vis["_M_inv"])
            d = None
            for n in f.body_nodes():
                if isinstance(n, ast.Assign) and isinstance(n.targets[0], ast.Name) and n.targets[0].id == inv:
                    d = n.value
            ok = isinstance(d, ast.Call) and last_name(d) == "ADef"
            need(ok, f, "invisible=definitely", f"{name}: invisibility must hold *definitely* (ADef), not maybe")
            if name == "Check_DeleteConfigWrite":
                ok = d is not None and pat.has("ADef(AOr(_M_a, _M_b))", d) and {"unchanged", "overwritten"} <= {w for x in ast.walk(d) if isinstance(x, ast.Name) for w in ("unchanged", "overwritten") if w in x.id}
                need(ok, f, "invisible=unchanged-or-overwritten", "a write is invisible iff it is definitely unchanged or definitely overwritten")
            else:
                ok = d is not None and any(isinstance(x, ast.Name) and "overwritten" in x.id for x in ast.walk(d))
                need(ok, f, "invisible=overwritten", "after a callee swap a differing field is invisible only if it is definitely overwritten")
    # Check_DeleteConfigWrite: statements may modify configuration only
    f = m.func("Check_DeleteConfigWrite")
    ok = False
    g = pat.find("_M_p = ADef(is_empty(LDiff(_M_mod, _M_wrg)))", f.node)
    if g is not None:
        ok = _defined_from(f, g[1]["_M_mod"], "MODIFY") and _defined_from(f, g[1]["_M_wrg"], "WRITE_G")
    need(ok, f, "only-global-mods", "inserted/deleted statements must modify configuration state only (MODIFY ∖ WRITE_G = ∅)")
    res.floor = 10
    return res


def _defined_from(f: Func, name_node, es_kind: str) -> bool:
    """Is the local (transitively, 2 levels) bound by getsets([... ES.<kind> ...]) / is_elem(_, that)?"""
    want = ast.unparse(name_node)
    for _ in range(3):
        for n in f.body_nodes():
            if isinstance(n, ast.Assign):
                tg = n.targets[0]
                names = [t.id for t in (tg.elts if isinstance(tg, ast.Tuple) else [tg]) if isinstance(t, ast.Name)]
                if want in names:
                    v = n.value
                    if isinstance(v, ast.Call) and last_name(v) == "getsets" and isinstance(v.args[0], ast.List):
                        kinds = [dotted(e).split(".")[-1] for e in v.args[0].elts]
                        i = names.index(want)
                        return i < len(kinds) and kinds[i] == es_kind
                    if isinstance(v, ast.Call) and last_name(v) == "is_elem" and len(v.args) == 2:
                        want = ast.unparse(v.args[1])
                        break
        else:
            return False
    return False


def rule_predscope(ctx, prop: str) -> RuleResult:
    """A rewrite that permutes the dimensions of a procedure ARGUMENT changes what
    `stride(arg, d)` means everywhere it is mentioned — in the body and in the procedure's
    assertions (`preds`).  Every scheduling function that rewrites stride expressions of a
    declaration which may be an `fnarg` (its scope is `root().body()`, not the rest of the
    allocating block) must apply the same stride rewrite to the `preds` block."""
    ix = ctx.ix
    res = RuleResult("PREDSCOPE")
    S_ = "src/exo/rewrite/LoopIR_scheduling.py"
    m = ix.module(S_)
    n = 0
    for qn, f in m.funcs.items():
        if not isinstance(f.node, ast.FunctionDef) or "." in qn:
            continue
        whole = [k for k in f.body_nodes() if isinstance(k, ast.Call) and isinstance(k.func, ast.Attribute) and k.func.attr == "body" and "root()" in ast.unparse(k.func.value)]
        stride_rw = [k for k in f.body_nodes() if isinstance(k, ast.Call) and last_name(k) == "_replace_pats" and any("stride(" in ast.unparse(a) for a in k.args)]
        if not whole or not stride_rw:
            continue
        n += 1
        res.instances += 1
        res.nontrivial += 1
        res.analysed.append(f"{S_}:{qn}")
        ok = False
        for loop in f.body_nodes():
            if isinstance(loop, ast.For) and '"preds"' in ast.unparse(loop.iter).replace("'", '"'):
                if any(k in stride_rw for b in loop.body for k in ast.walk(b)):
                    ok = True
        res.ob(ok)
        res.sample(f"{qn}: stride expressions of an argument are rewritten in the assertions too: {ok}")
        if not ok:
            res.add(
                Finding("PREDSCOPE", S_, f.lineno, qn, "preds",
                        f"{qn} rewrites `stride(arg, d)` in the body of the procedure but not in its assertions: after transpose(p, a) the precondition still says "
                        f"`stride(a, 1) == 1` where the original required it of the dimension that is now dimension 0 — the transposed procedure admits different inputs")
            )
    if n < 1:
        raise AnalysisError("PREDSCOPE: no argument-scope stride rewrite found in LoopIR_scheduling.py")
    res.floor = 1
    return res
