"""EXH — dispatch exhaustiveness over an ADT (DESIGN §3.1).

Each armed function branches on the constructor of a value of sum type T.  For
every constructor K of T the function must have an explicit case, or end in an
explicit failure; a *silent* default is allowed only for the constructors listed
for that function (with the reason).
"""
from __future__ import annotations

import ast
from dataclasses import dataclass, field
from typing import Dict, List, Optional, Set, Tuple

from ..dispatch import find_chains, mentioned_ctors, resolve_subject
from ..index import AnalysisError
from ..report import Finding, RuleResult


@dataclass
class Armed:
    file: str
    qualname: str
    subject: str
    adt: str
    sum: str
    role: str  # translator | visitor | comparer
    silent_ok: Dict[str, str] = field(default_factory=dict)  # ctor -> reason (silence is right)
    props: Tuple[str, ...] = ()


_FREE = {"Free": "Free nodes are created only by MemoryAnalysis (backend); this function runs before it"}
_ERR = {"Error": "T.Error marks a type error already reported; well-typed procedures never contain it"}
_SCALARS = ["Num", "F16", "F32", "F64", "INT8", "UINT8", "UINT16", "INT32", "Bool", "Int", "Index", "Size", "Stride", "Error"]

C = "src/exo/backend/LoopIR_compiler.py"
P = "src/exo/core/LoopIR_pprint.py"
L = "src/exo/core/LoopIR.py"
B = "src/exo/frontend/boundscheck.py"
TC = "src/exo/frontend/typecheck.py"
PM = "src/exo/frontend/pattern_match.py"
U = "src/exo/rewrite/LoopIR_unification.py"
NE = "src/exo/rewrite/new_eff.py"
S = "src/exo/rewrite/LoopIR_scheduling.py"
MA = "src/exo/backend/mem_analysis.py"
PA = "src/exo/backend/prec_analysis.py"
AC = "src/exo/API_cursors.py"
RA = "src/exo/rewrite/range_analysis.py"

ARMED: List[Armed] = [
    # ---- backend (C02, C15, C08)
    Armed(C, "Compiler.comp_s", "s", "LoopIR", "stmt", "translator", props=("C02", "C15")),
    Armed(C, "Compiler.comp_e", "e", "LoopIR", "expr", "translator", props=("C02", "C15")),
    Armed(C, "Compiler.comp_cir", "e", "CIR", "expr", "translator", props=("C02",)),
    Armed(C, "lift_to_cir", "e", "LoopIR", "expr", "translator",
          {k: "index expressions only (asserted by the failing default): data constructs cannot occur in a control position"
           for k in ("Extern", "WindowExpr", "ReadConfig")} | {"USub": "failing default"}, props=("C02",)),
    Armed(C, "simplify_cir", "e", "CIR", "expr", "translator", props=("C02",)),
    Armed(MA, "MemoryAnalysis.mem_s", "s", "LoopIR", "stmt", "translator", props=("C08", "C15")),
    Armed(MA, "MemoryAnalysis.mem_stmts.used_s", "s", "LoopIR", "stmt", "visitor",
          {"Pass": "uses no buffer", "Free": "not yet inserted when liveness is computed"}, props=("C08", "C02")),
    Armed(MA, "MemoryAnalysis.mem_stmts.used_e", "e", "LoopIR", "expr", "visitor",
          {"Const": "uses no buffer", "ReadConfig": "reads configuration state, not a buffer"}, props=("C08", "C02")),
    Armed(PA, "PrecisionAnalysis.coerce_e", "e", "LoopIR", "expr", "translator", props=("C02", "C15")),
    # ---- printer (C17)
    Armed(P, "_print_stmt", "stmt", "LoopIR", "stmt", "translator", props=("C17",)),
    Armed(P, "_print_expr", "e", "LoopIR", "expr", "translator", props=("C17",)),
    Armed(P, "_print_type", "t", "LoopIR", "type", "translator", props=("C17",)),
    Armed(P, "_print_w_access", "node", "LoopIR", "w_access", "translator", props=("C17",)),
    # ---- frontend (C03)
    Armed(TC, "TypeChecker.check_single_stmt", "stmt", "UAST", "stmt", "translator", props=("C03",)),
    Armed(TC, "TypeChecker.check_e", "e", "UAST", "expr", "translator", props=("C03",)),
    Armed(B, "CheckBounds.map_stmts", "stmt", "LoopIR", "stmt", "translator", props=("C03",)),
    Armed(B, "CheckBounds.eff_e", "e", "LoopIR", "expr", "translator", props=("C03",)),
    Armed(B, "CheckBounds.expr_to_smt", "expr", "E", "expr", "translator", props=("C03",)),
    # ---- effects (C01, C10)
    Armed(NE, "expr_effs", "e", "LoopIR", "expr", "translator", props=("C01", "C09")),
    Armed(NE, "stmts_effs", "s", "LoopIR", "stmt", "translator", props=("C01", "C09")),
    # ---- templates (C01, C19)
    Armed(L, "LoopIR_Rewrite.map_s", "s", "LoopIR", "stmt", "translator", props=("C01", "C19")),
    Armed(L, "LoopIR_Rewrite.map_e", "e", "LoopIR", "expr", "translator", props=("C01", "C19")),
    Armed(L, "LoopIR_Compare.match_s", "s1", "LoopIR", "stmt", "comparer", props=("C01",)),
    Armed(L, "LoopIR_Compare.match_e", "e1", "LoopIR", "expr", "comparer", props=("C01",)),
    Armed(S, "Cursor_Rewrite.map_s", "s", "LoopIR", "stmt", "translator", props=("C01", "C12")),
    Armed(S, "_DoNormalize.map_s", "s", "LoopIR", "stmt", "translator", props=("C12",)),
    Armed(S, "DoSimplify.map_s", "s", "LoopIR", "stmt", "translator", props=("C12",)),
    # ---- pattern match / cursors (C16)
    Armed(PM, "PatternMatch.match_stmt", "stmt", "LoopIR", "stmt", "comparer", props=("C16",)),
    Armed(PM, "PatternMatch.match_e", "e", "LoopIR", "expr", "comparer", props=("C16",)),
    Armed(PM, "_children", "n", "LoopIR", "stmt", "translator", props=("C16",)),
    Armed(PM, "_children", "n", "LoopIR", "expr", "translator", props=("C16",)),
    Armed(AC, "lift_cursor", "n", "LoopIR", "stmt", "translator", props=("C16",)),
    Armed(AC, "lift_cursor", "n", "LoopIR", "expr", "translator", props=("C16",)),
    # ---- unification (C05)
    Armed(U, "Unification.unify_e", "pe", "LoopIR", "expr", "comparer", props=("C05",)),
]


def rule_exh(ctx, prop: str) -> RuleResult:
    ix, adts = ctx.ix, ctx.adts
    res = RuleResult("EXH")
    mine = [a for a in ARMED if prop in a.props]
    for a in mine:
        f = ix.func(a.file, a.qualname)
        res.analysed.append(f"{a.file}:{a.qualname}")
        adtmod = adts.adt_for(a.adt, f.module)
        if adtmod is None:
            raise AnalysisError(f"ADT {a.adt} not resolvable in {a.file}")
        adt_key = next(k for k, v in adts.mods.items() if v is adtmod)
        all_ctors = adtmod.ctors_of(a.sum)
        a_subject = resolve_subject(f, adts, a.subject, adt_key, a.sum)
        chains = [ch for ch in find_chains(f, adts) if ch.subject == a_subject and any(x == adt_key and adtmod.ctors[c].sum == a.sum for x, c in ch.covered())]
        if not chains:
            raise AnalysisError(f"anchor vanished: no dispatch on `{a.subject}` over {a.adt}.{a.sum} in {a.qualname}")
        main = max(chains, key=lambda ch: len(ch.cases))
        covered = {c for ch in chains for (x, c) in ch.covered() if x == adt_key}
        covered |= {c for (x, c) in mentioned_ctors(f, adts, a_subject) if x == adt_key}
        dk = main.default_kind()
        res.instances += 1
        res.nontrivial += 1
        res.sample(f"{a.qualname} over {a.adt}.{a.sum}: {len(covered & set(all_ctors))}/{len(all_ctors)} explicit, default={dk}")
        for K in all_ctors:
            if K in covered:
                res.ob(True)
                continue
            if K in a.silent_ok or (a.adt == "LoopIR" and K == "Free" and not a.file.startswith("src/exo/backend")):
                res.ob(True)
                continue
            if dk == "fail":
                res.ob(True)  # fails closed: an error, never a silent mistranslation
                res.notes.append(f"{a.qualname}: {a.adt}.{K} has no case; default fails closed")
                continue
            if dk == "delegate":
                res.ob(True)
                continue
            res.ob(False)
            res.add(
                Finding(
                    "EXH",
                    a.file,
                    main.lineno,
                    a.qualname,
                    f"{a.adt}.{K}",
                    f"dispatch on `{a.subject}` has no case for {a.adt}.{K} and its default is silent: a {K} node is "
                    f"{'skipped' if a.role == 'visitor' else 'mistranslated / wrongly matched'} without an error",
                )
            )
    res.floor = len(mine)
    return res
