"""Code-generation rules: DIVMOD, SCALARREF, WINDOWHOOK, MEMGATE, CALLBOUNDARY,
TYPETABLES, CONSTQ (DESIGN §3.14)."""
from __future__ import annotations

import ast
from typing import Dict, List, Optional, Set, Tuple

from ..dispatch import Case, find_chains
from ..flow import always_raises, nonempty_test
from ..index import AnalysisError, Func, dotted, last_name, norm_stmt, parent
from ..mustflow import run_must
from ..report import Finding, RuleResult

COMP = "src/exo/backend/LoopIR_compiler.py"


def cases_for(f: Func, adts, subject: str, adt: str, K: str) -> List[Case]:
    out = []
    for ch in find_chains(f, adts):
        if ch.subject != subject:
            continue
        for c in ch.cases:
            if (adt, K) in c.ctors:
                out.append(c)
    return out


def _walk(stmts) -> List[ast.AST]:
    out = []
    for s in stmts:
        out.extend(ast.walk(s))
    return out


# ------------------------------------------------------------------ DIVMOD
def rule_divmod(ctx, prop: str) -> RuleResult:
    ix, adts = ctx.ix, ctx.adts
    res = RuleResult("DIVMOD")
    for qn, subj, adt in (("Compiler.comp_e", "e", "LoopIR"), ("Compiler.comp_cir", "e", "CIR")):
        f = ix.func(COMP, qn)
        res.analysed.append(f"{COMP}:{qn}")
        cs = cases_for(f, adts, subj, adt, "BinOp")
        if not cs:
            raise AnalysisError(f"anchor vanished: BinOp case in {qn}")
        body = [s for c in cs for s in c.body]
        # names holding the operator / flags derived from an operator test
        opvars = {f"{subj}.op"}
        flags: Dict[str, Set[str]] = {}
        for n in _walk(body):
            if isinstance(n, ast.Assign) and len(n.targets) == 1 and isinstance(n.targets[0], ast.Name):
                if dotted(n.value) in opvars:
                    opvars.add(n.targets[0].id)

        def ops_tested(e: ast.AST) -> Set[str]:
            out: Set[str] = set()
            for n in ast.walk(e):
                if isinstance(n, ast.Compare) and len(n.ops) == 1 and isinstance(n.ops[0], (ast.Eq, ast.In)):
                    l, r = n.left, n.comparators[0]
                    if dotted(l) in opvars:
                        if isinstance(r, ast.Constant) and isinstance(r.value, str):
                            out.add(r.value)
                        elif isinstance(r, (ast.Tuple, ast.List, ast.Set)):
                            out |= {x.value for x in r.elts if isinstance(x, ast.Constant)}
                if isinstance(n, ast.Name) and n.id in flags:
                    out |= flags[n.id]
            return out

        for n in _walk(body):
            if isinstance(n, ast.Assign) and len(n.targets) == 1 and isinstance(n.targets[0], ast.Name):
                t = ops_tested(n.value)
                if t and not dotted(n.value) in opvars:
                    flags[n.targets[0].id] = t

        def sign_proof(stmts) -> bool:
            for n in _walk(stmts):
                if isinstance(n, ast.Call) and last_name(n) in ("check_expr_bound", "is_non_neg"):
                    return True
                if isinstance(n, ast.Attribute) and n.attr == "is_non_neg":
                    return True
            return False

        def helper_call(stmts) -> bool:
            return any(isinstance(n, ast.Call) and last_name(n) == "_call_static_helper" for n in _walk(stmts))

        for op in ("/", "%"):
            res.instances += 1
            res.nontrivial += 1
            guarded = False
            for n in _walk(body):
                if isinstance(n, ast.If) and op in ops_tested(n.test):
                    region = n.body
                    if sign_proof([ast.Expr(value=n.test)] + region) and helper_call(region):
                        guarded = True
            res.ob(guarded)
            res.sample(f"{qn}: C `{op}` for index operands guarded by sign proof + floor helper: {guarded}")
            if not guarded:
                res.add(
                    Finding(
                        "DIVMOD", COMP, cs[0].lineno, qn, op,
                        f"an index-typed `{op}` reaches the generic `lhs {op} rhs` emission with no non-negativity test of the numerator and no floor "
                        f"helper: C truncates toward zero while Exo's `{op}` is floor-based (the code already believes this for `/`)",
                    )
                )
    res.floor = 4
    return res


# --------------------------------------------------------------- SCALARREF
def rule_scalarref(ctx, prop: str) -> RuleResult:
    ix, adts = ctx.ix, ctx.adts
    res = RuleResult("SCALARREF")
    spec = [
        ("Compiler.comp_s", "s", "Assign", "deref"),
        ("Compiler.comp_e", "e", "Read", "deref"),
        ("Compiler.comp_fnarg", "e", "Read", "addr"),
    ]
    for qn, subj, K, kind in spec:
        f = ix.func(COMP, qn)
        res.analysed.append(f"{COMP}:{qn}")
        cs = cases_for(f, adts, subj, "LoopIR", K)
        if not cs:
            raise AnalysisError(f"anchor vanished: {K} case in {qn}")
        res.instances += 1
        res.nontrivial += 1
        found = None
        for n in _walk([s for c in cs for s in c.body]):
            if isinstance(n, ast.If) and isinstance(n.test, ast.Compare) and len(n.test.ops) == 1 and isinstance(n.test.ops[0], ast.In):
                if dotted(n.test.left) == f"{subj}.name" and dotted(n.test.comparators[0]) == "self._scalar_refs":
                    found = n
                    break
        ok = found is not None
        res.ob(ok)
        if not ok:
            res.add(Finding("SCALARREF", COMP, cs[0].lineno, qn, f"{K}:_scalar_refs", f"{qn} prints a scalar's C name without testing membership in _scalar_refs: by-reference scalar arguments are used as values (or vice versa)"))
            continue
        txt = "".join(ast.unparse(s) for s in found.body)
        if kind == "deref":
            ok2 = "'*" in txt or '"*' in txt or "f'*" in txt or 'f"*' in txt
            res.ob(ok2)
            if not ok2:
                res.add(Finding("SCALARREF", COMP, found.lineno, qn, f"{K}:deref", "a by-reference scalar is not dereferenced (`*name`) where its value is used"))
        else:
            ok2 = "&" not in txt
            # and the plain real-scalar fallthrough takes the address
            rest = "".join(ast.unparse(s) for s in found.orelse)
            ok3 = "&" in rest
            res.ob(ok2 and ok3)
            if not (ok2 and ok3):
                res.add(Finding("SCALARREF", COMP, found.lineno, qn, f"{K}:addr", "scalar call arguments: a by-reference scalar must be passed as is, a local scalar by `&name`"))
        res.sample(f"{qn} {K}: branches on `{subj}.name in self._scalar_refs` ({kind})")
    # _scalar_refs is filled for exactly the real-scalar arguments
    init = ix.func(COMP, "Compiler.__init__")
    adds = [n for n in init.body_nodes() if isinstance(n, ast.Call) and isinstance(n.func, ast.Attribute) and dotted(n.func.value) == "self._scalar_refs" and n.func.attr == "add"]
    res.instances += 1
    ok = False
    for a in adds:
        p = parent(a)
        while p is not None and not isinstance(p, ast.If):
            p = parent(p)
        if isinstance(p, ast.If) and "is_real_scalar" in ast.unparse(p.test):
            ok = True
    res.ob(ok)
    if not ok:
        res.add(Finding("SCALARREF", COMP, init.lineno, "Compiler.__init__", "_scalar_refs.add", "_scalar_refs is not populated under `a.type.is_real_scalar()` for procedure arguments"))
    res.floor = 4
    return res


# -------------------------------------------------------------- WINDOWHOOK
def rule_windowhook(ctx, prop: str) -> RuleResult:
    ix, adts = ctx.ix, ctx.adts
    res = RuleResult("WINDOWHOOK")
    wsf = ix.func(COMP, "Compiler.window_struct_fields")
    res.analysed.append(f"{COMP}:Compiler.window_struct_fields")
    # data pointer produced by <mem>.window(...), mem from self.mems[...]
    memvars = set()
    for n in wsf.body_nodes():
        if isinstance(n, (ast.Assign, ast.AnnAssign)):
            tgt = n.targets[0] if isinstance(n, ast.Assign) else n.target
            if isinstance(tgt, ast.Name) and n.value is not None and isinstance(n.value, ast.Subscript) and dotted(n.value.value) == "self.mems":
                memvars.add(tgt.id)
    calls = [n for n in wsf.body_nodes() if isinstance(n, ast.Call) and isinstance(n.func, ast.Attribute) and n.func.attr == "window" and dotted(n.func.value) in memvars]
    res.instances += 1
    res.nontrivial += 1
    res.ob(bool(calls))
    if not calls:
        res.add(Finding("WINDOWHOOK", COMP, wsf.lineno, wsf.qualname, "mem.window", "window data pointers are not produced through the buffer's Memory.window hook: memories with their own addressing are bypassed"))
    else:
        # the returned data pointer is that call's value
        ret_ok = False
        names = set()
        for n in wsf.body_nodes():
            if isinstance(n, ast.Assign) and n.value in calls and isinstance(n.targets[0], ast.Name):
                names.add(n.targets[0].id)
        for n in wsf.body_nodes():
            if isinstance(n, ast.Return) and n.value is not None:
                first = n.value.elts[0] if isinstance(n.value, ast.Tuple) else n.value
                if (isinstance(first, ast.Name) and first.id in names) or first in calls:
                    ret_ok = True
        res.ob(ret_ok)
        if not ret_ok:
            res.add(Finding("WINDOWHOOK", COMP, wsf.lineno, wsf.qualname, "return dataptr", "window_struct_fields does not return the pointer computed by Memory.window"))
    for qn, subj in (("Compiler.comp_e", "e"), ("Compiler.comp_fnarg", "e")):
        f = ix.func(COMP, qn)
        cs = cases_for(f, adts, subj, "LoopIR", "WindowExpr")
        if not cs:
            raise AnalysisError(f"anchor vanished: WindowExpr case in {qn}")
        res.instances += 1
        res.nontrivial += 1
        ok = any(isinstance(n, ast.Call) and last_name(n) == "window_struct_fields" for c in cs for n in _walk(c.body))
        res.ob(ok)
        if not ok:
            res.add(Finding("WINDOWHOOK", COMP, cs[0].lineno, qn, "WindowExpr", f"{qn} builds a window struct without window_struct_fields"))
    res.floor = 3
    return res


# ----------------------------------------------------------------- MEMGATE
def rule_memgate(ctx, prop: str) -> RuleResult:
    ix, adts = ctx.ix, ctx.adts
    res = RuleResult("MEMGATE")
    # reads
    f = ix.func(COMP, "Compiler.comp_e")
    res.analysed.append(f"{COMP}:Compiler.comp_e")
    cs = cases_for(f, adts, "e", "LoopIR", "Read")
    if not cs:
        raise AnalysisError("anchor vanished: Read case in comp_e")
    fake = ast.FunctionDef(name="_", args=f.node.args, body=[s for c in cs for s in c.body], decorator_list=[], lineno=0)

    def is_site(n):
        return isinstance(n, ast.Call) and last_name(n) == "access_str"

    an = run_must(fake, is_site)
    sites = an.site_facts()
    if not sites:
        raise AnalysisError("anchor vanished: access_str in comp_e Read case")
    for n, facts in sites:
        res.instances += 1
        res.nontrivial += 1
        ok = "guard:can_read" in facts
        res.ob(ok)
        res.sample(f"comp_e Read: access_str dominated by a raising can_read() guard: {ok}")
        if not ok:
            res.add(Finding("MEMGATE", COMP, n.lineno, f.qualname, "access_str<-can_read", "a buffer read is emitted on a path that never passed `if not mem.can_read(): raise`: unreadable memories are read directly"))
    # every by-value return of a numeric read is also behind the gate
    for kind, node, facts in an.exits:
        if kind == "return" and isinstance(node, ast.Return):
            txt = ast.unparse(node.value) if node.value is not None else ""
            if "guard:can_read" in facts:
                continue
            # control-typed reads (index, size, bool, stride values) return before the gate; they are
            # identified by the test that leads there.  Any other return yields the text of a read of a
            # NUMERIC buffer (`*x`, `x`, x[...]) and must lie behind the gate as well — scalars included
            res.instances += 1
            res.nontrivial += 1
            p_ = parent(node)
            ctl = False
            while p_ is not None and p_ is not fake:
                if isinstance(p_, ast.If) and any(node in ast.walk(s_) for s_ in p_.body) and any(isinstance(k, ast.Call) and last_name(k) == "is_indexable" for k in ast.walk(p_.test)):
                    ctl = True
                    break
                p_ = parent(p_)
            res.ob(ctl)
            res.sample(f"comp_e Read: `return {txt[:40]}` before the can_read() gate is the control-typed case: {ctl}")
            if not ctl:
                res.add(Finding("MEMGATE", COMP, node.lineno, f.qualname, f"return<-can_read:{txt[:30]}",
                                f"`return {txt[:50]}` emits a read of a numeric buffer on a path that never passed `if not mem.can_read(): raise`: a scalar living in an unreadable memory "
                                f"is read directly instead of being rejected with MemGenError"))
    # writes / reduces
    g = ix.func(COMP, "Compiler.comp_s")
    res.analysed.append(f"{COMP}:Compiler.comp_s")
    cs = cases_for(g, adts, "s", "LoopIR", "Assign")
    if not cs:
        raise AnalysisError("anchor vanished: Assign case in comp_s")
    for c in cs:
        for n in _walk(c.body):
            if isinstance(n, ast.Call) and last_name(n) == "add_line":
                res.instances += 1
                res.nontrivial += 1
                arg = n.args[0] if n.args else None
                ok = isinstance(arg, ast.Call) and isinstance(arg.func, ast.Attribute) and arg.func.attr in ("write", "reduce")
                if ok:
                    # chosen by the statement kind
                    p = parent(n)
                    while p is not None and not isinstance(p, ast.If):
                        p = parent(p)
                    want = None
                    if isinstance(p, ast.If) and "isinstance" in ast.unparse(p.test):
                        isassign = "Assign" in ast.unparse(p.test)
                        inbody = any(n in ast.walk(s) for s in p.body)
                        want = "write" if (isassign == inbody) else "reduce"
                    ok = want is None or arg.func.attr == want
                res.ob(ok)
                if not ok:
                    res.add(Finding("MEMGATE", COMP, n.lineno, g.qualname, norm_stmt(n), "an assignment/reduction is emitted without going through the buffer memory's write()/reduce() hook (or through the wrong one)"))
    res.floor = 3
    return res


# ------------------------------------------------------------ CALLBOUNDARY
def rule_callboundary(ctx, prop: str) -> RuleResult:
    ix, adts = ctx.ix, ctx.adts
    res = RuleResult("CALLBOUNDARY")
    # precision
    pa = ix.func("src/exo/backend/prec_analysis.py", "PrecisionAnalysis.map_s")
    res.analysed.append(f"{pa.file}:{pa.qualname}")
    cs = cases_for(pa, adts, "s", "LoopIR", "Call")
    if not cs:
        raise AnalysisError("anchor vanished: Call case in PrecisionAnalysis.map_s")
    ok = False
    for n in _walk([s for c in cs for s in c.body]):
        if isinstance(n, ast.For) and ".f.args" in ast.unparse(n.iter):
            for k in ast.walk(n):
                if isinstance(k, ast.If) and any(isinstance(o, ast.NotEq) for c2 in ast.walk(k.test) if isinstance(c2, ast.Compare) for o in c2.ops):
                    if any(isinstance(x, ast.Call) and last_name(x) == "err" for s in k.body for x in ast.walk(s)):
                        ok = True
    res.instances += 1
    res.nontrivial += 1
    res.ob(ok)
    if not ok:
        res.add(Finding("CALLBOUNDARY", pa.file, cs[0].lineno, pa.qualname, "Call:precision", "call arguments' precisions are not compared with the callee signature (error on `!=`): mixed precision passes silently across calls"))
    # err() accumulates and run() raises
    cls = ix.module("src/exo/backend/prec_analysis.py").cls("PrecisionAnalysis")
    run = cls.methods.get("run")
    if run is None:
        raise AnalysisError("anchor vanished: PrecisionAnalysis.run")
    raises = any(isinstance(n, ast.If) and nonempty_test(n.test, "_errors") and always_raises(n.body) for n in run.body_nodes())
    res.instances += 1
    res.ob(raises)
    if not raises:
        res.add(Finding("CALLBOUNDARY", run.file, run.lineno, run.qualname, "errors->raise", "recorded precision errors do not abort compilation"))
    # mixed precision inside an expression: BinOp case reports lhs.type != rhs.type
    me = ix.func("src/exo/backend/prec_analysis.py", "PrecisionAnalysis.map_e")
    for K, what in (("BinOp", "operands of one operator"), ("Extern", "arguments of one extern")):
        cs = cases_for(me, adts, "e", "LoopIR", K)
        if not cs:
            raise AnalysisError(f"anchor vanished: {K} case in PrecisionAnalysis.map_e")
        ok = False
        for n in _walk([s for c in cs for s in c.body]):
            if isinstance(n, ast.If) and any(isinstance(o, ast.NotEq) for c2 in ast.walk(n.test) if isinstance(c2, ast.Compare) for o in c2.ops) and ".type" in ast.unparse(n.test):
                seg = n.body
                if any(isinstance(x, ast.Call) and last_name(x) == "err" for s in seg for x in ast.walk(s)):
                    ok = True
                # `elif lhs.type != rhs.type` form or nested else
                if any(isinstance(x, ast.Call) and last_name(x) == "err" for s in n.orelse for x in ast.walk(s)):
                    ok = True
        res.instances += 1
        res.nontrivial += 1
        res.ob(ok)
        if not ok:
            res.add(Finding("CALLBOUNDARY", me.file, cs[0].lineno, me.qualname, f"{K}:mixed", f"no error is reported when {what} have different precisions"))
    # memory
    ms = ix.func("src/exo/backend/mem_analysis.py", "MemoryAnalysis.mem_s")
    res.analysed.append(f"{ms.file}:{ms.qualname}")
    cs = cases_for(ms, adts, "s", "LoopIR", "Call")
    if not cs:
        raise AnalysisError("anchor vanished: Call case in MemoryAnalysis.mem_s")
    ok = False
    for n in _walk([s for c in cs for s in c.body]):
        if isinstance(n, ast.If) and isinstance(n.test, ast.UnaryOp) and isinstance(n.test.op, ast.Not):
            t = n.test.operand
            if isinstance(t, ast.Call) and dotted(t.func) == "issubclass" and always_raises(n.body):
                # argument order: issubclass(caller_mem, callee_mem)
                a0, a1 = (ast.unparse(x) for x in t.args[:2])
                ok = True
                order_ok = _derives_from(cs, a0, "get_e_mem") and _derives_from(cs, a1, ".mem")
                res.instances += 1
                res.ob(order_ok)
                if not order_ok:
                    res.add(Finding("CALLBOUNDARY", ms.file, n.lineno, ms.qualname, "issubclass-order", "the memory check must be issubclass(caller's memory, callee's declared memory)"))
    res.instances += 1
    res.nontrivial += 1
    res.ob(ok)
    if not ok:
        res.add(Finding("CALLBOUNDARY", ms.file, cs[0].lineno, ms.qualname, "Call:memory", "no `if not issubclass(caller_mem, callee_mem): raise` at call boundaries: a buffer reaches a callee expecting another memory"))
    # window -> dense
    wa = ix.func("src/exo/backend/win_analysis.py", "WindowAnalysis.map_s")
    res.analysed.append(f"{wa.file}:{wa.qualname}")
    ok = False
    for n in wa.all_nodes():
        if isinstance(n, ast.If) and "is_win" in ast.unparse(n.test) and always_raises(n.body):
            ok = True
        if isinstance(n, ast.If) and "is_win" in ast.unparse(n.test):
            for k in n.orelse:
                if isinstance(k, ast.If) and "is_win" in ast.unparse(k.test) and always_raises(k.body):
                    ok = True
    res.instances += 1
    res.nontrivial += 1
    res.ob(ok)
    if not ok:
        res.add(Finding("CALLBOUNDARY", wa.file, wa.lineno, wa.qualname, "window->dense", "a window passed where a dense tensor is required is no longer rejected"))
    res.floor = 6
    return res


def _derives_from(cases: List[Case], var: str, marker: str) -> bool:
    for c in cases:
        for n in _walk(c.body):
            if isinstance(n, ast.Assign) and any(isinstance(t, ast.Name) and t.id == var for t in n.targets):
                if marker in ast.unparse(n.value):
                    return True
    return False


# -------------------------------------------------------------- TYPETABLES
def _t_instances(ix) -> Dict[str, str]:
    """`T.f32` -> `F32` from class T body (`f32 = F32()`)."""
    out = {}
    m = ix.module("src/exo/core/LoopIR.py")
    for st in m.cls("T").node.body:
        if isinstance(st, ast.Assign) and isinstance(st.value, ast.Call) and isinstance(st.value.func, ast.Name) and isinstance(st.targets[0], ast.Name):
            out[st.targets[0].id] = st.value.func.id
    return out


REAL_SCALARS = ["F16", "F32", "F64", "INT8", "UINT8", "UINT16", "INT32"]
CONTROL = ["Bool", "Int", "Index", "Size", "Stride"]


def rule_typetables(ctx, prop: str) -> RuleResult:
    ix, adts = ctx.ix, ctx.adts
    res = RuleResult("TYPETABLES")
    tinst = _t_instances(ix)
    L = adts["LoopIR"]
    # the reference sets are recomputed from the ADT: every nullary type ctor
    nullary = [c for c in L.ctors_of("type") if not L.ctor(c).fields]
    # (1) T.ctype covers all but Num/Error
    from ..dispatch import mentioned_ctors

    lm = ix.module("src/exo/core/LoopIR.py")
    ctype_fs = [f for qn, f in lm.funcs.items() if qn.split("#")[0] == "ctype"]
    if not ctype_fs:
        raise AnalysisError("anchor vanished: ctype extension method")
    cov = set()
    for f in ctype_fs:
        cov |= {c for a, c in mentioned_ctors(f, adts) if a == "LoopIR"}
    for K in nullary:
        if K in ("Num", "Error"):
            continue
        res.instances += 1
        ok = K in cov
        res.ob(ok)
        if not ok:
            res.add(Finding("TYPETABLES", lm.rel, ctype_fs[0].lineno, "ctype", K, f"T.{K} has no C type: ctype() returns None and the text 'None' is emitted"))
    res.nontrivial += 1
    res.sample(f"ctype covers {sorted(cov)}")
    # (2) window_struct shorthand covers all real scalars
    ws = ix.func(COMP, "window_struct")
    keys = set()
    for n in ws.body_nodes():
        if isinstance(n, ast.Dict):
            for k in n.keys:
                d = dotted(k)
                if d and d.startswith("T."):
                    keys.add(tinst.get(d[2:], d[2:]))
    for K in REAL_SCALARS:
        if K not in nullary:
            continue
        res.instances += 1
        ok = K in keys
        res.ob(ok)
        if not ok:
            res.add(Finding("TYPETABLES", COMP, ws.lineno, "window_struct", K, f"no window struct shorthand for T.{K}: a window of that precision raises KeyError at compile time"))
    res.nontrivial += 1
    # (3) configs.ctyp ⊇ range(uast_to_type)
    cm = ix.module("src/exo/core/configs.py")
    ctyp = cm.func("ctyp")
    cov2 = set()
    for n in ctyp.body_nodes():
        if isinstance(n, ast.Call) and dotted(n.func) == "isinstance" and len(n.args) == 2:
            d = dotted(n.args[1])
            if d:
                cov2.add(d.split(".")[-1])
    rng = set()
    init = cm.func("Config.__init__")
    for n in init.body_nodes():
        if isinstance(n, ast.Dict):
            for v in n.values:
                d = dotted(v)
                if d and ".T." in "." + d:
                    rng.add(tinst.get(d.split(".")[-1], d.split(".")[-1]))
    if not rng:
        raise AnalysisError("anchor vanished: Config.__init__ uast_to_type table")
    for K in sorted(rng):
        res.instances += 1
        ok = K in cov2
        res.ob(ok)
        if not ok:
            res.add(Finding("TYPETABLES", cm.rel, ctyp.lineno, "ctyp", K, f"config fields may have type {K} but configs.ctyp has no C type for it"))
    res.nontrivial += 1
    # (4) TypeChecker._typ_table ⊇ nullary UAST type ctors
    tm = ix.module("src/exo/frontend/typecheck.py")
    tt = None
    for st in tm.cls("TypeChecker").node.body:
        if isinstance(st, ast.Assign) and isinstance(st.targets[0], ast.Name) and st.targets[0].id == "_typ_table" and isinstance(st.value, ast.Dict):
            tt = st.value
    if tt is None:
        raise AnalysisError("anchor vanished: TypeChecker._typ_table")
    have = {dotted(k).split(".")[-1] for k in tt.keys if dotted(k)}
    U = adts["UAST"]
    for K in U.ctors_of("type"):
        if U.ctor(K).fields:
            continue
        res.instances += 1
        ok = K in have
        res.ob(ok)
        if not ok:
            res.add(Finding("TYPETABLES", tm.rel, tt.lineno, "TypeChecker._typ_table", K, f"UAST.{K} has no LoopIR type: check_t asserts"))
    # values agree by name (UAST.F32 -> T.f32 -> F32)
    for k, v in zip(tt.keys, tt.values):
        kn = dotted(k).split(".")[-1]
        vn = dotted(v)
        tgt = tinst.get(vn[2:], None) if vn and vn.startswith("T.") else None
        res.instances += 1
        ok = tgt == kn
        res.ob(ok)
        if not ok:
            res.add(Finding("TYPETABLES", tm.rel, k.lineno, "TypeChecker._typ_table", f"{kn}->{vn}", f"UAST.{kn} is typed as {vn} (= LoopIR.{tgt}): precision silently changed by the typechecker"))
    res.nontrivial += 1
    res.floor = 30
    return res


# ------------------------------------------------------------------ CONSTQ
def rule_constq(ctx, prop: str) -> RuleResult:
    """`const` qualification derives only from the alias-closed write analysis."""
    ix, adts = ctx.ix, ctx.adts
    res = RuleResult("CONSTQ")
    init = ix.func(COMP, "Compiler.__init__")
    res.analysed.append(f"{COMP}:Compiler.__init__")
    assigns = [n for n in init.body_nodes() if isinstance(n, ast.Assign) and dotted(n.targets[0]) == "self.non_const"]
    res.instances += 1
    res.nontrivial += 1
    ok = len(assigns) == 1 and any(isinstance(x, ast.Call) and last_name(x) == "get_writes_of_stmts" and "proc.body" in ast.unparse(x) for x in ast.walk(assigns[0].value))
    res.ob(ok)
    if not ok:
        res.add(Finding("CONSTQ", COMP, init.lineno, init.qualname, "non_const", "self.non_const is not computed from get_writes_of_stmts(self.proc.body): const may be put on written storage"))
    # no other writer of non_const
    for fn in ix.module(COMP).funcs.values():
        for n in fn.body_nodes():
            if isinstance(n, (ast.Assign, ast.AugAssign)):
                tg = n.targets[0] if isinstance(n, ast.Assign) else n.target
                if dotted(tg) == "self.non_const" and fn.qualname != "Compiler.__init__":
                    res.instances += 1
                    res.ob(False)
                    res.add(Finding("CONSTQ", COMP, n.lineno, fn.qualname, "non_const-write", "non_const rewritten outside __init__"))
    # const keyword sites test non_const negatively
    n_sites = 0
    for fn in ix.module(COMP).funcs.values():
        for n in fn.body_nodes():
            if isinstance(n, ast.IfExp) and isinstance(n.body, ast.Constant) and isinstance(n.body.value, str) and n.body.value.strip() == "const":
                if fn.qualname == "_window_struct":
                    continue
                n_sites += 1
                res.instances += 1
                t = n.test
                ok = isinstance(t, ast.Compare) and isinstance(t.ops[0], ast.NotIn) and dotted(t.comparators[0]) == "self.non_const"
                res.ob(ok)
                if not ok:
                    res.add(Finding("CONSTQ", COMP, n.lineno, fn.qualname, "const-if", "`const` chosen by something other than `name not in self.non_const`"))
            if isinstance(n, ast.Assign) and isinstance(n.targets[0], ast.Name) and n.targets[0].id == "is_const" and isinstance(n.value, ast.Compare):
                n_sites += 1
                res.instances += 1
                t = n.value
                cmp_txt = ast.unparse(t.comparators[0])
                ok = isinstance(t.ops[0], ast.NotIn) and ("non_const" in cmp_txt or "get_writes_of_stmts" in cmp_txt or _name_from_writes(fn, cmp_txt))
                res.ob(ok)
                if not ok:
                    res.add(Finding("CONSTQ", COMP, n.lineno, fn.qualname, "is_const", "`is_const` for a window is not `not in <written set>`"))
    # GetWrites must resolve window aliases (WINALIAS)
    gw = ix.module("src/exo/core/LoopIR.py").cls("GetWrites")
    ds = gw.methods.get("do_s")
    if ds is None:
        raise AnalysisError("anchor vanished: GetWrites.do_s")
    txt = ast.unparse(ds.node)
    res.instances += 1
    res.nontrivial += 1
    ok = "window_dict" in txt and "WindowStmt" in txt
    res.ob(ok)
    if not ok:
        res.add(Finding("CONSTQ", ds.file, ds.lineno, ds.qualname, "window_dict", "GetWrites no longer maps writes through window aliases to the underlying buffer: an argument written via a window is declared const"))
    res.floor = 4
    if n_sites < 2:
        raise AnalysisError(f"CONSTQ: expected >= 2 const-qualification sites, found {n_sites}")
    return res


def _name_from_writes(fn: Func, name_txt: str) -> bool:
    for n in fn.body_nodes():
        if isinstance(n, ast.Assign) and isinstance(n.targets[0], ast.Name) and n.targets[0].id == name_txt:
            return "get_writes_of_stmts" in ast.unparse(n.value)
    return False


def rule_envname(ctx, prop: str) -> RuleResult:
    """Generated C refers to an Exo variable only through the compiler's name environment
    (`env[sym]` / `self.env[sym]`, filled by `new_varname`, which renames apart variables
    that share a source-level name).  Inside the code-emitting methods of `Compiler`, no
    f-string that becomes C text may interpolate a node's `.name` (a Sym) directly."""
    ix = ctx.ix
    res = RuleResult("ENVNAME")
    c = ix.module(COMP).cls("Compiler")
    emitters = ("comp_cir", "comp_e", "comp_s", "access_str", "shape_strs", "window_struct_fields", "comp_fnarg")
    n = 0
    for mname in emitters:
        f = c.methods.get(mname)
        if f is None:
            continue
        res.analysed.append(f"{COMP}:{f.qualname}")
        for js in f.body_nodes():
            if not isinstance(js, ast.JoinedStr):
                continue
            # error messages and comments are not C code
            p = parent(js)
            in_raise = False
            while p is not None and p is not f.node:
                if isinstance(p, ast.Raise) or (isinstance(p, ast.Call) and last_name(p) in ("err", "MemGenError", "TypeError", "ConfigError")):
                    in_raise = True
                p = parent(p)
            if in_raise:
                continue
            for fv in js.values:
                if not isinstance(fv, ast.FormattedValue):
                    continue
                for a in ast.walk(fv.value):
                    if isinstance(a, ast.Attribute) and a.attr == "name" and isinstance(a.value, ast.Name):
                        # not a node: a WindowStruct descriptor (`win = window_struct(...)`), whose `.name` is
                        # the C struct tag
                        defs_ = [k.value for k in f.body_nodes() if isinstance(k, ast.Assign) and len(k.targets) == 1 and isinstance(k.targets[0], ast.Name) and k.targets[0].id == a.value.id]
                        if defs_ and all(isinstance(v, ast.Call) and last_name(v) == "window_struct" for v in defs_):
                            continue
                        # allowed: env[x.name], self.env[x.name], self.mems[...], x.name() calls
                        q = parent(a)
                        ok = False
                        while q is not None and q is not fv:
                            if isinstance(q, ast.Subscript) and (dotted(q.value) or "").endswith("env"):
                                ok = True
                            if isinstance(q, ast.Call) and q.func is a:
                                ok = True  # method call .name()
                            q = parent(q)
                        n += 1
                        res.instances += 1
                        res.nontrivial += 1
                        res.ob(ok)
                        res.sample(f"{f.qualname}: `{ast.unparse(fv.value)[:50]}` goes through the name environment: {ok}")
                        if not ok:
                            res.add(
                                Finding("ENVNAME", COMP, js.lineno, f.qualname, ast.unparse(a),
                                        f"{f.qualname} writes `{ast.unparse(a)}` (the source-level name) into C text instead of the variable's C name `env[{ast.unparse(a)}]`: "
                                        f"when two variables share a name (w and w_1 after inlining a callee twice) the second one's code refers to the first")
                            )
    if n < 1:
        raise AnalysisError("ENVNAME: no interpolation of a node name found in the emitting methods of Compiler")
    res.floor = 1
    return res


def rule_basekey(ctx, prop: str) -> RuleResult:
    """`Compiler.non_const` holds the UNDERLYING buffers that are written
    (`get_writes_of_stmts` resolves windows to their roots).  A membership test against
    it must therefore be made on an underlying buffer: a procedure argument's own name, or
    a name resolved through the chain of window types (`while isinstance(envtyp[v],
    T.Window): v = envtyp[v].src_buf`) — never on a window's immediate source."""
    ix = ctx.ix
    res = RuleResult("BASEKEY")
    c = ix.module(COMP).cls("Compiler")
    n = 0
    for f in c.methods.values():
        for cmp_ in f.body_nodes():
            if not (isinstance(cmp_, ast.Compare) and len(cmp_.ops) == 1 and isinstance(cmp_.ops[0], (ast.In, ast.NotIn)) and dotted(cmp_.comparators[0]) == "self.non_const"):
                continue
            n += 1
            res.instances += 1
            res.nontrivial += 1
            res.analysed.append(f"{COMP}:{f.qualname}")
            key = cmp_.left
            txt = ast.unparse(key)
            ok = False
            why = ""
            if isinstance(key, ast.Attribute) and key.attr == "name":
                ok, why = True, "a declaration's own name"
            elif isinstance(key, ast.Name):
                # resolved by a closure loop over window types
                for w in f.body_nodes():
                    if isinstance(w, ast.While) and "T.Window" in ast.unparse(w.test) and key.id in ast.unparse(w.test):
                        if any(isinstance(k, ast.Assign) and dotted(k.targets[0]) == key.id and "src_buf" in ast.unparse(k.value) for b in w.body for k in ast.walk(b)):
                            ok, why = True, "resolved through the chain of window types"
            res.ob(ok)
            res.sample(f"{f.qualname}: `{ast.unparse(cmp_)}` tests an underlying buffer ({why or 'NOT established'}): {ok}")
            if not ok:
                res.add(
                    Finding("BASEKEY", COMP, cmp_.lineno, f.qualname, txt,
                            f"`{ast.unparse(cmp_)}`: non_const contains underlying buffers only, `{txt}` may be a window (window of a window): the struct is declared const and then "
                            f"written through — the generated C does not compile (inline of a callee that windows its window argument)")
                )
    if n < 3:
        raise AnalysisError(f"BASEKEY: expected >= 3 membership tests against self.non_const, found {n}")
    res.floor = 3
    return res


def rule_tokenglue(ctx, prop: str) -> RuleResult:
    """C text is built by concatenation.  A prefix `-` glued directly onto the text of a
    sub-expression that may itself begin with `-` (a nested negation, a negative literal
    produced by partial_eval) yields the token `--`, the C *decrement* operator:
    `x[i] = --y[i];` writes y (or does not compile against `const float* y`) and
    `i < --3` is not C at all.  Every f-string / concatenation in the C emitter that puts a
    sub-expression's text right after a literal ending in `-` must parenthesise it or test
    `text.startswith("-")` first."""
    ix = ctx.ix
    res = RuleResult("TOKENGLUE")
    m = ix.module(COMP)

    def guarded(js: ast.AST, name: Optional[str], f: Func) -> bool:
        if name is None:
            return False
        par = parent(js)
        # `A if text.startswith("-") else f"-{text}"`
        if isinstance(par, ast.IfExp) and par.orelse is js:
            t = ast.unparse(par.test)
            if f"{name}.startswith('-')" in t:
                return True
        if isinstance(par, ast.IfExp) and par.body is js:
            t = ast.unparse(par.test)
            if f"not {name}.startswith('-')" in t:
                return True
        # an earlier `if text.startswith("-"): return ...` in the same block
        st = js
        while st is not None and not isinstance(st, ast.stmt):
            st = parent(st)
        blk_owner = parent(st) if st is not None else None
        for fld in ("body", "orelse"):
            blk = getattr(blk_owner, fld, None)
            if isinstance(blk, list) and st in blk:
                for prev in blk[: blk.index(st)]:
                    if isinstance(prev, ast.If) and f"{name}.startswith('-')" in ast.unparse(prev.test) and prev.body and isinstance(prev.body[-1], (ast.Return, ast.Raise)):
                        return True
        return False

    n = 0
    for f in sorted((f for f in ix.all_funcs() if f.file == COMP), key=lambda f: f.lineno):
        for js in f.body_nodes():
            if not isinstance(js, ast.JoinedStr):
                continue
            vals = js.values
            for i in range(len(vals) - 1):
                a, b = vals[i], vals[i + 1]
                if isinstance(a, ast.Constant) and isinstance(a.value, str) and a.value.endswith("-") and isinstance(b, ast.FormattedValue):
                    n += 1
                    res.instances += 1
                    res.nontrivial += 1
                    nm = b.value.id if isinstance(b.value, ast.Name) else None
                    ok = guarded(js, nm, f)
                    res.ob(ok)
                    res.sample(f"{f.qualname}: `{ast.unparse(js)[:60]}` guarded against a leading '-': {ok}")
                    if not ok:
                        res.add(Finding("TOKENGLUE", COMP, js.lineno, f.qualname, f"glue:-{ast.unparse(b.value)[:40]}",
                                        f"`{ast.unparse(js)[:70]}` glues a prefix minus onto the text of a sub-expression that may itself start with `-` (nested negation, negative literal from partial_eval): "
                                        f"the emitted `--` is the C decrement operator — `x[i] = --y[i];` / `i < --3`"))
    if n < 2:
        raise AnalysisError(f"TOKENGLUE: expected the two unary-minus emitters (comp_e, comp_cir) in the C emitter, found {n} — idiom changed, checker blind")
    res.floor = 2
    return res


EXT = "src/exo/libs/externs.py"


def rule_externname(ctx, prop: str) -> RuleResult:
    """An extern's `globl(prim_type)` is emitted once per precision the extern is used at.  If it
    DEFINES a C function whose signature mentions `prim_type`, the function's name must mention
    it too (`_relu_{prim_type}`, `_select_{prim_type}`): otherwise a library that uses the extern
    at f32 and at f64 contains `float f(float)` and `double f(double)` — conflicting definitions,
    not C.  `compile()` must call the name `globl()` defines."""
    import re as _re

    ix = ctx.ix
    res = RuleResult("EXTERNNAME")
    m = ix.module(EXT)
    n_ext = 0
    for c in sorted(m.classes.values(), key=lambda c: c.node.lineno):
        g = c.methods.get("globl")
        comp = c.methods.get("compile")
        if g is None or comp is None:
            continue
        ps = [a for a in g.params() if a != "self"]
        if not ps:
            continue
        pt = ps[0]
        n_ext += 1
        res.analysed.append(f"{EXT}:{c.name}.globl")
        # flatten every string built in globl into a template: literal text with {prim_type} marks
        tmpl = ""
        for n in g.body_nodes():
            if isinstance(n, ast.JoinedStr):
                for v in n.values:
                    if isinstance(v, ast.Constant):
                        tmpl += str(v.value)
                    elif isinstance(v, ast.FormattedValue):
                        tmpl += "\x00" if ast.unparse(v.value) == pt else "\x01"
                tmpl += "\n"
        defs = _re.findall(r"\x00\s+([A-Za-z_\x00][A-Za-z_0-9\x00]*)\s*\(", tmpl)
        res.instances += 1
        if not defs:
            res.ob(True)
            continue
        res.nontrivial += 1
        for name in defs:
            ok = "\x00" in name
            res.ob(ok)
            shown = name.replace("\x00", "{" + pt + "}")
            res.sample(f"{c.name}.globl defines `{shown}` — the name carries the precision: {ok}")
            if not ok:
                res.add(Finding("EXTERNNAME", EXT, g.lineno, f"{c.name}.globl", f"def:{shown}",
                                f"{c.name}.globl defines `{{{pt}}} {shown}({{{pt}}} ...)`: the signature depends on the precision but the name does not. A library that uses the extern at two "
                                f"precisions contains `float {shown}(float)` and `double {shown}(double)` — conflicting definitions that no C compiler accepts"))
            # compile() calls the defined name
            ctmpl = ""
            for n in comp.body_nodes():
                if isinstance(n, ast.JoinedStr):
                    cps = [a for a in comp.params() if a != "self"]
                    cpt = cps[-1] if cps else pt
                    for v in n.values:
                        if isinstance(v, ast.Constant):
                            ctmpl += str(v.value)
                        elif isinstance(v, ast.FormattedValue):
                            ctmpl += "\x00" if ast.unparse(v.value) == cpt else "\x01"
            res.instances += 1
            ok2 = ctmpl.lstrip().startswith(name + "(")
            res.ob(ok2)
            if not ok2:
                res.add(Finding("EXTERNNAME", EXT, comp.lineno, f"{c.name}.compile", f"call:{shown}", f"{c.name}.compile does not call the function `{shown}` that globl defines"))
    # C's f-suffixed math functions take and return float.  An extern that accepts any real scalar but
    # always emits the f-suffixed function narrows an f64 operand to float and widens the result again —
    # silently coercing code, which C15 says must not be produced (choose the function by precision, or
    # reject the precision in typecheck)
    FLOAT_ONLY = {"expf", "fmaxf", "fminf", "sqrtf", "sinf", "cosf", "tanf", "fabsf", "logf", "powf", "floorf", "ceilf", "tanhf", "erff"}
    for c in sorted(m.classes.values(), key=lambda c: c.node.lineno):
        comp = c.methods.get("compile")
        tc = c.methods.get("typecheck")
        if comp is None or tc is None:
            continue
        for n in comp.body_nodes():
            if not (isinstance(n, ast.Return) and isinstance(n.value, ast.JoinedStr) and n.value.values and isinstance(n.value.values[0], ast.Constant)):
                continue
            head = str(n.value.values[0].value).lstrip()
            callee = head.split("(")[0]
            if callee not in FLOAT_ONLY:
                continue
            res.instances += 1
            res.nontrivial += 1
            restricted = any(isinstance(k, ast.Attribute) and k.attr in ("f32", "F32") for k in tc.body_nodes())
            res.ob(restricted)
            res.sample(f"{c.name}.compile always emits `{callee}` — typecheck restricts the operands to f32: {restricted}")
            if not restricted:
                res.add(Finding("EXTERNNAME", EXT, n.lineno, f"{c.name}.compile", f"float-only:{callee}",
                                f"{c.name} accepts any real scalar but always emits the float function `{callee}`: an f64 operand is narrowed to float and the result widened again "
                                f"(`y[i] = {callee}((double)(x[i]))`) — silently coercing code"))
    if n_ext < 6:
        raise AnalysisError(f"EXTERNNAME: expected >= 6 externs with globl/compile in libs/externs.py, found {n_ext}")
    res.floor = 6
    return res


def rule_winconstarg(ctx, prop: str) -> RuleResult:
    """A callee declares a window parameter as `struct exo_win_<n><t>c` (const) when it never writes
    it and as `struct exo_win_<n><t>` otherwise; the two are different C struct types.  Every way a
    window reaches a call must therefore produce the struct the CALLEE declares — its const-ness taken
    from the callee's writes (`get_writes_of_stmts(fn.body)`): the window-expression case builds the
    literal of that type, and the by-name case (a window variable or window parameter the caller also
    writes is a non-const struct in the caller) must convert.  Passing the caller's struct as it is gives
    `error: incompatible type for argument` in every C compiler."""
    ix, adts = ctx.ix, ctx.adts
    res = RuleResult("WINCONSTARG")
    f = ix.func(COMP, "Compiler.comp_fnarg")
    res.analysed.append(f"{COMP}:Compiler.comp_fnarg")
    ps = [a for a in f.params() if a != "self"]
    subj = ps[0] if ps else "e"
    n_paths = 0
    for n in f.node.body:
        if not isinstance(n, ast.If):
            continue
        # walk the if / elif chain on the argument node
        chain = []
        cur = n
        while isinstance(cur, ast.If):
            chain.append(cur)
            cur = cur.orelse[0] if len(cur.orelse) == 1 and isinstance(cur.orelse[0], ast.If) else None
        for c in chain:
            t = ast.unparse(c.test)
            if f"isinstance({subj}, LoopIR.WindowExpr)" in t:
                region, what = c.body, "window expression"
            elif f"isinstance({subj}, LoopIR.Read)" in t:
                # the branch of the Read case that handles tensors / windows
                region = None
                for k in ast.walk(c):
                    if isinstance(k, ast.If) and "is_tensor_or_window" in ast.unparse(k.test):
                        region = k.body
                what = "window passed by name"
                if region is None:
                    raise AnalysisError("anchor vanished: tensor/window branch of comp_fnarg's Read case")
            else:
                continue
            n_paths += 1
            res.instances += 1
            res.nontrivial += 1
            ok = any(isinstance(k, ast.Call) and last_name(k) == "get_writes_of_stmts" and k.args and ast.unparse(k.args[0]).endswith(".body") for st in region for k in ast.walk(st))
            res.ob(ok)
            res.sample(f"comp_fnarg, {what}: const-ness of the struct taken from the callee's writes: {ok}")
            if not ok:
                res.add(Finding("WINCONSTARG", COMP, c.lineno, f.qualname, f"callee-constness:{what.replace(' ', '-')}",
                                f"comp_fnarg, {what}: the window struct handed to the callee is not typed by the callee's own writes. A window that the caller writes elsewhere is a "
                                f"`struct exo_win_1f32` in the caller; a callee that only reads it declares `struct exo_win_1f32c` — the emitted call does not compile (incompatible argument type)"))
    if n_paths < 2:
        raise AnalysisError(f"WINCONSTARG: expected the Read and WindowExpr cases of comp_fnarg, found {n_paths}")
    res.floor = 2
    return res
