"""C08 rules: MEMPAIR, FREEONCE, WINALIAS(liveness) (DESIGN §3.9, §3.14)."""
from __future__ import annotations

import ast
import re
from typing import Dict, List, Optional, Set, Tuple

from ..index import AnalysisError, Class, Func, Index, dotted, last_name, norm_stmt, parent
from ..report import Finding, RuleResult

MA = "src/exo/backend/mem_analysis.py"

PAIR = {
    "malloc": "free",
    "malloc_dram": "free_dram",
    "gemm_malloc": "gemm_free",
    "gemm_acc_malloc": "gemm_acc_free",
    "#define": "#undef",
}
_ALLOC_RE = re.compile(r"(\b\w*malloc\w*)\s*\(|(#define)\b")
_FREE_RE = re.compile(r"(\b\w*free\w*)\s*\(|(#undef)\b")


def _strings(node: ast.AST) -> List[str]:
    out = []
    for n in ast.walk(node):
        if isinstance(n, ast.Constant) and isinstance(n.value, str):
            out.append(n.value)
    return out


def _return_strings(f: Func) -> List[str]:
    out = []
    for n in f.body_nodes():
        if isinstance(n, ast.Return) and n.value is not None:
            out.append(" ".join(_strings(n.value)))
        # result = f"..." ; return result
        if isinstance(n, ast.Assign) and isinstance(n.value, (ast.JoinedStr, ast.Constant)):
            out.append(" ".join(_strings(n.value)))
    return out


def _tokens(f: Func, rx) -> Set[str]:
    out = set()
    for s in _return_strings(f):
        for m in rx.finditer(s):
            out.add(m.group(1) or m.group(2))
    return out


def _scalar_test(f: Func) -> bool:
    """Does the function branch on the empty shape (`len(shape) == 0` / `not shape`)?"""
    for n in f.body_nodes():
        if isinstance(n, ast.If):
            t = ast.unparse(n.test).replace(" ", "")
            if t in ("len(shape)==0", "notshape", "shape==[]", "len(shape)<1"):
                return True
    return False


def memory_classes(ix: Index) -> List[Class]:
    out = []
    for c in ix.all_classes():
        names = [k.name for k in ix.mro(c)]
        if "Memory" in names[1:] or (c.name in ("DRAM", "StaticMemory") and "Memory" in names):
            out.append(c)
    return out


def rule_mempair(ctx, prop: str) -> RuleResult:
    ix = ctx.wide if ctx.tier == "thorough" else ctx.ix
    res = RuleResult("MEMPAIR")
    classes = memory_classes(ix)
    for c in sorted(classes, key=lambda c: (c.file, c.name)):
        alloc = ix.resolve_method(c, "alloc")
        free = ix.resolve_method(c, "free")
        if alloc is None or free is None:
            continue
        # abstract base
        if alloc.cls == "Memory" and free.cls == "Memory":
            continue
        res.instances += 1
        res.analysed.append(f"{c.file}:{c.name}")
        atoks = _tokens(alloc, _ALLOC_RE)
        ftoks = _tokens(free, _FREE_RE)
        for t in atoks:
            if t not in PAIR:
                raise AnalysisError(f"MEMPAIR: untriaged allocator token {t!r} in {c.file}:{alloc.qualname}")
        want = {PAIR[t] for t in atoks}
        if atoks or ftoks:
            res.nontrivial += 1
        ok = ftoks == want
        res.ob(ok)
        res.sample(f"{c.name}: alloc({alloc.cls}) uses {sorted(atoks) or 'no heap call'}; free({free.cls}) uses {sorted(ftoks) or 'nothing'}")
        if not ok:
            res.add(
                Finding(
                    "MEMPAIR", c.file, c.node.lineno, c.name, f"alloc:{','.join(sorted(atoks)) or '-'}|free:{','.join(sorted(ftoks)) or '-'}",
                    f"memory {c.name}: alloc (defined in {alloc.cls}) emits {sorted(atoks) or 'no heap allocation'} but free (defined in {free.cls}) emits "
                    f"{sorted(ftoks) or 'nothing'}; expected {sorted(want) or 'nothing'} — leak, double free, or free of non-heap storage",
                )
            )
        # scalar-case agreement, only meaningful for heap allocators
        if any(t != "#define" for t in atoks):
            res.instances += 1
            a, fr = _scalar_test(alloc), _scalar_test(free)
            ok2 = a == fr
            res.ob(ok2)
            if not ok2:
                res.add(
                    Finding("MEMPAIR", c.file, c.node.lineno, c.name, "scalar-case",
                            f"memory {c.name}: alloc and free disagree on the scalar (empty shape) case: a stack scalar is free()d or a heap buffer leaks")
                )
    res.floor = 9
    return res


def rule_freeonce(ctx, prop: str) -> RuleResult:
    ix, adts = ctx.ix, ctx.adts
    res = RuleResult("FREEONCE")
    m = ix.module(MA)
    c = m.cls("MemoryAnalysis")
    mem_s = c.methods.get("mem_s")
    mem_stmts = c.methods.get("mem_stmts")
    pop = c.methods.get("pop")
    run = c.methods.get("run")
    if not all((mem_s, mem_stmts, pop, run)):
        raise AnalysisError("anchor vanished: MemoryAnalysis.mem_s/mem_stmts/pop/run")
    res.analysed += [f"{MA}:{x.qualname}" for x in (mem_s, mem_stmts, pop, run)]

    # (1) Alloc registers exactly one pending free
    from .compiler import cases_for

    cs = cases_for(mem_s, adts, "s", "LoopIR", "Alloc")
    if not cs:
        raise AnalysisError("anchor vanished: Alloc case in mem_s")
    n_add = sum(1 for cse in cs for s in cse.body for n in ast.walk(s) if isinstance(n, ast.Call) and last_name(n) == "add_malloc")
    res.instances += 1
    res.nontrivial += 1
    res.ob(n_add == 1)
    if n_add != 1:
        res.add(Finding("FREEONCE", MA, cs[0].lineno, mem_s.qualname, "Alloc:add_malloc", f"an Alloc registers {n_add} pending frees (must be exactly one)"))
    # no other caller of add_malloc
    others = [n for fn in m.funcs.values() if fn is not mem_s for n in fn.body_nodes() if isinstance(n, ast.Call) and last_name(n) == "add_malloc"]
    res.instances += 1
    res.ob(not others)
    if others:
        res.add(Finding("FREEONCE", MA, others[0].lineno, "MemoryAnalysis", "add_malloc-elsewhere", "pending frees are registered outside the Alloc case"))

    # (2) emission and removal go together; frees placed after the using statement
    loop = None
    for n in mem_stmts.body_nodes():
        if isinstance(n, ast.For) and "reversed" in ast.unparse(n.iter):
            loop = n
    res.instances += 1
    res.nontrivial += 1
    res.ob(loop is not None)
    if loop is None:
        res.add(Finding("FREEONCE", MA, mem_stmts.lineno, mem_stmts.qualname, "reversed-scan", "liveness no longer scans the block backwards: frees are not placed after the last use"))
    else:
        stmt_var = loop.target.id if isinstance(loop.target, ast.Name) else None
        free_line = stmt_line = None
        removal_with_free = False
        for n in ast.walk(loop):
            if isinstance(n, ast.For) and n is not loop:
                txt = ast.unparse(n)
                if "LoopIR.Free(" in txt:
                    free_line = n.lineno
                    removal_with_free = ".remove(" in txt
            if isinstance(n, ast.AugAssign) and stmt_var and isinstance(n.value, ast.List) and len(n.value.elts) == 1 and dotted(n.value.elts[0]) == stmt_var:
                stmt_line = n.lineno
            if isinstance(n, ast.Call) and last_name(n) == "append" and stmt_var and n.args and dotted(n.args[0]) == stmt_var:
                stmt_line = n.lineno
        res.instances += 1
        res.ob(removal_with_free)
        if not removal_with_free:
            res.add(Finding("FREEONCE", MA, loop.lineno, mem_stmts.qualname, "free+remove", "a Free is emitted without removing the allocation from the pending list (double free) or vice versa (leak)"))
        ok = free_line is not None and stmt_line is not None and free_line < stmt_line
        res.instances += 1
        res.ob(ok)
        if not ok:
            res.add(Finding("FREEONCE", MA, loop.lineno, mem_stmts.qualname, "free-after-use", "in the backwards scan the Free must be appended before the statement (so that it follows it after reversal): otherwise storage is freed before its last use"))
        rets = [n for n in mem_stmts.body_nodes() if isinstance(n, ast.Return) and n.value is not None and "reversed" in ast.unparse(n.value)]
        res.instances += 1
        res.ob(bool(rets))
        if not rets:
            res.add(Finding("FREEONCE", MA, mem_stmts.lineno, mem_stmts.qualname, "return-reversed", "the backwards-built block is not reversed on return"))
        # the membership test that decides the placement
        memb = any(isinstance(n, ast.Compare) and isinstance(n.ops[0], ast.In) and "used" in ast.unparse(n.comparators[0]) for n in ast.walk(loop))
        res.instances += 1
        res.ob(memb)
        if not memb:
            res.add(Finding("FREEONCE", MA, loop.lineno, mem_stmts.qualname, "nm-in-used", "the Free is not conditioned on the statement using the buffer"))

    # (3) scope exit asserts nothing is pending
    ok = any(isinstance(n, ast.Assert) and "tofree" in ast.unparse(n.test) and "== 0" in ast.unparse(n.test) for n in pop.body_nodes())
    res.instances += 1
    res.ob(ok)
    if not ok:
        res.add(Finding("FREEONCE", MA, pop.lineno, pop.qualname, "pop-assert-empty", "scope exit no longer asserts that every allocation of the scope has been freed"))

    # (4) every mem_stmts(...) call is bracketed by push()/pop()
    for fn in (mem_s, run):
        for blk in _blocks(fn.node):
            for i, s in enumerate(blk):
                if any(isinstance(n, ast.Call) and last_name(n) == "mem_stmts" for n in ast.walk(s)) and not isinstance(s, (ast.If, ast.For, ast.While, ast.FunctionDef)):
                    res.instances += 1
                    res.nontrivial += 1
                    prev = blk[i - 1] if i > 0 else None
                    nxt = blk[i + 1] if i + 1 < len(blk) else None
                    ok = _is_call(prev, "push") and _is_call(nxt, "pop")
                    res.ob(ok)
                    if not ok:
                        res.add(Finding("FREEONCE", MA, s.lineno, fn.qualname, norm_stmt(s), "a nested block is analysed without its own push()/pop(): its allocations are freed in the wrong scope or never"))
    res.floor = 12
    return res


def _blocks(fnode):
    for n in ast.walk(fnode):
        for fld in ("body", "orelse", "finalbody"):
            b = getattr(n, fld, None)
            if isinstance(b, list) and b and isinstance(b[0], ast.stmt):
                yield b


def _is_call(s, name) -> bool:
    return isinstance(s, ast.Expr) and isinstance(s.value, ast.Call) and last_name(s.value) == name


def rule_winalias_live(ctx, prop: str) -> RuleResult:
    """Liveness must be closed under window aliasing: a use of `w` (w = a[...]) is a
    use of `a`.  Structural form: every buffer name that enters the `used` list
    passes an alias resolver fed by the WindowStmt case."""
    ix, adts = ctx.ix, ctx.adts
    res = RuleResult("WINALIAS")
    m = ix.module(MA)
    used_fs = [f for qn, f in m.funcs.items() if qn.startswith("MemoryAnalysis.mem_stmts.")]
    if len(used_fs) < 2:
        raise AnalysisError("anchor vanished: MemoryAnalysis.mem_stmts.used_s/used_e")
    raw = []
    for f in used_fs:
        res.analysed.append(f"{MA}:{f.qualname}")
        subj = f.params()[0]
        for n in f.body_nodes():
            # res += [e.name]   /  res.append(e.name)
            names = []
            if isinstance(n, ast.AugAssign) and isinstance(n.value, ast.List):
                names = n.value.elts
            if isinstance(n, ast.Call) and last_name(n) == "append":
                names = n.args
            for el in names:
                res.instances += 1
                res.nontrivial += 1
                is_raw = isinstance(el, ast.Attribute) and el.attr == "name" and dotted(el.value) == subj
                if is_raw:
                    # the name an Alloc *declares* is a root buffer by construction
                    p = parent(n)
                    while p is not None and not isinstance(p, ast.If):
                        p = parent(p)
                    if isinstance(p, ast.If):
                        r = adts.resolve_ctor(p.test.args[1], m) if isinstance(p.test, ast.Call) and len(p.test.args) == 2 else None
                        if r == ("LoopIR", "Alloc"):
                            is_raw = False
                res.ob(not is_raw)
                if is_raw:
                    raw.append((f, n))
    if raw:
        f, n = raw[0]
        res.add(
            Finding(
                "WINALIAS", MA, n.lineno, "MemoryAnalysis.mem_stmts", "used:raw-name",
                f"buffer names enter the liveness list unresolved ({len(raw)} sites, e.g. `{norm_stmt(n)}`) and no window alias map exists: after `w = a[...]` "
                "a use of `w` does not keep `a` alive, so free(a) is placed before the last access through `w` (use after free)",
            )
        )
    res.sample(f"liveness collectors: {[f.qualname for f in used_fs]}; raw-name sites: {len(raw)}")
    # the alias map itself must be closed under chains of windows (w2 = w1[...], w1 = a[...]):
    # either the WindowStmt case stores an already-resolved name, or the resolver iterates
    c = m.cls("MemoryAnalysis")
    mem_s = c.methods.get("mem_s")
    from .compiler import cases_for

    cs = cases_for(mem_s, adts, "s", "LoopIR", "WindowStmt") if mem_s is not None else []
    resolvers = set()
    for f in used_fs:
        for n in f.body_nodes():
            if isinstance(n, ast.Call) and isinstance(n.func, ast.Attribute) and isinstance(n.func.value, ast.Name) and n.func.value.id == "self":
                resolvers.add(n.func.attr)
    resolvers -= {"mem_s", "mem_stmts"}
    iterative = any(isinstance(n, ast.While) for r in resolvers if r in c.methods for n in c.methods[r].body_nodes())
    stores = []
    for cse in cs:
        for st in cse.body:
            for n in ast.walk(st):
                if isinstance(n, ast.Assign) and isinstance(n.targets[0], ast.Subscript) and dotted(n.targets[0].value) not in ("self.mem_env",):
                    stores.append(n)
    if resolvers:
        res.instances += 1
        res.nontrivial += 1
        ok = iterative or (bool(stores) and all(isinstance(n.value, ast.Call) and last_name(n.value) in resolvers for n in stores))
        res.ob(ok)
        res.sample(f"alias resolvers {sorted(resolvers)}; WindowStmt stores resolved names: {ok}")
        if not ok:
            ln = stores[0].lineno if stores else (cs[0].lineno if cs else mem_s.lineno)
            res.add(
                Finding("WINALIAS", MA, ln, "MemoryAnalysis.mem_s", "alias-map:unresolved-store",
                        "a window is recorded as an alias of the *name* on its right-hand side, not of the buffer that name resolves to, and the resolver does one step only: "
                        "for a window of a window (w2 = w1[..], w1 = a[..]) a use of w2 does not keep `a` alive, so free(a) is emitted before the last access through w2")
            )
    res.floor = 4
    return res


def rule_aliasclosed(ctx, prop: str) -> RuleResult:
    """Every analysis that keeps a window-alias map must be closed under *chains* of
    windows (w2 = w1[..], w1 = a[..]): either the map stores already-resolved roots, or
    every lookup iterates to a fixpoint."""
    ix, adts = ctx.ix, ctx.adts
    res = RuleResult("ALIASCLOSED")
    from ..dispatch import find_chains

    n_sites = 0
    for f in ix.all_funcs():
        if not f.file.startswith(("src/exo/rewrite/", "src/exo/core/", "src/exo/backend/", "src/exo/frontend/")) or not isinstance(f.node, ast.FunctionDef):
            continue
        for ch in find_chains(f, adts):
            for case in ch.cases:
                if ("LoopIR", "WindowStmt") not in case.ctors:
                    continue
                subj = ch.subject
                for st in case.body:
                    for n in ast.walk(st):
                        if not (isinstance(n, ast.Assign) and isinstance(n.targets[0], ast.Subscript)):
                            continue
                        tg = n.targets[0]
                        key = ast.unparse(tg.slice)
                        dmap = dotted(tg.value)
                        if dmap is None or dmap.endswith(("mem_env", "env", "bbuf_types", "buf_unknowns", "live_vars")):
                            continue
                        # key must be the window's own name (possibly through a local)
                        if not (key == f"{subj}.name" or _local_is(case.body, key, f"{subj}.name")):
                            continue
                        if isinstance(n.value, ast.Constant):
                            continue  # a flag per window (is-a-window, seen, ...), not an alias map
                        vtxt = ast.unparse(n.value)
                        if vtxt.endswith((".type", ".mem", ".type.as_tensor")) and ".name" not in vtxt:
                            continue  # a type / memory environment (what the window IS), not an alias map (what it is a window OF)
                        n_sites += 1
                        res.instances += 1
                        res.nontrivial += 1
                        res.analysed.append(f"{f.file}:{f.qualname}")
                        v = n.value
                        resolved = _resolved_value(v, dmap, case.body, f, ix)
                        iterative = _lookups_iterative(f, dmap, ix)
                        ok = resolved or iterative
                        res.ob(ok)
                        res.sample(f"{f.qualname}: `{ast.unparse(n)}` — stores resolved root: {resolved}; lookups iterate: {iterative}")
                        if not ok:
                            res.add(
                                Finding("ALIASCLOSED", f.file, n.lineno, f.qualname, f"{dmap}[window]",
                                        f"`{ast.unparse(n)}` records a window as alias of the *name* it was taken from and lookups of `{dmap}` do a single step: for a window of a window "
                                        f"the analysis attributes accesses to the intermediate window, not to the buffer (aliasing between arguments, liveness, written-set are then wrong)")
                            )
    if n_sites < 5:
        raise AnalysisError(f"ALIASCLOSED: expected >= 5 alias-map stores in WindowStmt cases, found {n_sites}")
    res.floor = 5
    return res


def _local_is(body, name: str, expr_txt: str) -> bool:
    for st in body:
        for n in ast.walk(st):
            if isinstance(n, ast.Assign):
                tg, v = n.targets[0], n.value
                if isinstance(tg, ast.Name) and tg.id == name and ast.unparse(v) == expr_txt:
                    return True
                if isinstance(tg, ast.Tuple) and isinstance(v, ast.Tuple):
                    for t, x in zip(tg.elts, v.elts):
                        if isinstance(t, ast.Name) and t.id == name and ast.unparse(x) == expr_txt:
                            return True
    return False


def _resolved_value(v: ast.AST, dmap: str, body, f: Func, ix) -> bool:
    # D.get(x, x) / D[x] / self.resolver(x)
    if isinstance(v, ast.Call) and isinstance(v.func, ast.Attribute):
        if v.func.attr == "get" and dotted(v.func.value) == dmap:
            return True
        if isinstance(v.func.value, ast.Name) and v.func.value.id == "self":
            # a resolver method that consults the same map
            c = f.module.classes.get(f.cls) if f.cls else None
            g = ix.resolve_method(c, v.func.attr) if c else None
            if g is not None and any(dotted(x) == dmap for x in g.all_nodes() if isinstance(x, ast.Attribute)):
                return True
    if isinstance(v, ast.Name):
        # local resolved by `while x in D: x = D[x]` or assigned from D.get(..)
        for st in body:
            for n in ast.walk(st):
                if isinstance(n, ast.While) and isinstance(n.test, ast.Compare) and isinstance(n.test.ops[0], ast.In) and dotted(n.test.left) == v.id and dotted(n.test.comparators[0]) == dmap:
                    return True
                if isinstance(n, ast.Assign) and isinstance(n.targets[0], ast.Name) and n.targets[0].id == v.id and isinstance(n.value, ast.Call) and isinstance(n.value.func, ast.Attribute) and n.value.func.attr == "get" and dotted(n.value.func.value) == dmap:
                    return True
    return False


def _lookups_iterative(f: Func, dmap: str, ix) -> bool:
    """All lookups of the map (in the enclosing class / function family) happen in
    `while x in D:` loops."""
    scope: List[Func] = []
    if f.cls and f.cls in f.module.classes:
        scope = list(f.module.classes[f.cls].methods.values())
    else:
        root = f
        while root.outer is not None:
            root = root.outer
        scope = [g for g in f.module.funcs.values() if g is root or g.qualname.startswith(root.qualname + ".")]
    base = dmap.split(".")[-1]
    n_loop = n_other = 0
    for g in scope:
        for n in g.all_nodes():
            if isinstance(n, ast.While) and isinstance(n.test, ast.Compare) and isinstance(n.test.ops[0], ast.In) and (dotted(n.test.comparators[0]) or "").split(".")[-1] == base:
                n_loop += 1
            if isinstance(n, ast.Call) and isinstance(n.func, ast.Attribute) and n.func.attr == "get" and (dotted(n.func.value) or "").split(".")[-1] == base:
                n_other += 1
    return n_loop > 0 and n_other == 0
