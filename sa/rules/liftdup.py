"""LIFTDUP — lifting an `if` out of an `if` must carry the outer's other branch into BOTH arms (C01, C04).

`DoLiftScope` turns

    if OUTER:                     if INNER:
      if INNER: A                   if OUTER: A   else: C
      else:     B         ~>      else:
    else: C                         if OUTER: B   else: C

(and the mirror image when the inner `if` sits in the outer's else).  The outer's other branch
(`blk = outer_s.orelse` / `outer_s.body`) therefore has to be re-attached once per arm of the lifted
`if` — also when the inner `if` was written without an `else`: its implicit empty else arm still has to
become `if OUTER: pass else: C`, otherwise C is lost whenever INNER is false.

Rule: in every case of DoLiftScope that binds such a `blk` and re-attaches it with `._replace(blk)`,
if one of the re-attachments is conditional on `inner_s.orelse` being non-empty, the empty case must be
handled too: an `else:` arm on that test, or a raising guard / materialisation of the else arm under
`not inner_s.orelse` earlier in the case.  The rule decides this pairing, not the rewrite's effect.
"""
from __future__ import annotations

import ast

from ..index import AnalysisError, parent
from ..report import Finding, RuleResult

S = "src/exo/rewrite/LoopIR_scheduling.py"


def rule_liftdup(ctx, prop: str) -> RuleResult:
    ix = ctx.ix
    res = RuleResult("LIFTDUP")
    f = ix.func(S, "DoLiftScope")
    res.analysed.append(f"{S}:DoLiftScope")
    ps = f.params()
    inner = None
    for n in f.body_nodes():
        if isinstance(n, ast.Assign) and isinstance(n.targets[0], ast.Name) and ast.unparse(n.value) == f"{ps[0]}._node":
            inner = n.targets[0].id
    if inner is None:
        raise AnalysisError("LIFTDUP: DoLiftScope no longer binds the inner statement from its cursor argument")
    n_cases = 0
    for n in f.body_nodes():
        if not (isinstance(n, ast.Assign) and isinstance(n.targets[0], ast.Name) and isinstance(n.value, ast.Attribute)
                and n.value.attr in ("orelse", "body") and isinstance(n.value.value, ast.Name) and n.value.value.id != inner):
            continue
        blk = n.targets[0].id
        case = parent(n)
        body = None
        for fld in ("body", "orelse"):
            if isinstance(getattr(case, fld, None), list) and any(s is n for s in getattr(case, fld)):
                body = getattr(case, fld)
        if body is None:
            continue
        reps = [k for st in body for k in ast.walk(st) if isinstance(k, ast.Call) and isinstance(k.func, ast.Attribute) and k.func.attr == "_replace"
                and len(k.args) == 1 and ast.unparse(k.args[0]) == blk]
        if not reps:
            continue
        n_cases += 1
        cond_tests = []
        for k in reps:
            p_ = k
            while p_ is not None and not any(p_ is s for s in body):
                q_ = parent(p_)
                if isinstance(q_, ast.If) and any(p_ is s for s in q_.body) and ast.unparse(q_.test) == f"{inner}.orelse":
                    cond_tests.append(q_)
                p_ = q_
        res.instances += 1
        res.nontrivial += 1
        handled = True
        for t in cond_tests:
            if t.orelse:
                continue
            # a guard or materialisation under `not inner.orelse` anywhere in the case
            alt = any(isinstance(k, ast.If) and ast.unparse(k.test).replace("(", "").replace(")", "") in (f"not {inner}.orelse", f"len{inner}.orelse == 0")
                      or (isinstance(k, ast.If) and f"not {inner}.orelse" in ast.unparse(k.test))
                      for st in body for k in ast.walk(st))
            if not alt:
                handled = False
        ok = handled
        res.ob(ok)
        res.sample(f"DoLiftScope: `{ast.unparse(n)}` re-attached {len(reps)}x, {len(cond_tests)} under `if {inner}.orelse`; empty-else arm handled: {ok}")
        if not ok:
            res.add(Finding("LIFTDUP", S, n.lineno, "DoLiftScope", f"liftdup:{ast.unparse(n.value)}",
                            f"`{blk} = {ast.unparse(n.value)}` is re-attached to the second arm of the lifted `if` only under `if {inner}.orelse:` — when the inner `if` has no else, its implicit empty arm "
                            f"never receives `{blk}`: the statements of `{ast.unparse(n.value)}` are lost whenever the inner condition is false"))
    if n_cases < 2:
        raise AnalysisError(f"LIFTDUP: expected the two if-in-if cases of DoLiftScope, found {n_cases}")
    res.floor = 2
    return res
