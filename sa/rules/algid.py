"""ALGID — algebraic identities used by the two expression simplifiers (C02, C12).

`simplify_cir` (backend index expressions) and `DoSimplify.map_binop` (LoopIR) replace
`x op c` / `c op x` by an operand or by a literal.  Each such replacement is extracted as
(operator, which side is the literal, literal value, result) and checked against the
table of identities that are valid over the integers with floor division and over the
reals:  0+x=x  x+0=x  x-0=x  0*x=0  x*0=0  0/x=0  0%x=0  1*x=x  x*1=x  x/1=x  x%1=0
and  0-x = -x  (a *negation*, never x).
"""
from __future__ import annotations

import ast
from typing import Dict, List, Optional, Set, Tuple

from ..index import AnalysisError, Func, dotted, last_name
from ..report import Finding, RuleResult

VALID = {
    ("+", "lhs", 0, "other"), ("+", "rhs", 0, "other"), ("-", "rhs", 0, "other"), ("-", "lhs", 0, "neg-other"),
    ("*", "lhs", 0, "zero"), ("*", "rhs", 0, "zero"), ("/", "lhs", 0, "zero"), ("%", "lhs", 0, "zero"),
    ("*", "lhs", 1, "other"), ("*", "rhs", 1, "other"), ("/", "rhs", 1, "other"), ("%", "rhs", 1, "zero"),
    ("and", "lhs", False, "false"), ("and", "rhs", False, "false"), ("and", "lhs", True, "other"), ("and", "rhs", True, "other"),
    ("or", "lhs", False, "other"), ("or", "rhs", False, "other"), ("or", "lhs", True, "true"), ("or", "rhs", True, "true"),
}


def _ops_in_test(t: ast.AST, opvars: Set[str]) -> Set[str]:
    out: Set[str] = set()
    for n in ast.walk(t):
        if isinstance(n, ast.Compare) and len(n.ops) == 1 and isinstance(n.ops[0], (ast.Eq, ast.In)) and ast.unparse(n.left) in opvars:
            r = n.comparators[0]
            if isinstance(r, ast.Constant):
                out.add(r.value)
            elif isinstance(r, (ast.Tuple, ast.List, ast.Set)):
                out |= {x.value for x in r.elts if isinstance(x, ast.Constant)}
    return out


def _const_side(t: ast.AST) -> Optional[Tuple[str, object]]:
    """`isinstance(lhs, CIR.Const) and lhs.val == 0` / `is_const_zero(lhs)` / `is_const_val(rhs, 1)`
    -> (side, value)."""
    for n in ast.walk(t):
        if isinstance(n, ast.Compare) and len(n.ops) == 1 and isinstance(n.ops[0], ast.Eq):
            l, r = n.left, n.comparators[0]
            if isinstance(l, ast.Attribute) and l.attr == "val" and isinstance(l.value, ast.Name) and isinstance(r, ast.Constant):
                return l.value.id, r.value
        if isinstance(n, ast.Call) and last_name(n) == "is_const_zero" and n.args and isinstance(n.args[0], ast.Name):
            return n.args[0].id, 0
        if isinstance(n, ast.Call) and last_name(n) == "is_const_val" and len(n.args) == 2 and isinstance(n.args[0], ast.Name) and isinstance(n.args[1], ast.Constant):
            return n.args[0].id, n.args[1].value
    return None


def _result_kind(ret: ast.AST, side: str) -> Optional[str]:
    other = "rhs" if side == "lhs" else "lhs"
    if isinstance(ret, ast.Name):
        if ret.id == other:
            return "other"
        if ret.id == side:
            return "self"
    if isinstance(ret, ast.Call):
        nm = dotted(ret.func) or ""
        if nm.endswith("Const") and ret.args and isinstance(ret.args[0], ast.Constant):
            v = ret.args[0].value
            if isinstance(v, bool):
                return "true" if v else "false"
            return "zero" if v == 0 else None
        if nm.endswith("USub") and ret.args and isinstance(ret.args[0], ast.Name) and ret.args[0].id == other:
            return "neg-other"
    return None


def extract_identities(f: Func, opvars: Set[str]):
    """Yield (op, side, value, result, node) for every `return <operand|literal>` that is
    governed by an operator test and a literal-operand test."""
    from ..index import parent

    # the two operand locals are recognised by what they are computed from (`<x> = simplify(e.lhs)`),
    # not by their names; they are mapped back to the canonical names lhs / rhs
    side_of: Dict[str, str] = {"lhs": "lhs", "rhs": "rhs", "l": "l", "r": "r"}
    for n in f.body_nodes():
        if isinstance(n, ast.Assign) and len(n.targets) == 1 and isinstance(n.targets[0], ast.Name):
            for k in ast.walk(n.value):
                if isinstance(k, ast.Attribute) and k.attr in ("lhs", "rhs") and isinstance(k.value, ast.Name) and k.value.id in {o.split(".")[0] for o in opvars}:
                    side_of[n.targets[0].id] = k.attr
                    break

    def canon_names(t: ast.AST) -> ast.AST:
        t2 = ast.parse(ast.unparse(t), mode="eval").body if isinstance(t, ast.expr) else t
        for k in ast.walk(t2):
            if isinstance(k, ast.Name) and k.id in side_of:
                k.id = side_of[k.id]
        return t2

    for n in f.body_nodes():
        if not isinstance(n, ast.Return) or n.value is None:
            continue
        ops: Set[str] = set()
        sides: List[Tuple[str, object]] = []
        p = n
        while p is not None and p is not f.node:
            par = parent(p)
            if isinstance(par, ast.If) and any(p is s for s in par.body):
                o = _ops_in_test(par.test, opvars)
                if o:
                    ops = ops or o
                cs = _const_side(canon_names(par.test))
                if cs and cs[0] in ("lhs", "rhs", "l", "r"):
                    sides.append(cs)
            p = par
        if not ops or not sides:
            continue
        side, val = sides[0]
        # `for l, r in ((lhs, rhs), (rhs, lhs))` idiom: symmetric, treat l as either side
        if side in ("l", "r"):
            kind = _result_kind(ast.Name(id="rhs" if isinstance(n.value, ast.Name) and n.value.id == "r" else getattr(n.value, "id", ""), ctx=ast.Load()), "lhs") if isinstance(n.value, ast.Name) else _result_kind(n.value, "lhs")
            for op in ops:
                yield op, "lhs", val, kind, n
            continue
        kind = _result_kind(canon_names(n.value), side)
        if kind is None or kind == "self":
            continue
        for op in ops:
            yield op, side, val, kind, n


SITES = {
    "C02": [("src/exo/backend/LoopIR_compiler.py", "simplify_cir", {"e.op"})],
    "C08": [("src/exo/backend/LoopIR_compiler.py", "simplify_cir", {"e.op"})],
    "C14": [("src/exo/backend/LoopIR_compiler.py", "simplify_cir", {"e.op"})],  # operand offsets of instructions
    "C19": [("src/exo/backend/LoopIR_compiler.py", "simplify_cir", {"e.op"})],  # partial_eval substitutes literals: `0 - i` etc. reach the C index simplifier
    "C12": [("src/exo/rewrite/LoopIR_scheduling.py", "DoSimplify.map_binop", {"e.op"})],
}


def rule_algid(ctx, prop: str) -> RuleResult:
    ix = ctx.ix
    res = RuleResult("ALGID")
    n_tot = 0
    for file, qn, opvars in SITES.get(prop, []):
        f = ix.func(file, qn)
        res.analysed.append(f"{file}:{qn}")
        for op, side, val, kind, node in extract_identities(f, opvars):
            n_tot += 1
            res.instances += 1
            res.nontrivial += 1
            ok = (op, side, val, kind) in VALID
            res.ob(ok)
            lhs_txt = str(val) if side == "lhs" else "x"
            rhs_txt = str(val) if side == "rhs" else "x"
            shown = {"other": "x", "neg-other": "-x", "zero": "0", "false": "False", "true": "True"}.get(kind, str(kind))
            res.sample(f"{qn}: {lhs_txt} {op} {rhs_txt}  ->  {shown}")
            if not ok:
                res.add(Finding("ALGID", file, node.lineno, qn, f"{lhs_txt}{op}{rhs_txt}->{shown}",
                                f"the simplifier rewrites `{lhs_txt} {op} {rhs_txt}` to `{shown}`, which is not an identity: the emitted / simplified index denotes a different value"))
    # constant folding uses the floor-semantics operators
    from .. import pat

    if prop in ("C02", "C08", "C14", "C15", "C19"):
        m = ix.module("src/exo/backend/LoopIR_compiler.py")
        tbl = m.assigns.get("operations")
        if not isinstance(tbl, ast.Dict):
            raise AnalysisError("anchor vanished: `operations` folding table in LoopIR_compiler.py")
        want = {"+": ast.Add, "-": ast.Sub, "*": ast.Mult, "/": ast.FloorDiv, "%": ast.Mod}
        for k, v in zip(tbl.keys, tbl.values):
            op = k.value if isinstance(k, ast.Constant) else None
            res.instances += 1
            res.nontrivial += 1
            ok = (
                op in want and isinstance(v, ast.Lambda) and isinstance(v.body, ast.BinOp) and isinstance(v.body.op, want[op])
                and [a.arg for a in v.args.args] == [getattr(v.body.left, "id", None), getattr(v.body.right, "id", None)]
            )
            res.ob(ok)
            res.sample(f"fold table: {op!r} -> {ast.unparse(v)}")
            if not ok:
                res.add(Finding("ALGID", m.rel, v.lineno, "operations", f"fold:{op}", f"literal index operands of `{op}` are folded with `{ast.unparse(v)}`: Exo's index `/` is floor division and `%` floor modulus (7 / 2 must fold to 3, not 3.5)"))
    if prop in ("C02", "C08", "C12", "C14", "C15"):
        # the range analysis that decides between C `/` and exo_floor_div (and feeds simplify) bounds a
        # quotient by FLOOR division of the numerator's bounds; truncation toward zero turns the range
        # of (i - 3) / 4, i >= 0, into [0, ..] and a negative quotient is emitted as plain C `/`
        RA = "src/exo/rewrite/range_analysis.py"
        c_ = ix.module(RA).cls("IndexRange")
        fd = c_.methods.get("__floordiv__") if c_ else None
        if fd is None:
            raise AnalysisError("anchor vanished: IndexRange.__floordiv__")
        res.analysed.append(f"{RA}:IndexRange.__floordiv__")
        divs = [k for k in fd.body_nodes() if isinstance(k, ast.BinOp) and isinstance(k.op, (ast.Div, ast.FloorDiv))]
        for k in divs:
            res.instances += 1
            res.nontrivial += 1
            ok = isinstance(k.op, ast.FloorDiv)
            res.ob(ok)
            res.sample(f"IndexRange.__floordiv__: `{ast.unparse(k)}` floors: {ok}")
            if not ok:
                res.add(Finding("ALGID", RA, k.lineno, "IndexRange.__floordiv__", f"range:{ast.unparse(k)[:30]}",
                                f"the bound of a quotient is computed with `{ast.unparse(k)}` (true division / truncation) instead of floor division: the range of (i - 3) / 4 for i >= 0 "
                                f"becomes [0, ..], the compiler 'proves' the quotient non-negative and emits plain C `/` where exo_floor_div is needed"))
        if len(divs) < 2:
            raise AnalysisError("ALGID: expected the two bound divisions in IndexRange.__floordiv__")
    if prop in ("C02", "C08", "C12", "C14", "C15"):
        # [lo % c, hi % c] bounds x % c only when lo and hi lie in the SAME period of c (lo // c == hi // c).
        # "narrower than c" is not enough: [2, 4] % 4 would give (2, 0); the inverted range enters the loop
        # iterator environment and simplify drops a `% d` / folds a `/ d` on an index that can be negative
        RA = "src/exo/rewrite/range_analysis.py"
        c_ = ix.module(RA).cls("IndexRange")
        md = c_.methods.get("__mod__") if c_ else None
        if md is None:
            raise AnalysisError("anchor vanished: IndexRange.__mod__")
        res.analysed.append(f"{RA}:IndexRange.__mod__")
        from ..index import parent as _parent

        cpar = [a for a in md.params() if a != "self"]
        cn = cpar[0] if cpar else "c"
        precise = [k for k in md.body_nodes() if isinstance(k, ast.Return) and k.value is not None
                   and any(isinstance(b, ast.BinOp) and isinstance(b.op, ast.Mod) and ast.unparse(b.left) in ("self.lo", "self.hi") for b in ast.walk(k.value))]
        if not precise:
            raise AnalysisError("anchor vanished: IndexRange.__mod__ no longer returns the precise range [lo % c, hi % c]")
        for k in precise:
            res.instances += 1
            res.nontrivial += 1
            tests = []
            p_ = k
            while p_ is not None and p_ is not md.node:
                q_ = _parent(p_)
                if isinstance(q_, ast.If) and any(p_ is s_ for s_ in q_.body):
                    tests.append(q_.test)
                p_ = q_
            conj = []
            for t in tests:
                conj += t.values if isinstance(t, ast.BoolOp) and isinstance(t.op, ast.And) else [t]
            same_period = any(
                isinstance(cj, ast.Compare) and len(cj.ops) == 1 and isinstance(cj.ops[0], ast.Eq)
                and {ast.unparse(cj.left), ast.unparse(cj.comparators[0])} == {f"self.lo // {cn}", f"self.hi // {cn}"}
                for cj in conj)
            other_div = any(isinstance(b, ast.BinOp) and isinstance(b.op, ast.FloorDiv) for cj in conj for b in ast.walk(cj))
            if not same_period and other_div:
                raise AnalysisError(f"ALGID: IndexRange.__mod__ guards its precise range with an unrecognised period test `{' and '.join(ast.unparse(c)[:40] for c in conj)}`")
            res.ob(same_period)
            res.sample(f"IndexRange.__mod__: precise range [lo % {cn}, hi % {cn}] only when lo // {cn} == hi // {cn}: {same_period}")
            if not same_period:
                res.add(Finding("ALGID", RA, k.lineno, "IndexRange.__mod__", "range:mod-same-period",
                                f"`{ast.unparse(k)[:70]}` is returned under `{' and '.join(ast.unparse(c)[:40] for c in conj)[:160]}`, which does not establish that lo and hi lie in the same period "
                                f"of {cn} (lo // {cn} == hi // {cn}): [2, 4] % 4 becomes (2, 0), the bogus bound of a loop's lower limit lets simplify drop `% 8` / fold `/ 8` to 0 on an index that can be negative"))
    if prop == "C12":
        f = ix.func("src/exo/rewrite/LoopIR_scheduling.py", "DoSimplify.cfold")
        res.instances += 1
        res.nontrivial += 1
        ok = pat.has("return _M_l.val // _M_r.val", f.node) and pat.has("return _M_l.val % _M_r.val", f.node)
        res.ob(ok)
        if not ok:
            res.add(Finding("ALGID", f.file, f.lineno, f.qualname, "fold:/,%", "constant folding of index `/` and `%` must use floor division / floor modulus"))
    if n_tot < 8:
        raise AnalysisError(f"ALGID: only {n_tot} identities extracted from the simplifier(s) — idioms changed, checker blind")
    res.floor = 8
    return res


def rule_zeroshort(ctx, prop: str) -> RuleResult:
    """Small IR-building helpers `f(a, b)` whose general case is `LoopIR.BinOp(op, a, b, ...)` take
    shortcuts when an operand is the literal 0.  The shortcut must be the identity of THAT operator:
    0 + b = b,  a + 0 = a,  a - 0 = a  (and nothing for 0 - b).  Returning the zero operand itself
    (`if a is 0: return a`) drops the other term: chained window offsets lose the inner offset and the
    bounds checker checks t[0 + i] while the generated code addresses t[off + i]."""
    ix = ctx.ix
    res = RuleResult("ZEROSHORT")
    files = ("src/exo/core/LoopIR.py", "src/exo/rewrite/LoopIR_scheduling.py", "src/exo/frontend/typecheck.py", "src/exo/rewrite/LoopIR_unification.py")
    n_helpers = 0
    for f in sorted((g for g in ix.all_funcs() if g.file in files and isinstance(g.node, ast.FunctionDef)), key=lambda g: (g.file, g.lineno)):
        ps = [a for a in f.params() if a != "self"]
        if len(ps) != 2:
            continue
        body = f.node.body
        last = body[-1] if body else None
        if isinstance(last, ast.If) and last.orelse and isinstance(last.orelse[-1], ast.Return):
            final = last.orelse[-1]
        else:
            final = last
        if not (isinstance(final, ast.Return) and isinstance(final.value, ast.Call) and dotted(final.value.func) == "LoopIR.BinOp" and len(final.value.args) >= 3):
            continue
        a = final.value.args
        if not (isinstance(a[0], ast.Constant) and a[0].value in ("+", "-") and ast.unparse(a[1]) == ps[0] and ast.unparse(a[2]) == ps[1]):
            continue
        op = a[0].value
        n_helpers += 1
        res.analysed.append(f"{f.file}:{f.qualname}")
        for n in f.body_nodes():
            if not isinstance(n, ast.If):
                continue
            t = ast.unparse(n.test)
            zero_of = None
            for p_ in ps:
                if f"isinstance({p_}, LoopIR.Const)" in t and f"{p_}.val == 0" in t:
                    zero_of = p_
            if zero_of is None:
                continue
            rets = [k for k in n.body if isinstance(k, ast.Return) and isinstance(k.value, ast.Name)]
            if not rets:
                continue
            res.instances += 1
            res.nontrivial += 1
            other = ps[1] if zero_of == ps[0] else ps[0]
            got = rets[0].value.id
            ok = got == other and not (op == "-" and zero_of == ps[0])
            res.ob(ok)
            res.sample(f"{f.qualname}: `{zero_of}` is 0 under `{op}` -> returns `{got}`: {ok}")
            if not ok:
                res.add(Finding("ZEROSHORT", f.file, rets[0].lineno, f.qualname, f"zero:{op}:{'lhs' if zero_of == ps[0] else 'rhs'}->{'same' if got == zero_of else got}",
                                f"{f.qualname}({ps[0]}, {ps[1]}) builds `{ps[0]} {op} {ps[1]}`; when `{zero_of}` is the literal 0 it returns `{got}`"
                                + (" — the zero itself, so the other term is dropped" if got == zero_of else "")
                                + (": a window of a window whose first level starts at 0 loses the second-level offset in its chained index; the bounds checker then checks t[0 + i] "
                                   "while the generated code addresses t[off + i]" if "add" in f.qualname or "chain" in f.qualname else ": the built expression denotes a different value")))
    if n_helpers < 2:
        raise AnalysisError(f"ZEROSHORT: expected the zero-shortcut helpers add_e / subtract of core/LoopIR.py, found {n_helpers}")
    res.floor = 3
    return res
