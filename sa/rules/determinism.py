"""C18 determinism rules: SETITER, IDORDER, REPRLEAK (DESIGN §3.18)."""
from __future__ import annotations

import ast
from typing import Dict, List, Optional, Set, Tuple

from ..index import AnalysisError, Class, Func, Index, alpha_eq, dotted, last_name, norm_stmt, parent
from ..report import Finding, RuleResult

SETCALLS = {"set", "frozenset"}
SETMETH = {"union", "intersection", "difference", "symmetric_difference"}
INSENSITIVE_WRAPPERS = {"set", "frozenset", "sorted", "any", "all", "len", "min", "max", "sum"}
ORDERED_CONSUMERS = {"list", "tuple", "enumerate", "zip", "map", "iter", "reversed"}


class SetTyping:
    def __init__(self, ix: Index):
        self.ix = ix
        self.class_attrs: Dict[str, Set[str]] = {}  # class name -> {"self.x"}
        self.fsum: Set[str] = set()  # simple names of set-returning module functions
        self.msum: Set[Tuple[str, str]] = set()  # (class, method)
        self.envs: Dict[int, Set[str]] = {}
        self._solve()

    def is_set(self, e: ast.AST, env: Set[str], f: Func) -> bool:
        if isinstance(e, (ast.Set, ast.SetComp)):
            return True
        if isinstance(e, ast.Call):
            d = dotted(e.func)
            if d in SETCALLS:
                return True
            if isinstance(e.func, ast.Attribute):
                if e.func.attr in SETMETH and self.is_set(e.func.value, env, f):
                    return True
                if e.func.attr == "copy" and self.is_set(e.func.value, env, f):
                    return True
                # Class(...).method()  /  self.method()
                v = e.func.value
                if isinstance(v, ast.Call) and isinstance(v.func, ast.Name) and (v.func.id, e.func.attr) in self.msum:
                    return True
                if isinstance(v, ast.Name) and v.id == "self" and f.cls and (f.cls, e.func.attr) in self.msum:
                    return True
                if e.func.attr in ("keys",) and False:
                    return False
            if isinstance(e.func, ast.Name) and e.func.id in self.fsum:
                return True
            if isinstance(e.func, ast.Attribute) and isinstance(e.func.value, ast.Name) and e.func.attr in self.fsum and e.func.value.id not in ("self",):
                # module.func()
                return e.func.value.id in f.module.imports
            return False
        if isinstance(e, ast.Name):
            return e.id in env
        if isinstance(e, ast.Subscript):
            # candidates = [(set(), set()) for ...];  candidates[i][side]  is a set
            b = e
            while isinstance(b, ast.Subscript):
                b = b.value
            return isinstance(b, ast.Name) and ("[]" + b.id) in env
        if isinstance(e, ast.Attribute):
            d = dotted(e)
            if d in env:
                return True
            if d and d.startswith("self.") and f.cls and d in self.class_attrs.get(f.cls, set()):
                return True
            return False
        if isinstance(e, ast.BinOp) and isinstance(e.op, (ast.BitOr, ast.BitAnd, ast.Sub, ast.BitXor)):
            return self.is_set(e.left, env, f) or self.is_set(e.right, env, f)
        if isinstance(e, ast.IfExp):
            return self.is_set(e.body, env, f) or self.is_set(e.orelse, env, f)
        if isinstance(e, ast.BoolOp):
            return any(self.is_set(v, env, f) for v in e.values)
        return False

    def _is_setbox(self, e: ast.AST, env: Set[str], f: Func) -> bool:
        """a list / tuple / list comprehension whose elements are (tuples or lists of) sets"""
        if isinstance(e, (ast.ListComp, ast.GeneratorExp)):
            return self._is_setbox_elt(e.elt, env, f)
        if isinstance(e, (ast.List, ast.Tuple)):
            return bool(e.elts) and any(self._is_setbox_elt(x, env, f) for x in e.elts)
        return False

    def _is_setbox_elt(self, e: ast.AST, env: Set[str], f: Func) -> bool:
        if self.is_set(e, env, f):
            return True
        if isinstance(e, (ast.List, ast.Tuple)):
            return any(self._is_setbox_elt(x, env, f) for x in e.elts)
        return False

    def _solve(self):
        funcs = [f for f in self.ix.all_funcs() if isinstance(f.node, (ast.FunctionDef, ast.AsyncFunctionDef))]
        for _ in range(5):
            changed = False
            for f in funcs:
                env = self.envs.setdefault(id(f), set())
                # closure: inherit outer env
                if f.outer is not None:
                    env |= self.envs.get(id(f.outer), set())
                for _i in range(3):
                    for n in f.body_nodes():
                        tgts = []
                        val = None
                        if isinstance(n, ast.Assign):
                            tgts, val = n.targets, n.value
                        elif isinstance(n, ast.AnnAssign) and n.value is not None:
                            tgts, val = [n.target], n.value
                        elif isinstance(n, ast.AugAssign) and isinstance(n.op, (ast.BitOr, ast.BitAnd, ast.Sub)):
                            tgts, val = [n.target], n.value
                        if val is not None and self._is_setbox(val, env, f):
                            for t in tgts:
                                if isinstance(t, ast.Name) and ("[]" + t.id) not in env:
                                    env.add("[]" + t.id)
                                    changed = True
                        if val is not None and self.is_set(val, env, f):
                            for t in tgts:
                                d = dotted(t)
                                if d and d not in env:
                                    env.add(d)
                                    changed = True
                                if d and d.startswith("self.") and f.cls:
                                    ca = self.class_attrs.setdefault(f.cls, set())
                                    if d not in ca:
                                        ca.add(d)
                                        changed = True
                for n in f.body_nodes():
                    if isinstance(n, ast.Return) and n.value is not None and self.is_set(n.value, env, f):
                        if f.cls and f.qualname == f"{f.cls}.{f.name}":
                            if (f.cls, f.name) not in self.msum:
                                self.msum.add((f.cls, f.name))
                                changed = True
                        elif "." not in f.qualname:
                            if f.name not in self.fsum:
                                self.fsum.add(f.name)
                                changed = True
            if not changed:
                break


def _wrapped_insensitive(node: ast.AST) -> bool:
    """Is this comprehension / call the direct argument of an order-insensitive consumer?"""
    p = parent(node)
    if isinstance(p, ast.Call) and node in p.args:
        d = dotted(p.func)
        if d in INSENSITIVE_WRAPPERS:
            return True
        if isinstance(p.func, ast.Attribute) and p.func.attr in ("update", "union", "intersection", "difference", "issubset", "issuperset", "isdisjoint"):
            return True
    return False


# (file, function, normalised construct) -> reason it is order-insensitive
SET_TRIAGE: Dict[Tuple[str, str, str], str] = {}


def set_consumers(ix: Index, st: SetTyping, scope_prefixes: Tuple[str, ...]):
    """Yield (func, node, construct_text, how)."""
    for f in ix.all_funcs():
        if not f.file.startswith(scope_prefixes) or not isinstance(f.node, (ast.FunctionDef, ast.AsyncFunctionDef)):
            continue
        env = st.envs.get(id(f), set())
        for n in f.body_nodes():
            if isinstance(n, ast.For) and st.is_set(n.iter, env, f):
                yield f, n, f"for {ast.unparse(n.target)} in {ast.unparse(n.iter)}", "for-loop"
            elif isinstance(n, (ast.ListComp, ast.GeneratorExp, ast.DictComp)):
                for g in n.generators:
                    if st.is_set(g.iter, env, f):
                        if isinstance(n, ast.GeneratorExp) and _wrapped_insensitive(n):
                            continue
                        if isinstance(n, ast.ListComp) and _wrapped_insensitive(n):
                            continue
                        yield f, n, norm_stmt(n), "comprehension"
            elif isinstance(n, ast.Call):
                d = dotted(n.func)
                if d in ORDERED_CONSUMERS and n.args and any(st.is_set(a, env, f) for a in n.args):
                    if _wrapped_insensitive(n):
                        continue
                    yield f, n, norm_stmt(n), f"{d}()"
                if isinstance(n.func, ast.Attribute) and n.func.attr == "join" and n.args and st.is_set(n.args[0], env, f):
                    yield f, n, norm_stmt(n), "join"
                if isinstance(n.func, ast.Attribute) and n.func.attr == "pop" and not n.args and st.is_set(n.func.value, env, f):
                    yield f, n, norm_stmt(n), "set.pop()"
            elif isinstance(n, ast.Starred) and st.is_set(n.value, env, f):
                yield f, n, norm_stmt(n), "unpack"


def rule_setiter(ctx, prop: str) -> RuleResult:
    ix = ctx.ix
    res = RuleResult("SETITER")
    st = ctx.cache.get("settyping")
    if st is None:
        st = SetTyping(ix)
        ctx.cache["settyping"] = st
    scope = ("src/exo/backend/", "src/exo/rewrite/", "src/exo/core/", "src/exo/API", "src/exo/frontend/", "src/exo/stdlib/", "src/exo/libs/", "src/exo/platforms/")
    n = 0
    for f, node, cons, how in set_consumers(ix, st, scope):
        n += 1
        res.instances += 1
        res.nontrivial += 1
        res.analysed.append(f"{f.file}:{f.qualname}")
        key = (f.file, f.qualname, cons)
        why = SET_TRIAGE.get(key)
        if why is None:
            # the triage is about the construct; a helper that was renamed or hoisted out of its
            # enclosing function keeps it (same file, same normalised text, unique entry)
            cands = [v for (fl, _q, c_), v in SET_TRIAGE.items() if fl == f.file and c_ == cons]
            if len(cands) == 1:
                why = cands[0]
        if why is None:
            # ... and a renamed loop variable / local keeps it too (same function, alpha-equivalent text)
            cands = [v for (fl, q_, c_), v in SET_TRIAGE.items() if fl == f.file and q_ == f.qualname and alpha_eq(c_, cons)]
            if len(cands) == 1:
                why = cands[0]
        if why is not None:
            res.ob(True)
            res.sample(f"{f.qualname}: `{cons}` — order-insensitive: {why}")
            continue
        res.ob(False)
        res.add(
            Finding(
                "SETITER", f.file, node.lineno, f.qualname, cons,
                f"order-sensitive consumption ({how}) of a set: iteration order of sets of str/Sym/proc/class objects depends on the hash seed or on object "
                f"addresses, so whatever is built from it (text, statement order, solver input) can differ between runs",
            )
        )
    res.notes.append(f"set-returning functions: {sorted(st.fsum)}; methods: {sorted(st.msum)}")
    res.floor = 10
    return res


SET_TRIAGE.update(
    {
        ("src/exo/stdlib/stdlib.py", "auto_stage_mem", "iter(candidates[i][side])"):
            "taken only under `len(candidates[i][side]) == 1`: the single element",
        ("src/exo/stdlib/halide_scheduling_ops.py", "get_affected_read_dim", "list(dims)"):
            "a set of ints (dimension numbers, hash = value) with exactly one element at this point: more than one raises just above and [0] of an empty list raises",
        ("src/exo/backend/LoopIR_compiler.py", "find_all_subprocs.walk", "for sp in LoopIR_SubProcs(proc).result()"):
            "visit order only; the single consumer (compile_to_strings) sorts the result by proc name — checked by SORTEDEMIT",
        ("src/exo/backend/LoopIR_compiler.py", "find_all_mems", "[m for m in mems]"):
            "the single consumer (_compile_memories) sorts by name — checked by SORTEDEMIT",
        ("src/exo/backend/LoopIR_compiler.py", "find_all_configs", "list(configs)"):
            "the single consumer (_compile_context_struct) sorts by name — checked by SORTEDEMIT",
        ("src/exo/backend/LoopIR_compiler.py", "compile_to_strings", "[_static_helpers[v] for v in needed_helpers]"):
            "needed_helpers only ever holds keys of _static_helpers; SORTEDEMIT(d) requires that dict to be a singleton or the iteration to be sorted",
        ("src/exo/frontend/boundscheck.py", "eff_concat.merge_writes", "[merge(cws1[key], cws2[key]) for key in overlap]"):
            "builds the internal list of config-write effects; they are consumed as a conjunction/set by the bounds checker, never printed",
        ("src/exo/frontend/pyparser.py", "UnquoteEnv.interpret_unquote_block", "[pyast.Constant(value=None) for _ in unbound_names]"):
            "elements are identical constants",
        ("src/exo/frontend/pyparser.py", "UnquoteEnv.interpret_unquote_block", "[pyast.Name(id=arg, ctx=pyast.Load()) for arg in unbound_names]"):
            "the same unmodified set object is iterated for parameter list and argument list of one synthesized helper: orders agree within the run and never reach output",
        ("src/exo/frontend/pyparser.py", "UnquoteEnv.interpret_unquote_block", "[pyast.Name(id=name, ctx=pyast.Del()) for name in unbound_names]"):
            "del statements of temporaries: order irrelevant",
        ("src/exo/frontend/pyparser.py", "UnquoteEnv.interpret_unquote_block", "[pyast.arg(arg=arg) for arg in unbound_names]"):
            "see the argument-list entry above",
        ("src/exo/rewrite/LoopIR_scheduling.py", "DoFissionAfterSimple.alloc_check", "for nm in pre_allocs"):
            "every element is checked and any hit raises: only the choice of which error is reported first depends on order",
        ("src/exo/rewrite/LoopIR_scheduling.py", "DoUnrollBuffer", "for itr in used_allocs"):
            "set of small int literals: int hashing does not depend on the hash seed or on addresses",
    }
)


def rule_sortedemit(ctx, prop: str) -> RuleResult:
    """Every unordered collection that reaches emitted text in compile_to_strings is
    sorted by a stable key first, or is a provable singleton."""
    ix = ctx.ix
    res = RuleResult("SORTEDEMIT")
    COMP = "src/exo/backend/LoopIR_compiler.py"
    m = ix.module(COMP)
    # (a) consumers sort
    spec = [
        ("_compile_externs", "externs"),
        ("_compile_memories", "mems"),
        ("_compile_context_struct", "configs"),
    ]
    for fn, param in spec:
        f = m.func(fn)
        res.analysed.append(f"{COMP}:{fn}")
        loops = [n for n in f.body_nodes() if isinstance(n, ast.For) and any(isinstance(x, ast.Name) and x.id == param for x in ast.walk(n.iter))]
        if not loops:
            raise AnalysisError(f"anchor vanished: loop over `{param}` in {fn}")
        for lp in loops:
            res.instances += 1
            res.nontrivial += 1
            it = lp.iter
            ok = isinstance(it, ast.Call) and dotted(it.func) == "sorted" and any(kw.arg == "key" for kw in it.keywords)
            res.ob(ok)
            res.sample(f"{fn}: iterates `{ast.unparse(it)}`")
            if not ok:
                res.add(Finding("SORTEDEMIT", COMP, lp.lineno, fn, f"for-over:{param}", f"`{param}` (built from a set) is emitted in iteration order instead of sorted(..., key=<name>): output order depends on hashing"))
                continue
            # ties: two distinct elements with equal keys keep the set's iteration order.  Either
            # equal keys are rejected in the loop (`if name in seen: raise`), or the key contains
            # the emitted text itself, so that a tie can only be between identical outputs.
            rejects_dup = any(isinstance(x, ast.If) and isinstance(x.test, ast.Compare) and isinstance(x.test.ops[0], ast.In) and any(isinstance(r, ast.Raise) for r in ast.walk(x)) for b in lp.body for x in ast.walk(b))
            key = next(kw.value for kw in it.keywords if kw.arg == "key")
            key_ok = False
            if isinstance(key, ast.Lambda) and len(key.args.args) == 1:
                lam = key.args.args[0].arg
                # loop target(s) expressed through the lambda parameter
                sub = {}
                if isinstance(lp.target, ast.Name):
                    sub[lp.target.id] = lam
                elif isinstance(lp.target, ast.Tuple):
                    for i_, e_ in enumerate(lp.target.elts):
                        if isinstance(e_, ast.Name):
                            sub[e_.id] = f"{lam}[{i_}]"
                emitted = []
                for b in lp.body:
                    for x in ast.walk(b):
                        if isinstance(x, ast.Call) and isinstance(x.func, ast.Attribute) and x.func.attr == "append" and x.args:
                            emitted.append(x.args[0])
                        if isinstance(x, ast.NamedExpr):
                            emitted.append(x.value)
                emitted = [e_ for e_ in emitted if isinstance(e_, ast.Call)]

                class _S(ast.NodeTransformer):
                    def visit_Name(self, node):
                        if node.id in sub:
                            return ast.parse(sub[node.id], mode="eval").body
                        return node

                import copy

                ktxt = ast.unparse(key.body)
                key_ok = bool(emitted) and all(ast.unparse(_S().visit(ast.parse(ast.unparse(e_), mode="eval").body)) in ktxt for e_ in emitted)
            res.instances += 1
            res.nontrivial += 1
            ok2 = rejects_dup or key_ok
            res.ob(ok2)
            res.sample(f"{fn}: equal sort keys cannot reorder the output (duplicates rejected: {rejects_dup}; key contains the emitted text: {key_ok})")
            if not ok2:
                res.add(Finding("SORTEDEMIT", COMP, lp.lineno, fn, f"ties:{param}",
                                f"`{ast.unparse(it)[:70]}`: two distinct elements with the same key (two memory classes produced by one class factory share a name) keep the "
                                f"iteration order of the set, so the order of their emitted blocks changes from run to run"))
    cts = m.func("compile_to_strings")
    res.analysed.append(f"{COMP}:compile_to_strings")
    # (b) proc list sorted by name
    ok = False
    for n in cts.body_nodes():
        if isinstance(n, ast.Assign) and "find_all_subprocs" in ast.unparse(n.value):
            txt = ast.unparse(n.value)
            ok = "sorted(" in txt and "key=" in txt
    res.instances += 1
    res.nontrivial += 1
    res.ob(ok)
    if not ok:
        res.add(Finding("SORTEDEMIT", COMP, cts.lineno, "compile_to_strings", "proc_list", "the transitive list of procedures (collected through sets) is not sorted by name before emission"))
    # (c) struct_defns sorted
    ok = False
    for n in cts.body_nodes():
        if isinstance(n, ast.Assign) and isinstance(n.targets[0], ast.Name) and n.targets[0].id == "struct_defns" and "sorted(" in ast.unparse(n.value):
            ok = True
    res.instances += 1
    res.nontrivial += 1
    res.ob(ok)
    if not ok:
        res.add(Finding("SORTEDEMIT", COMP, cts.lineno, "compile_to_strings", "struct_defns", "window struct definitions (a set) are emitted unsorted"))
    # (d) needed_helpers: iteration of a set of helper names is deterministic only while
    #     there is a single helper
    helpers = m.assigns.get("_static_helpers")
    if not isinstance(helpers, ast.Dict):
        raise AnalysisError("anchor vanished: _static_helpers dict literal")
    single = len(helpers.keys) <= 1
    sorted_iter = False
    for n in cts.body_nodes():
        if isinstance(n, ast.ListComp) and "_static_helpers" in ast.unparse(n.elt):
            sorted_iter = isinstance(n.generators[0].iter, ast.Call) and dotted(n.generators[0].iter.func) == "sorted"
    res.instances += 1
    res.nontrivial += 1
    ok = single or sorted_iter
    res.ob(ok)
    res.sample(f"_static_helpers has {len(helpers.keys)} key(s); helper emission sorted: {sorted_iter}")
    if not ok:
        res.add(Finding("SORTEDEMIT", COMP, helpers.lineno, "compile_to_strings", "needed_helpers", f"{len(helpers.keys)} static helpers exist and `needed_helpers` (a set of str) is emitted in iteration order: helper order depends on PYTHONHASHSEED"))
    res.floor = 6
    return res


def rule_idorder(ctx, prop: str) -> RuleResult:
    """No ordering by id()/hash(): sorted/min/max/sort with key=id|hash or a lambda
    calling them.  Expected count zero; a positive fixture proves the matcher works."""
    ix = ctx.ix
    res = RuleResult("IDORDER")

    def bad_key(kw_value: ast.AST) -> bool:
        if isinstance(kw_value, ast.Name) and kw_value.id in ("id", "hash", "repr"):
            return True
        for n in ast.walk(kw_value):
            if isinstance(n, ast.Call) and isinstance(n.func, ast.Name) and n.func.id in ("id", "hash", "repr"):
                return True
        return False

    def scan(tree, file, qual):
        for n in ast.walk(tree):
            if isinstance(n, ast.Call) and last_name(n) in ("sorted", "min", "max", "sort"):
                res.instances += 1
                kws = [kw for kw in n.keywords if kw.arg == "key"]
                bad = any(bad_key(kw.value) for kw in kws)
                res.ob(not bad)
                if bad:
                    res.add(Finding("IDORDER", file, n.lineno, qual, norm_stmt(n), "ordering by id()/hash(): the result depends on object addresses, i.e. on allocation history of the process"))

    for m in ix.modules.values():
        scan(m.tree, m.rel, "<module>")
    # positive fixture
    fx = ast.parse("xs = sorted(procs, key=lambda p: id(p))\nys = sorted(a, key=lambda s: s.name)\n")
    before = len(res.findings)
    scan(fx, "<fixture>", "<fixture>")
    fired = len(res.findings) - before
    res.findings = res.findings[:before]
    if fired != 1:
        raise AnalysisError("IDORDER self-check failed: fixture did not produce exactly one match")
    res.obligations -= 1
    res.instances -= 2
    res.discharged = res.obligations - len(res.findings)
    res.nontrivial = res.instances
    res.sample("fixture `sorted(procs, key=lambda p: id(p))` matched; repo has none" if not res.findings else "matches in repo")
    res.floor = 10
    return res


def _in_class(n, name: str) -> bool:
    p = n
    while p is not None:
        if isinstance(p, ast.ClassDef) and p.name == name:
            return True
        p = parent(p)
    return False


def rule_reprleak(ctx, prop: str) -> RuleResult:
    """repr(Sym) embeds the global creation counter.  It must not reach generated C
    (Compiler.add_line / returned strings of comp_*) or printed procedures."""
    ix = ctx.ix
    res = RuleResult("REPRLEAK")
    files = ["src/exo/backend/LoopIR_compiler.py", "src/exo/core/LoopIR_pprint.py", "src/exo/core/memory.py", "src/exo/libs/memories.py", "src/exo/core/configs.py"]

    def scan(tree, file):
        for n in ast.walk(tree):
            bad = None
            if isinstance(n, ast.Call) and isinstance(n.func, ast.Name) and n.func.id == "repr":
                bad = "repr()"
            if isinstance(n, ast.FormattedValue) and n.conversion == ord("r"):
                bad = "!r in f-string"
            if isinstance(n, ast.Attribute) and n.attr == "_id" and not (isinstance(n.value, ast.Name) and n.value.id == "self"):
                bad = "Sym._id"
            if bad is not None and _in_class(n, "UAST_PPrinter"):
                bad = None  # debug printer for the *untyped* AST; never used for Procedure.__str__ or code generation
            if bad is not None:
                # allowed in error messages: inside a Raise or an assert message
                p = n
                in_err = False
                while p is not None:
                    if isinstance(p, (ast.Raise, ast.Assert)):
                        in_err = True
                        break
                    p = parent(p)
                res.instances += 1
                res.ob(in_err)
                if not in_err:
                    res.add(Finding("REPRLEAK", file, n.lineno, "<module>", norm_stmt(n), f"{bad} in output-producing code: the symbol counter (how many symbols were created earlier in the process) leaks into emitted text"))

    for fl in files:
        m = ix.module(fl)
        res.analysed.append(fl)
        scan(m.tree, fl)
    fx = ast.parse("def f(self, s):\n    self.add_line(f'{s!r} = 0;')\n")
    from ..index import set_parents

    set_parents(fx)
    before = len(res.findings)
    scan(fx, "<fixture>")
    fired = len(res.findings) - before
    res.findings = res.findings[:before]
    if fired != 1:
        raise AnalysisError("REPRLEAK self-check failed")
    res.instances -= 1
    res.obligations -= 1
    res.discharged = res.obligations - len(res.findings)
    res.nontrivial = max(res.instances, 1)
    res.instances = max(res.instances, 1)
    res.sample("fixture `f'{s!r} = 0;'` matched; output-producing modules have no unguarded repr/!r/_id")
    res.floor = 1
    return res


def rule_symorder(ctx, prop: str) -> RuleResult:
    """The total order on Syms (used to sort terms of normalised index expressions) must
    be (name, numeric id): it is then invariant under a uniform offset of the global
    counter.  Comparing printed forms ("i_20" < "i_7") is not."""
    from .. import pat

    ix = ctx.ix
    res = RuleResult("SYMORDER")
    m = ix.module("src/exo/core/prelude.py")
    c = m.cls("Sym")
    lt = c.methods.get("__lt__")
    if lt is None:
        raise AnalysisError("anchor vanished: Sym.__lt__")
    res.analysed.append(f"{m.rel}:Sym.__lt__")
    res.instances += 1
    res.nontrivial += 1
    ps = lt.params()
    ok = pat.has(f"return ({ps[0]}._nm, {ps[0]}._id) < ({ps[1]}._nm, {ps[1]}._id)", lt.node)
    res.ob(ok)
    res.sample(f"Sym.__lt__ orders by (name, numeric id): {ok}")
    if not ok:
        res.add(Finding("SYMORDER", m.rel, lt.lineno, "Sym.__lt__", "(name,id)", "Sym.__lt__ no longer compares (name, numeric id): an order through str/repr (\"i_20\" < \"i_7\") changes when the ids of two same-named symbols straddle a power of ten, i.e. it depends on how many symbols were created earlier"))
    # no stringified id anywhere in ordering methods
    for name in ("__lt__", "__le__", "__gt__", "__ge__"):
        f = c.methods.get(name)
        if f is None:
            continue
        res.instances += 1
        bad = any(isinstance(n, ast.Call) and isinstance(n.func, ast.Name) and n.func.id in ("repr", "str") for n in f.body_nodes()) or any(isinstance(n, ast.JoinedStr) for n in f.body_nodes())
        res.ob(not bad)
        if bad:
            res.add(Finding("SYMORDER", m.rel, f.lineno, f"Sym.{name}", "stringified-order", f"Sym.{name} orders through a printed form of the symbol"))
    # identity: equality on (name, id), hashing independent of the name text
    eq = c.methods.get("__eq__")
    res.instances += 1
    ok = eq is not None and pat.has("return _M_a._nm == _M_b._nm and _M_a._id == _M_b._id", eq.node)
    res.ob(ok)
    if not ok:
        res.add(Finding("SYMORDER", m.rel, (eq or lt).lineno, "Sym.__eq__", "eq(name,id)", "Sym equality must be (name, id)"))
    # the counter only ever grows by one per new symbol
    init = c.methods.get("__init__")
    res.instances += 1
    ok = init is not None and pat.has("Sym._unq_count += 1", init.node) and pat.has("self._id = Sym._unq_count", init.node)
    res.ob(ok)
    if not ok:
        res.add(Finding("SYMORDER", m.rel, (init or lt).lineno, "Sym.__init__", "fresh-id", "every new Sym must take the next counter value"))
    res.floor = 4
    return res
