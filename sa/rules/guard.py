"""GUARD — check-before-edit obligations per scheduling primitive (DESIGN §3.3, App. A).

For every primitive the table lists the side conditions that must *dominate* its tree
edits (must-analysis over all paths; a raising `if` / `assert` / try-except-reraise
counts as a guard) and the checks that must follow its last edit.  `scope` "all"
means every edit site, an integer n means at least n edit sites (multi-case
primitives).  Obligations that are missing today and were confirmed as defects carry
the id of the known finding.
"""
from __future__ import annotations

import ast
from dataclasses import dataclass, field
from typing import Dict, FrozenSet, List, Optional, Set, Tuple, Union

from ..flow import Analysis, Engine, always_raises
from ..index import AnalysisError, Func, dotted, last_name, norm_stmt, parent
from ..mustflow import GuardFlow, names_in
from ..report import Finding, RuleResult

S = "src/exo/rewrite/LoopIR_scheduling.py"
U = "src/exo/rewrite/LoopIR_unification.py"
AS = "src/exo/API_scheduling.py"

EDITS = {"_replace", "_insert", "_delete", "_move", "_wrap"}
HELPERS = {"_replace_reads", "_replace_writes", "_replace_pats", "_replace_helper"}


def is_edit(n: ast.AST) -> bool:
    return isinstance(n, ast.Call) and ((isinstance(n.func, ast.Attribute) and n.func.attr in EDITS) or last_name(n) in HELPERS)


@dataclass
class Ob:
    facts: Tuple[str, ...]  # alternatives: any one suffices
    why: str
    scope: Union[str, int] = "all"
    assume: Dict[str, bool] = field(default_factory=dict)  # parameter values under which the obligation applies
    kind: str = "pre"  # pre | post
    props: Tuple[str, ...] = ("C01",)
    known: Optional[str] = None


def pre(*facts, why, scope="all", assume=None, props=("C01",), known=None):
    return Ob(tuple(facts), why, scope, assume or {}, "pre", props, known)


def post(*facts, why, assume=None, props=("C01", "C04"), known=None):
    return Ob(tuple(facts), why, "all", assume or {}, "post", props, known)


def has(*facts, why, props=("C01",), known=None):
    """a raising guard / call that sits in a loop or callback of the primitive, so it
    cannot dominate syntactically (loops may run zero times): existence is required"""
    return Ob(tuple(facts), why, "all", {}, "has", props, known)


def count(callname, n, why, props=("C01",), known=None):
    """at least n syntactic call sites of `callname` in the primitive"""
    return Ob((f"call:{callname}",), why, n, {}, "count", props, known)


def post1(*facts, why, assume=None, props=("C01", "C04"), known=None):
    """must be called on a tree that already contains the (first) edit"""
    return Ob(tuple(facts), why, "all", assume or {}, "post1", props, known)


# fact vocabulary: call:<f>  guard:<name in a raising test>  chk:<Check_f>:<fields>:<string consts>
TABLE: Dict[str, List[Ob]] = {
    "DoReorderStmt": [
        pre("guard:next", why="the two statements must be adjacent"),
        pre("call:Check_ReorderStmts", why="the statements must commute"),
    ],
    "DoJoinLoops": [
        pre("guard:next", why="the loops must be adjacent"),
        pre("chk:Check_ExprEqvInContext:hi,lo:", why="hi of the first loop must equal lo of the second"),
        pre("guard:match_stmts", why="the two bodies must be identical"),
    ],
    "DoCutLoop": [
        pre("chk:Check_CompareExprs:lo:>=", why="lo <= cut point"),
        pre("chk:Check_CompareExprs:hi:>=", why="cut point <= hi"),
        pre("call:Alpha_Rename", why="the second copy of the loop must be renamed apart", scope=1, props=("C04",)),
    ],
    "DoShiftLoop": [pre("call:Check_IsNonNegativeExpr", why="the new lower bound must be non-negative")],
    "DoProductLoop": [
        pre("guard:is_const_zero", why="both loops must start at 0"),
        pre("guard:.Const", why="the inner bound must be a literal"),
        pre("guard:len", why="the inner loop must be the only statement of the outer body"),
    ],
    "DoMergeWrites": [
        pre("guard:same_write_dest", why="both statements must write the same location"),
        pre("guard:get_reads_of_expr", why="the second right-hand side must not read the first destination"),
    ],
    "DoSplitWrite": [
        pre("guard:.BinOp", why="the right-hand side must be an addition"),
        pre("guard:get_reads_of_expr", why="the operand that becomes the reduction must not read the destination"),
    ],
    "DoFoldIntoReduce": [pre("guard:.BinOp", why="rhs must be an addition"), pre("guard:.Read", why="its left operand must be a read of the destination")],
    "DoInlineAssign": [
        pre("guard:writes", why="the inlined buffer must not be written later"),
        pre("call:Check_ReadsUnchangedBetween", "guard:rhs_writes", why="operands of the inlined right-hand side must not be modified before each use", known="D25"),
    ],
    "DoDivideWithRecompute": [
        pre("guard:is_const_zero", why="the loop must start at 0"),
        pre("call:Check_IsIdempotent", why="recomputed iterations must be idempotent"),
        pre("call:Check_IsNonNegativeExpr", why="outer_hi * stride must not exceed hi"),
        pre("call:Check_IsPositiveExpr", why="the outer loop must run at least once (outer_hi >= 1)", known="D27"),
    ],
    "DoDivideLoop": [pre("guard:is_const_zero", why="the loop must start at 0")],
    "DoUnroll": [pre("guard:.Const", why="bounds must be literals"), has("call:Alpha_Rename", why="every unrolled copy must be renamed apart", props=("C04",))],
    "DoInline": [pre("call:Alpha_Rename", why="the callee body must be renamed apart", props=("C04",)), pre("call:SubstArgs", why="formal parameters must be substituted")],
    "DoCallSwap": [pre("guard:is_eqv", why="callee equivalence gate"), pre("call:Check_ExtendEqv", why="configuration differences must be accounted for", props=("C01", "C10")), post("Check_Aliasing", why="aliasing must be re-checked")],
    "DoConfigWrite": [post("Check_DeleteConfigWrite", why="the new configuration write must be invisible", props=("C01", "C10"))],
    "DoBindConfig": [post1("Check_DeleteConfigWrite", why="the new configuration write must be invisible", props=("C01", "C10")), post("Check_Aliasing", why="aliasing must be re-checked")],
    "DoDeleteConfig": [pre("call:Check_DeleteConfigWrite", why="the deleted write must be invisible", props=("C01", "C10"))],
    "DoRewriteExpr": [pre("call:Check_ExprEqvInContext", why="old and new expression must be equivalent in context")],
    "DoBindExpr": [
        post("Check_Aliasing", why="aliasing must be re-checked"),
        pre("call:get_writes_of_stmts", "call:Check_ReadsUnchangedBetween", why="operands of the bound expression must not be written between binding and use, including by calls", scope=1, known="D24"),
    ],
    "DoLiftScope": [
        pre("call:Check_ReorderLoops", why="For/For interchange requires commuting iterations", scope=4),
        pre("guard:reads", why="inner bounds must not depend on the outer iterator", scope=4),
        pre("guard:_FV", why="a lifted if-condition must not depend on the loop iterator", scope=1),
        pre("guard:.orelse", why="a loop cannot be lifted out of an if that has an else", scope=4),
        pre("guard:len", why="the lifted scope must be the only statement of its parent", scope=10),
    ],
    "DoLiftConstant": [
        pre("guard:only_has_scaled_reduces", why="the buffer may only be scale-reduced in the loop"),
        pre("guard:is_const_zero", "guard:init_is_zero", why="the initial assignment must be zero", known="D21"),
    ],
    "DoExpandDim": [pre("call:Check_IsPositiveExpr", why="the new dimension must be positive"), post("Check_Bounds", why="accesses must stay in bounds")],
    "DoResizeDim": [pre("call:Check_IsPositiveExpr", why="the new size must be positive"), post("Check_Bounds", why="accesses must stay in bounds")],
    "DoFoldBuffer": [pre("call:CheckFoldBuffer", why="live ranges must fit the folded size"), post("Check_Bounds", why="accesses must stay in bounds")],
    "DoDivideDim": [pre("call:Check_IsDivisible", why="the dimension must be divisible by the quotient")],
    "DoMultiplyDim": [pre("guard:.Const", why="the low dimension must be a literal")],
    "DoUnrollBuffer": [pre("guard:.Const", why="the unrolled dimension must be a literal")],
    "DoLiftAllocSimple": [has("guard:szvars", why="the allocation size must not depend on crossed iterators")],
    "DoSinkAlloc": [
        pre("guard:accesses", why="the buffer must not be used after the scope", props=("C01", "C04")),
        pre("call:Check_IsDeadAfter", "call:Check_DefBeforeUse", "guard:reads_before_writes", why="each iteration must define what it reads (values must not flow between iterations)", known="D17", props=("C01", "C04")),
    ],
    "DoDeleteBuffer": [pre("call:Check_IsDeadAfter", why="the buffer must be dead")],
    "DoReuseBuffer": [
        pre("guard:.type", why="both buffers must have the same type"),
        pre("guard:is_ancestor_of", why="the surviving buffer must be in scope where the replaced one is declared (declared earlier in an enclosing block)", props=("C04",)),
        pre("call:Check_IsDeadAfter", why="the reused buffer must be dead from the first use of the replaced one — on every path, not only inside a callback", scope=1, known="D23"),
    ],
    "DoStageMem": [post("Check_Bounds", why="staged accesses must stay in bounds")],
    "DoRemoveLoop": [
        pre("guard:_FV", why="the body must not use the iterator"),
        pre("call:Check_IsIdempotent", why="the body must be idempotent", assume={"unsafe_disable_check": False}),
        has("chk:Check_IsPositiveExpr:hi,lo:", why="the decision to drop the guard must be taken on the trip count hi - lo, not on hi alone"),
        has("call:_wrap", why="a loop that may run zero times must leave an `if hi > lo` guard"),
    ],
    "DoAddLoop": [
        pre("call:Check_IsIdempotent", why="the statement must be idempotent", assume={"unsafe_disable_check": False}),
        pre("call:Check_IsPositiveExpr", why="the new loop must run at least once", assume={"unsafe_disable_check": False}),
    ],
    "DoFissionAfterSimple": [
        pre("call:alloc_check", why="fission must not hide an allocation from a later use", props=("C04",)),
        pre("call:Check_FissionLoop", why="the two halves must commute across iterations", scope=2, assume={"unsafe_disable_checks": False}),
    ],
    "DoSpecialize": [
        pre("guard:are_allocs_used_after_block", why="allocations of the block must not be used after it", props=("C04",)),
        has("guard:is_valid_condition", why="conditions must be index comparisons"),
        count("Alpha_Rename", 2, why="the then-copy and the else-copy must each be renamed apart", props=("C04",)),
    ],
    "DoFuseLoop": [
        pre("guard:next", why="the loops must be adjacent"),
        pre("chk:Check_ExprEqvInContext:lo:", why="lower bounds must be equal"),
        pre("chk:Check_ExprEqvInContext:hi:", why="upper bounds must be equal"),
        post("Check_FissionLoop", why="the fused bodies must commute across iterations", assume={"unsafe_disable_check": False}),
    ],
    "DoFuseIf": [pre("guard:next", why="the branches must be adjacent"), pre("chk:Check_ExprEqvInContext:cond:", why="conditions must be equal")],
    "DoInsertNoopCall": [pre("guard:.Pass", why="only a no-op body may be inserted"), post("check_call_types", why="argument kinds must match the signature")],
    "DoExtractSubproc": [pre("call:Check_Aliasing", why="the source must be alias-free so that distinct arguments are distinct buffers", props=("C04",))],
    "DoEliminateIfDeadBranch": [pre("call:Check_ExprEqvInContext", why="the condition must be constant")],
    "DoEliminateDeadLoop": [pre("call:Check_CompareExprs", why="the loop must never run")],
    "DoReplace": [pre("call:Alpha_Rename", why="callee renamed apart", props=("C05",)), pre("call:Unification", why="block must unify with the callee body", props=("C05",)), post("Check_Aliasing", why="aliasing re-checked", props=("C05", "C04"))],
    # annotation-only / structural primitives: no semantic side condition
    "DoParallelizeLoop": [], "DoSetTypAndMem": [], "DoInlineWindow": [], "DoCommuteExpr": [], "DoLeftReassociateExpr": [], "DoRearrangeDim": [],
    "DoInsertPass": [], "DoDeletePass": [], "DoEliminateDeadCode": [],
    # template rewriters checked elsewhere (C12 / legacy, no claim)
    "DoSimplify": [], "DoPartialEval": [], "DoLiftAlloc": [], "DoAddUnsafeGuard": [],
    "DoFissionLoops": [pre("call:Check_FissionLoop", why="autofission must check that the halves commute (fission does)", scope=1, known="D22")],
}

CHK_FIELDS = {"lo", "hi", "cond", "iter", "body", "rhs", "idx"}


def var_fields(fnode) -> Dict[str, Set[str]]:
    """local variable -> IR fields its defining expression mentions (one level)."""
    out: Dict[str, Set[str]] = {}
    for n in ast.walk(fnode):
        if isinstance(n, ast.Assign) and len(n.targets) == 1 and isinstance(n.targets[0], ast.Name):
            out.setdefault(n.targets[0].id, set()).update(a.attr for a in ast.walk(n.value) if isinstance(a, ast.Attribute) and a.attr in CHK_FIELDS)
    return out


def chk_facts(n: ast.AST, vf: Optional[Dict[str, Set[str]]] = None):
    """chk:<Check_f>:<IR fields named in the arguments>:<string constants>"""
    if isinstance(n, ast.Call):
        ln = last_name(n)
        if ln and ln.startswith("Check_"):
            fs = {a.attr for x in n.args for a in ast.walk(x) if isinstance(a, ast.Attribute) and a.attr in CHK_FIELDS}
            if vf:
                for x in n.args:
                    for a in ast.walk(x):
                        if isinstance(a, ast.Name) and a.id in vf:
                            fs |= vf[a.id]
            flds = sorted(fs)
            consts = sorted({a.value for x in n.args for a in ast.walk(x) if isinstance(a, ast.Constant) and isinstance(a.value, str)})
            yield f"chk:{ln}:{','.join(flds)}:{','.join(consts)}"
            for fl in flds:
                yield f"chk:{ln}:{fl}:{','.join(consts)}"


class PrimFlow(GuardFlow):
    """GuardFlow + parameter assumptions + `after:<call>` facts (calls since the last edit)."""

    def __init__(self, assume: Dict[str, bool], vf: Optional[Dict[str, Set[str]]] = None):
        super().__init__(is_edit, lambda n: chk_facts(n, vf))
        self.assumed = assume

    def _eval(self, e: ast.expr) -> Optional[bool]:
        if isinstance(e, ast.Name) and e.id in self.assumed:
            return self.assumed[e.id]
        if isinstance(e, ast.UnaryOp) and isinstance(e.op, ast.Not):
            v = self._eval(e.operand)
            return None if v is None else (not v)
        return None

    def assume(self, expr, truth, st):
        v = self._eval(expr)
        if v is not None and v != truth:
            return None  # branch infeasible under the assumption
        return super().assume(expr, truth, st)

    def _visit(self, node, st):
        has_edit = any(is_edit(n) for n in ast.walk(node) if not isinstance(n, (ast.FunctionDef, ast.Lambda)))
        st = super()._visit(node, st)
        if has_edit:
            st = frozenset(x for x in st if not x.startswith("after:"))
        else:
            st = frozenset(st | {"after:" + x[5:] for x in self._facts_of(node) if x.startswith("call:")})
        if _edited(st) and not has_edit:
            st = frozenset(st | {"afterany:" + x[5:] for x in self._facts_of(node) if x.startswith("call:")})
        return st


def nested_call_closure(f: Func, ix) -> Dict[str, Set[str]]:
    """For local helper functions (nested defs) the calls they make: a call to the
    helper counts as executing those calls (alloc_check -> raise ..., etc.)."""
    out: Dict[str, Set[str]] = {}
    for n in ast.walk(f.node):
        if isinstance(n, ast.FunctionDef) and n is not f.node:
            out[n.name] = {last_name(c) for c in ast.walk(n) if isinstance(c, ast.Call) and last_name(c)}
    return out


def analyse_primitive(f: Func, assume: Dict[str, bool]):
    an = PrimFlow(assume, var_fields(f.node))
    an.mark_guards(f.node)
    Engine(an).run(f.node)
    return an


def primitive_funcs(ix) -> Dict[str, Func]:
    m = ix.module(S)
    out: Dict[str, Func] = {}
    names = _all_names(m)
    for nm in names:
        if nm in m.funcs:
            out[nm] = m.funcs[nm]
        elif nm in m.classes:
            out[nm] = None  # class-style rewriter
    out["DoReplace"] = ix.func(U, "DoReplace")
    return out


def _all_names(m) -> List[str]:
    v = m.assigns.get("__all__")
    if not isinstance(v, ast.List):
        raise AnalysisError("anchor vanished: __all__ in LoopIR_scheduling.py")
    return [e.value for e in v.elts if isinstance(e, ast.Constant)]


def rule_guard(ctx, prop: str) -> RuleResult:
    ix = ctx.ix
    res = RuleResult("GUARD")
    prims = primitive_funcs(ix)
    m = ix.module(S)
    # every exported primitive must have a table row
    for nm in prims:
        if nm not in TABLE:
            raise AnalysisError(f"GUARD: untriaged primitive {nm} (add a row to rules/guard.py TABLE)")
    for nm, obs in sorted(TABLE.items()):
        mine = [o for o in obs if prop in o.props]
        if not mine:
            continue
        f = prims.get(nm) or m.funcs.get(nm)
        if f is None:
            # class-style rewriter: analyse all of its methods together
            c = m.classes.get(nm)
            if c is None:
                raise AnalysisError(f"anchor vanished: primitive {nm}")
            names = {last_name(n) for meth in c.methods.values() for n in meth.all_nodes() if isinstance(n, ast.Call)}
            for o in mine:
                res.instances += 1
                res.nontrivial += 1
                ok = any(x.startswith("call:") and x[5:] in names for x in o.facts)
                res.ob(ok)
                if not ok:
                    res.add(Finding("GUARD", S, c.node.lineno, nm, f"{o.kind}:{o.facts[0]}", f"{nm}: {o.why} — no such check anywhere in the rewriter"))
            continue
        res.analysed.append(f"{f.file}:{f.qualname}")
        by_assume: Dict[Tuple, PrimFlow] = {}
        for o in mine:
            key = tuple(sorted(o.assume.items()))
            if key not in by_assume:
                by_assume[key] = analyse_primitive(f, o.assume)
            an = by_assume[key]
            sites = an.site_facts()
            res.instances += 1
            res.nontrivial += 1
            if o.kind == "count":
                nm_ = o.facts[0][5:]
                k = sum(1 for n in f.all_nodes() if isinstance(n, ast.Call) and last_name(n) == nm_)
                ok = k >= int(o.scope)
                res.ob(ok)
                res.sample(f"{nm}: {k} call sites of {nm_} (needs {o.scope})")
                if not ok:
                    res.add(Finding("GUARD", f.file, f.lineno, nm, f"count:{nm_}", f"{nm}: {o.why} — only {k} call(s) of {nm_} remain, {o.scope} needed"))
                continue
            if o.kind == "has":
                calls = {last_name(n) for n in f.all_nodes() if isinstance(n, ast.Call)}
                guards: Set[str] = set()
                for n in f.all_nodes():
                    if isinstance(n, ast.If) and (always_raises(n.body) or (n.orelse and always_raises(n.orelse))):
                        guards |= names_in(n.test)
                vf = var_fields(f.node)
                chks = {c for n in f.all_nodes() for c in chk_facts(n, vf)}
                ok = any((x.startswith("call:") and x[5:] in calls) or (x.startswith("guard:") and x[6:] in guards) or (x.startswith("chk:") and x in chks) for x in o.facts)
                res.ob(ok)
                res.sample(f"{nm}: `{o.facts[0]}` present")
                if not ok:
                    res.add(Finding("GUARD", f.file, f.lineno, nm, f"has:{o.facts[0]}", f"{nm}: {o.why} — the check has disappeared from the primitive"))
                continue
            if o.kind == "pre":
                if not sites:
                    raise AnalysisError(f"GUARD: no edit site found in {nm}")
                n_ok = sum(1 for _, facts in sites if any(a in facts for a in o.facts))
                need = len(sites) if o.scope == "all" else min(int(o.scope), len(sites))
                ok = n_ok >= need
                where = next((n for n, facts in sorted(sites, key=lambda x: x[0].lineno) if not any(a in facts for a in o.facts)), sites[0][0])
                res.ob(ok)
                res.sample(f"{nm}: `{o.facts[0]}` dominates {n_ok}/{len(sites)} edit sites (needs {need}){' under ' + str(o.assume) if o.assume else ''}")
                if not ok:
                    res.add(
                        Finding("GUARD", f.file, where.lineno, nm, f"pre:{o.facts[0]}",
                                f"{nm}: {o.why} — the tree is edited on a path that never passed {' / '.join(o.facts)}"
                                + (f" (with {', '.join(f'{k}={v}' for k, v in o.assume.items())})" if o.assume else "")
                                + f": {n_ok} of {len(sites)} edit sites are guarded, {need} required")
                    )
            else:
                # every normal exit reached after an edit must have passed the call since the last edit
                exits = [(k, n, facts) for k, n, facts in an.exits if k in ("return", "fall")]
                pfx = "after:" if o.kind == "post" else "afterany:"
                bad = [n for k, n, facts in exits if not any((pfx + a) in facts for a in o.facts) and _edited(facts)]
                ok = not bad and bool(exits)
                res.ob(ok)
                res.sample(f"{nm}: `{o.facts[0]}` follows the last edit on {len(exits) - len(bad)}/{len(exits)} exits")
                if not ok:
                    ln = bad[0].lineno if bad else f.lineno
                    res.add(Finding("GUARD", f.file, ln, nm, f"post:{o.facts[0]}", f"{nm}: {o.why} — a result is returned that was not passed to {' / '.join(o.facts)} after the last edit"))
    res.floor = 40 if prop == "C01" else 8
    return res


def _edited(facts: FrozenSet[str]) -> bool:
    return any(x.startswith("call:") and x[5:] in (EDITS | HELPERS) for x in facts)
