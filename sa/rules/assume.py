"""SIZEPOS — "this argument is positive" may be assumed for `size` arguments only (C01, C03, C04, C12).

Three sibling analyses inject `0 < a` for procedure arguments into their reasoning: the control
predicate of the scheduling checks (`ContextExtraction.get_control_predicate`), the bounds checker
(proc arguments and callee signatures), and the range analysis (`arg_range_analysis`).  The
language guarantees positivity for `size` only; an `index` argument may be zero or negative.  If one
sibling widens the filter (`is_indexable()`, `in (T.size, T.index)` ...), every side condition whose
truth hinges on the sign of an index argument is discharged spuriously in that analysis
(`remove_loop` on `seq(0, k)`, dead-branch elimination on `k > 0`, `x[k - 1]` accepted ...).

Rule: every positivity fact about `v.name`, where `v` ranges over some `.args`, is governed (comprehension
filter or enclosing `if`) by a test that `v.type` is exactly the Size type.  The rule decides the
filter, not the facts' use.
"""
from __future__ import annotations

import ast
from typing import List, Optional

from ..index import AnalysisError, dotted, parent
from ..report import Finding, RuleResult

FILES = ("src/exo/rewrite/new_eff.py", "src/exo/frontend/boundscheck.py", "src/exo/rewrite/range_analysis.py")


def _is_zero(n: ast.AST) -> bool:
    if isinstance(n, ast.Constant):
        return n.value == 0 and not isinstance(n.value, bool)
    if isinstance(n, ast.Call) and len(n.args) == 1 and (dotted(n.func) or "").split(".")[-1] in ("Int", "AInt"):
        return _is_zero(n.args[0])
    return False


def _name_of(n: ast.AST) -> Optional[str]:
    """v for an expression that wraps `v.name` in at most a few calls: AInt(v.name), self.sym_to_smt(v.name)"""
    for _ in range(3):
        if isinstance(n, ast.Call) and len(n.args) == 1:
            n = n.args[0]
    if isinstance(n, ast.Attribute) and n.attr == "name" and isinstance(n.value, ast.Name):
        return n.value.id
    return None


def _pos_fact(n: ast.AST) -> Optional[str]:
    """the variable v if n states `v.name > 0` / `0 < v.name` (operator or SMT.GT / SMT.LT form)"""
    if isinstance(n, ast.Compare) and len(n.ops) == 1:
        l, r = n.left, n.comparators[0]
        if isinstance(n.ops[0], ast.Gt) and _is_zero(r):
            return _name_of(l)
        if isinstance(n.ops[0], ast.Lt) and _is_zero(l):
            return _name_of(r)
    if isinstance(n, ast.Call) and len(n.args) == 2:
        fn = (dotted(n.func) or "").split(".")[-1]
        if fn == "GT" and _is_zero(n.args[1]):
            return _name_of(n.args[0])
        if fn == "LT" and _is_zero(n.args[0]):
            return _name_of(n.args[1])
    return None


def size_test(t: ast.AST, v: str) -> Optional[bool]:
    """True: t establishes that v.type is Size; False: t is a recognised WEAKER type test on v; None: not a type test on v"""
    if isinstance(t, ast.BoolOp) and isinstance(t.op, ast.And):
        rs = [size_test(x, v) for x in t.values]
        return True if True in rs else (False if False in rs else None)
    vt = f"{v}.type"
    if isinstance(t, ast.Call) and isinstance(t.func, ast.Name) and t.func.id == "isinstance" and len(t.args) == 2 and ast.unparse(t.args[0]) == vt:
        c = t.args[1]
        if isinstance(c, ast.Tuple):
            return False if len(c.elts) != 1 else size_test(ast.Call(func=t.func, args=[t.args[0], c.elts[0]], keywords=[]), v)
        return (dotted(c) or "").split(".")[-1] == "Size"
    if isinstance(t, ast.Compare) and len(t.ops) == 1 and ast.unparse(t.left) == vt:
        if isinstance(t.ops[0], (ast.Eq, ast.Is)):
            return (dotted(t.comparators[0]) or "").split(".")[-1] in ("size", "Size")
        return False  # `in (...)`, `!=` ...
    if vt in ast.unparse(t):
        return False  # v.type.is_indexable(), is_stridable() ... : a wider class than Size
    return None


def _governing(node: ast.AST, v: str, stop: ast.AST) -> List[ast.AST]:
    tests: List[ast.AST] = []
    p_ = node
    while p_ is not None and p_ is not stop:
        q_ = parent(p_)
        if isinstance(q_, ast.If) and any(p_ is s_ for s_ in q_.body):
            tests.append(q_.test)
        if isinstance(q_, ast.IfExp) and p_ is q_.body:
            tests.append(q_.test)
        if isinstance(q_, (ast.ListComp, ast.GeneratorExp, ast.SetComp)):
            for g in q_.generators:
                if v in {k.id for k in ast.walk(g.target) if isinstance(k, ast.Name)}:
                    tests += g.ifs
        p_ = q_
    return tests


def _ranges_over_args(fnode: ast.AST, v: str) -> bool:
    for n in ast.walk(fnode):
        tgt, it = None, None
        if isinstance(n, ast.For):
            tgt, it = n.target, n.iter
        elif isinstance(n, ast.comprehension):
            tgt, it = n.target, n.iter
        if tgt is None or v not in {k.id for k in ast.walk(tgt) if isinstance(k, ast.Name)}:
            continue
        if any(isinstance(k, ast.Attribute) and k.attr == "args" for k in ast.walk(it)):
            return True
    return False


def rule_sizepos(ctx, prop: str) -> RuleResult:
    ix = ctx.ix
    res = RuleResult("SIZEPOS")
    for f in sorted((g for g in ix.all_funcs() if g.file in FILES), key=lambda g: (g.file, g.lineno)):
        seen = False
        for n in f.body_nodes():
            v = _pos_fact(n)
            if v is None or not _ranges_over_args(f.node, v):
                continue
            seen = True
            tests = _governing(n, v, f.node)
            verdicts = [size_test(t, v) for t in tests]
            res.instances += 1
            res.nontrivial += 1
            ok = True in verdicts
            res.ob(ok)
            res.sample(f"{f.qualname}: `{ast.unparse(n)[:60]}` under `{' and '.join(ast.unparse(t)[:50] for t in tests)}`: {ok}")
            if not ok:
                why = "no type test at all" if not any(x is False for x in verdicts) else f"`{' and '.join(ast.unparse(t)[:60] for t, x in zip(tests, verdicts) if x is False)}`, which admits more than `size`"
                res.add(Finding("SIZEPOS", f.file, n.lineno, f.qualname, f"pos:{v}", f"`{ast.unparse(n)[:70]}` is assumed for every argument `{v}` passing {why}: only `size` arguments are positive by "
                                f"construction; for an `index` argument the analysis then proves sign-dependent side conditions that are false (remove_loop on seq(0, k) drops the k > 0 guard, a dead-branch test on k > 0 succeeds)"))
        if seen:
            res.analysed.append(f"{f.file}:{f.qualname}")
    # range analysis: the constant lower bound 1 of an argument is justified by the Size type only
    f = ix.func("src/exo/rewrite/range_analysis.py", "arg_range_analysis")
    res.analysed.append(f"{f.file}:{f.qualname}")
    ps = f.params()
    v = ps[1] if len(ps) > 1 else "arg"
    n_one = 0
    for n in f.body_nodes():
        one = None
        if isinstance(n, ast.Return) and isinstance(n.value, ast.Tuple) and n.value.elts and isinstance(n.value.elts[0], ast.Constant) and n.value.elts[0].value == 1:
            one, tests = n, _governing(n, v, f.node)
        elif isinstance(n, ast.IfExp) and isinstance(n.body, ast.Constant) and n.body.value == 1:
            one, tests = n, [n.test]
        if one is None:
            continue
        n_one += 1
        verdicts = [size_test(t, v) for t in tests]
        res.instances += 1
        res.nontrivial += 1
        ok = True in verdicts
        res.ob(ok)
        res.sample(f"arg_range_analysis: lower bound 1 (`{ast.unparse(one)[:50]}`) under a Size test on `{v}`: {ok}")
        if not ok:
            res.add(Finding("SIZEPOS", f.file, one.lineno, f.qualname, f"lower1:{'return' if isinstance(one, ast.Return) else 'search'}",
                            f"`{ast.unparse(one)[:70]}` gives argument `{v}` the lower bound 1 without establishing that its type is `size`: an `index` argument is then believed positive by simplify and by the C emitter's `/`, `%` sign proof"))
    if n_one < 2:
        raise AnalysisError(f"SIZEPOS: expected the two `lower bound 1` sites of arg_range_analysis, found {n_one}")
    if res.instances < 5:
        raise AnalysisError(f"SIZEPOS: only {res.instances} positivity assumptions found (control predicate, bounds checker x2, range analysis x2 expected)")
    res.floor = 5
    return res
