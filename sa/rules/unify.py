"""C05 / C01 comparison rules: ZIPLEN, CALLPRED, REPLSCOPE, HOLESIB (DESIGN §3.5, §3.16)."""
from __future__ import annotations

import ast
import itertools
from typing import Dict, List, Optional, Set, Tuple

from ..flow import always_exits, always_raises
from ..index import AnalysisError, Func, dotted, last_name, norm_stmt, parent
from ..report import Finding, RuleResult

L = "src/exo/core/LoopIR.py"
U = "src/exo/rewrite/LoopIR_unification.py"

# (file, function, zip-args) -> reason the two lists have equal length by construction
ZIP_TRIAGE: Dict[Tuple[str, str, str], str] = {
    (U, "Unification.is_exact_e", "e0.idx,e1.idx"): "guarded by `e0.name == e1.name` (Sym identity): one buffer has one rank",
}


def _enclosing_func_stmts(f: Func) -> List[ast.stmt]:
    return [n for n in ast.walk(f.node) if isinstance(n, ast.stmt)]


def _len_pairs(e: ast.AST) -> Set[frozenset]:
    """{ {A,B} } for every comparison relating len(A) and len(B) in e."""
    out = set()
    for n in ast.walk(e):
        if isinstance(n, ast.Compare) and len(n.ops) == 1:
            ls = [ast.unparse(c.args[0]) for c in ast.walk(n.left) if isinstance(c, ast.Call) and dotted(c.func) == "len" and c.args]
            rs = [ast.unparse(c.args[0]) for c in ast.walk(n.comparators[0]) if isinstance(c, ast.Call) and dotted(c.func) == "len" and c.args]
            for a in ls:
                for b in rs:
                    out.add(frozenset((a, b)))
    return out


def ziplen_sites(f: Func):
    """Yield (zip call, argA text, argB text, verdict, why)."""
    # variables bound to attribute lists:  pidx = pnode.idx  /  a, b = x.idx, y.idx
    alias: Dict[str, str] = {}
    diffvars: Dict[str, frozenset] = {}
    for n in f.body_nodes():
        if isinstance(n, ast.Assign):
            tg, v = n.targets[0], n.value
            if isinstance(tg, ast.Name):
                if isinstance(v, ast.Attribute):
                    alias[tg.id] = ast.unparse(v)
                lens = [ast.unparse(c.args[0]) for c in ast.walk(v) if isinstance(c, ast.Call) and dotted(c.func) == "len" and c.args]
                if len(lens) == 2 and isinstance(v, ast.BinOp) and isinstance(v.op, ast.Sub):
                    diffvars[tg.id] = frozenset(lens)
            if isinstance(tg, ast.Tuple) and isinstance(v, ast.Tuple) and len(tg.elts) == len(v.elts):
                for t, x in zip(tg.elts, v.elts):
                    if isinstance(t, ast.Name) and isinstance(x, ast.Attribute):
                        alias[t.id] = ast.unparse(x)
    for n in f.body_nodes():
        if not (isinstance(n, ast.Call) and dotted(n.func) == "zip" and len(n.args) == 2):
            continue
        a, b = (ast.unparse(x) for x in n.args)
        pair = frozenset((a, b))
        # (1) a dominating length test on the same two lists
        verdict, why = None, ""
        p = n
        chain_conds: List[ast.expr] = []
        while p is not None and p is not f.node:
            par = parent(p)
            if isinstance(par, ast.If) and any(p is s or _contains(s, p) for s in par.body):
                chain_conds.append(par.test)
            if isinstance(par, ast.BoolOp) and isinstance(par.op, ast.And):
                # conjuncts evaluated before the one containing the zip
                for v in par.values:
                    if v is p or _contains(v, p):
                        break
                    chain_conds.append(v)
            p = par
        for c in chain_conds:
            if pair in _len_pairs(c):
                verdict, why = True, "enclosing test relates the two lengths"
            for nm, dv in diffvars.items():
                if dv == pair and any(isinstance(x, ast.Name) and x.id == nm for x in ast.walk(c)):
                    verdict, why = True, f"enclosing test on `{nm}` = len difference"
        if verdict is None:
            # earlier `if len(A) != len(B): raise/return` in the same function
            for s in _enclosing_func_stmts(f):
                if isinstance(s, ast.If) and s.lineno < n.lineno and pair in _len_pairs(s.test) and always_exits(s.body):
                    verdict, why = True, "earlier raising/returning length test"
        if verdict is None:
            # (2) same callee => same arity
            if a.endswith(".args") and b.endswith(".args"):
                sa, sb = a[: -len(".args")], b[: -len(".args")]
                for s in _enclosing_func_stmts(f):
                    if s.lineno <= n.lineno:
                        for c in ast.walk(s):
                            if isinstance(c, ast.Compare) and len(c.ops) == 1:
                                l, r = ast.unparse(c.left), ast.unparse(c.comparators[0])
                                if {l, r} == {sa + ".f", sb + ".f"}:
                                    verdict, why = True, "both nodes have the same callee (arity fixed by its signature)"
        if verdict is None:
            # lists that are not both IR child lists are out of scope (signature zip etc.)
            ir = lambda t: t.rsplit(".", 1)[-1] in ("idx", "args", "body", "orelse", "hi", "preds") or t in ("stmts1", "stmts2") or t.endswith("shape()")
            aa, bb = alias.get(a, a), alias.get(b, b)
            if not (ir(aa) and ir(bb)):
                continue
            if ".f.args" in aa or ".f.args" in bb:
                continue  # call arguments against the callee's signature: typechecked arity
        yield n, a, b, verdict, why


def _contains(root: ast.AST, node: ast.AST) -> bool:
    return any(x is node for x in ast.walk(root))


def rule_ziplen(ctx, prop: str) -> RuleResult:
    ix = ctx.ix
    res = RuleResult("ZIPLEN")
    targets: List[Func] = []
    if prop in ("C01",):
        c = ix.module(L).cls("LoopIR_Compare")
        targets += list(c.methods.values())
    if prop in ("C05",):
        c = ix.module(U).cls("Unification")
        targets += [f for f in c.methods.values() if f.name.startswith(("unify", "is_exact"))]
    for f in targets:
        res.analysed.append(f"{f.file}:{f.qualname}")
        for call, a, b, verdict, why in ziplen_sites(f):
            res.instances += 1
            res.nontrivial += 1
            key = (f.file, f.qualname, f"{a},{b}")
            if verdict is None and key in ZIP_TRIAGE:
                verdict, why = True, ZIP_TRIAGE[key]
            res.ob(bool(verdict))
            res.sample(f"{f.qualname}: zip({a}, {b}) — {why or 'NO length relation established'}")
            if not verdict:
                res.add(
                    Finding("ZIPLEN", f.file, call.lineno, f.qualname, f"{a},{b}",
                            f"zip({a}, {b}) compares two IR child lists with no length test: the shorter list wins, so a block/index list that is a "
                            f"prefix of the other is reported identical (statements or dimensions silently ignored)")
                )
    res.floor = 6 if prop == "C01" else 5
    return res


def rule_replscope(ctx, prop: str) -> RuleResult:
    """DoReplace: the cursor that is edited is exactly the block whose statements were
    unified — never a larger selection."""
    ix = ctx.ix
    res = RuleResult("REPLSCOPE")
    f = ix.func(U, "DoReplace")
    res.analysed.append(f"{U}:DoReplace")
    unified_src = None  # text of the cursor expression the unified statements come from
    for n in f.body_nodes():
        if isinstance(n, ast.Assign) and isinstance(n.targets[0], ast.Name) and n.targets[0].id == "stmts":
            for g in ast.walk(n.value):
                if isinstance(g, ast.comprehension):
                    unified_src = ast.unparse(g.iter)
    edits = [n for n in f.body_nodes() if isinstance(n, ast.Call) and isinstance(n.func, ast.Attribute) and n.func.attr == "_replace"]
    if unified_src is None or not edits:
        raise AnalysisError("anchor vanished: DoReplace `stmts = [... for c in <block>]` / `_replace`")
    # reaching definition of a plain name used as the source: x = x[:n]
    narrowed: Dict[str, str] = {}
    for n in f.body_nodes():
        if isinstance(n, ast.Assign) and isinstance(n.targets[0], ast.Name):
            narrowed[n.targets[0].id] = ast.unparse(n.value)
    for e in edits:
        res.instances += 1
        res.nontrivial += 1
        recv = ast.unparse(e.func.value)
        ok = recv == unified_src
        res.ob(ok)
        res.sample(f"unified statements come from `{unified_src}`; edit receiver `{recv}`")
        if not ok:
            res.add(Finding("REPLSCOPE", U, e.lineno, "DoReplace", f"edit:{recv}|unified:{unified_src}",
                            f"the call replaces `{recv}` but only `{unified_src}` was unified with the sub-procedure: the other selected statements are deleted unchecked"))
    # the unified slice must be bounded by the callee body length
    res.instances += 1
    ok = any(isinstance(n, ast.Subscript) and isinstance(n.slice, ast.Slice) and n.slice.upper is not None and "n_stmts" in ast.unparse(n.slice.upper) for n in f.body_nodes())
    res.ob(ok)
    if not ok:
        res.add(Finding("REPLSCOPE", U, f.lineno, "DoReplace", "slice[:n_stmts]", "the block is not narrowed to len(subproc.body) statements before unification"))
    # callee is alpha-renamed before unification, aliasing re-checked after the edit
    txt_calls = [last_name(n) for n in sorted((n for n in f.body_nodes() if isinstance(n, ast.Call)), key=lambda n: n.lineno)]
    for need, why in (("Alpha_Rename", "callee body must be renamed apart from the block"), ("Check_Aliasing", "aliasing must be re-checked on the result")):
        res.instances += 1
        ok = need in txt_calls
        res.ob(ok)
        if not ok:
            res.add(Finding("REPLSCOPE", U, f.lineno, "DoReplace", need, why))
    res.instances += 1
    ok = "Check_Aliasing" in txt_calls and "_replace" in txt_calls and txt_calls.index("_replace") < len(txt_calls) - 1 - txt_calls[::-1].index("Check_Aliasing") + 1
    res.ob(ok)
    res.floor = 4
    return res


def rule_callpred(ctx, prop: str) -> RuleResult:
    """A primitive that introduces a call to a user-supplied procedure must discharge
    the callee's assertions (`preds`) at the new call site."""
    ix = ctx.ix
    res = RuleResult("CALLPRED")
    sites = [(U, "DoReplace", "subproc"), ("src/exo/rewrite/LoopIR_scheduling.py", "DoInsertNoopCall", "config")]
    for file, qn, _ in sites:
        f = ix.func(file, qn)
        res.analysed.append(f"{file}:{qn}")
        res.instances += 1
        res.nontrivial += 1
        makes_call = any(isinstance(n, ast.Call) and dotted(n.func) == "LoopIR.Call" for n in f.body_nodes())
        if not makes_call:
            raise AnalysisError(f"anchor vanished: {qn} no longer constructs LoopIR.Call")
        reads_preds = any(isinstance(n, ast.Attribute) and n.attr == "preds" for n in f.body_nodes())
        # or hands the result to a checker that does (Check_Bounds-like on calls)
        checks = {last_name(n) for n in f.body_nodes() if isinstance(n, ast.Call)}
        ok = reads_preds or bool(checks & {"Check_CallPreds", "CheckBounds", "Check_Bounds"})
        res.ob(ok)
        res.sample(f"{qn}: constructs LoopIR.Call; reads callee preds: {reads_preds}; checkers called: {sorted(c for c in checks if c and c.startswith('Check'))}")
        if not ok:
            res.add(
                Finding("CALLPRED", file, f.lineno, qn, "LoopIR.Call<-preds",
                        f"{qn} introduces a call to a user-supplied procedure but never looks at its `preds`: the call is accepted although the callee's "
                        f"assertions (strides, size relations) may be violated at this site — an instruction is used outside its specification")
            )
    res.floor = 2
    return res


def rule_holesib(ctx, prop: str) -> RuleResult:
    """Sibling agreement: every `unify_*_hole` that binds a hole on first sight must
    reject a second, inequivalent binding."""
    ix = ctx.ix
    res = RuleResult("HOLESIB")
    c = ix.module(U).cls("Unification")
    sibs = [f for n, f in c.methods.items() if n.startswith("unify_") and n.endswith("_hole")]
    if len(sibs) < 2:
        raise AnalysisError("anchor vanished: unify_*_hole siblings")
    for f in sibs:
        res.analysed.append(f"{U}:{f.qualname}")
        res.instances += 1
        res.nontrivial += 1
        binds = any(isinstance(n, ast.If) and "is False" in ast.unparse(n.test) for n in f.body_nodes())
        rejects = False
        for n in f.body_nodes():
            if isinstance(n, ast.If) and "is False" in ast.unparse(n.test):
                for k in n.orelse:
                    # `elif not self.is_exact_e(new, recorded): raise` / `elif new != recorded: raise`
                    if isinstance(k, ast.If) and always_raises(k.body):
                        t = k.test
                        cmp_ok = isinstance(t, ast.UnaryOp) and isinstance(t.op, ast.Not) and isinstance(t.operand, ast.Call) and last_name(t.operand) == "is_exact_e"
                        cmp_ok = cmp_ok or (isinstance(t, ast.Compare) and isinstance(t.ops[0], (ast.NotEq, ast.IsNot)))
                        if cmp_ok:
                            rejects = True
                    if isinstance(k, ast.Raise):
                        rejects = True
        ok = (not binds) or rejects
        res.ob(ok)
        res.sample(f"{f.qualname}: binds on first sight: {binds}; rejects an inequivalent second binding: {rejects}")
        if not ok:
            res.add(
                Finding("HOLESIB", U, f.lineno, f.qualname, "second-binding",
                        f"{f.qualname} records the first expression for a hole but accepts any later, different one (its sibling compares with is_exact_e and raises): "
                        f"one callee argument is unified with two different values and the call is built from the first")
            )
    res.floor = 2
    return res


def rule_bufbind(ctx, prop: str) -> RuleResult:
    """One callee buffer argument stands for ONE caller buffer.  Every site of
    `Unification` that records the caller buffer for a callee buffer
    (`pvar.set_buf_solution(b)`) on first sight must have, on the "already recorded" side
    of the same decision, a comparison of the recorded buffer with `b` that raises
    (sibling agreement between the windowed and the non-windowed path)."""
    ix = ctx.ix
    res = RuleResult("BUFBIND")
    c = ix.module(U).cls("Unification")
    n_sites = 0
    for f in c.methods.values():
        for n in f.body_nodes():
            if not (isinstance(n, ast.Call) and isinstance(n.func, ast.Attribute) and n.func.attr == "set_buf_solution" and n.args):
                continue
            n_sites += 1
            res.instances += 1
            res.analysed.append(f"{U}:{f.qualname}")
            new = ast.unparse(n.args[0])
            # a variable created in this very block (BufVar(...) for a callee-local Alloc /
            # WindowStmt) has no earlier recording
            recv = n.func.value.id if isinstance(n.func.value, ast.Name) else None
            stmt = n
            while not isinstance(parent(stmt), (ast.If, ast.For, ast.While, ast.FunctionDef, ast.With, ast.Try)):
                stmt = parent(stmt)
            blk = next((b for fld in ("body", "orelse") for b in [getattr(parent(stmt), fld, None)] if isinstance(b, list) and any(k is stmt for k in b)), [])
            fresh = any(
                isinstance(k, ast.Assign) and len(k.targets) == 1 and isinstance(k.targets[0], ast.Name) and k.targets[0].id == recv
                and isinstance(k.value, ast.Call) and last_name(k.value) == "BufVar" and k.lineno < n.lineno
                for k in blk
            )
            if fresh:
                res.ob(True)
                res.sample(f"{f.qualname}: set_buf_solution({new}) on a BufVar created in the same block (no earlier recording)")
                continue
            res.nontrivial += 1
            # the decision this recording belongs to: nearest enclosing If
            x, p = n, parent(n)
            iff, in_body = None, None
            while p is not None and p is not f.node:
                if isinstance(p, ast.If):
                    st = x
                    iff, in_body = p, any(st is b for b in p.body)
                    break
                x, p = p, parent(p)

            def compares_and_raises(test: ast.AST, body) -> bool:
                if not always_raises(body):
                    return False
                for k in ast.walk(test):
                    if isinstance(k, ast.Compare) and len(k.ops) == 1 and isinstance(k.ops[0], (ast.NotEq, ast.IsNot)):
                        sides = {ast.unparse(k.left), ast.unparse(k.comparators[0])}
                        if new in sides and any("solution_buf" in sd for sd in sides):
                            return True
                return False

            ok = False
            # (a) the condition governing the recording implies: nothing recorded yet, or the
            #     recorded buffer equals the new one
            if iff is not None:
                from ..boolform import implies as bf_implies, to_form as bf_form

                g = bf_form(iff.test) if in_body else ("not", bf_form(iff.test))
                rec = None
                for k in ast.walk(iff.test):
                    if isinstance(k, ast.Attribute) and k.attr == "solution_buf":
                        rec = ast.unparse(k)
                if rec is not None:
                    a_, b_ = sorted([rec, new])
                    spec = ("or", [("not", ("atom", rec)), ("cmp", f"{a_} <=> {b_}", frozenset({"eq"}))])
                    try:
                        ok = bf_implies(g, spec)[0]
                    except ValueError:
                        ok = False
            if iff is not None and not ok:
                if in_body:
                    # first-sight branch: the other side must compare and raise
                    for k in iff.orelse:
                        if isinstance(k, ast.If) and compares_and_raises(k.test, k.body):
                            ok = True
                else:
                    # recording in the else of `if <recorded differs>: raise`
                    ok = compares_and_raises(iff.test, iff.body)
            res.ob(ok)
            res.sample(f"{f.qualname}: set_buf_solution({new}) has a raising comparison with the recorded buffer on the other side: {ok}")
            if not ok:
                res.add(
                    Finding("BUFBIND", U, n.lineno, f.qualname, f"set_buf_solution({new})",
                            f"{f.qualname} records `{new}` for the callee buffer on first sight but never compares a later access with the recorded buffer: "
                            f"`a[i] = b[i] * 2.0` unifies with a callee `x[i] = x[i] * 2.0` (x a window) and is replaced by dbl(b[0:8])")
                )
    if n_sites < 2:
        raise AnalysisError("anchor vanished: set_buf_solution call sites in Unification")
    res.floor = 2
    return res


def _marker_anchor_renamed(f: Func, marker: str) -> Optional[str]:
    """A row's marker may name a local of the function (`hi.val`, `post_FV`).  If that identifier does not
    occur in the function at all any more, the local was renamed: the row has to be re-confirmed
    (ANALYSIS-ERROR), it is not evidence that the condition was dropped."""
    import re as _re
    import keyword as _kw

    names = {n.id for n in ast.walk(f.node) if isinstance(n, ast.Name)} | {a.arg for n in ast.walk(f.node) if isinstance(n, ast.arguments) for a in n.args + n.kwonlyargs}
    for m_ in _re.finditer(r"(?<![\w.])([A-Za-z_]\w*)", marker):
        ident = m_.group(1)
        if _kw.iskeyword(ident) or ident[0].isupper() or ident in ("len", "isinstance", "self", "not", "is", "None"):
            continue
        # identifiers that are called or are attribute names are not locals
        rest = marker[m_.end():]
        if rest.startswith("("):
            continue
        if ident in getattr(f.module, "funcs", {}) or ident in getattr(f.module, "imports", {}) or ident in getattr(f.module, "classes", {}) or ident in getattr(f.module, "assigns", {}):
            continue  # a module-level helper / import, not a local of the function
        if ident not in names:
            return ident
    return None



def rule_condspec(ctx, prop: str) -> RuleResult:
    """Accepting conditions must imply their specification (propositional check over the
    syntactic atoms of the condition, by truth table — no solver).  `accept` rows: the
    test of the branch that takes the shortcut must imply the spec.  `reject` rows: for
    `if T: raise`, NOT T (what gets through) must imply the spec.  Typical breakage: an
    `and` that became `or`, a dropped conjunct."""
    from ..boolform import atoms, implies, parse, to_form

    ix, adts = ctx.ix, ctx.adts
    res = RuleResult("CONDSPEC")
    S_ = "src/exo/rewrite/LoopIR_scheduling.py"
    TC_ = "src/exo/frontend/typecheck.py"
    # (props, file, function, mode, marker in the test, spec, why)
    table = [
        (("C05",), U, "Unification.unify_e", "accept", "inequality_ops",
         "{P1}.op == {P2}.op or ({P1}.op in inequality_ops and {P2}.op in inequality_ops)",
         "two comparisons are unified up to their operator although one is `==` and the other an inequality: `if i == m` becomes an instance of a callee guarded by `if i < bound`"),
        (("C01", "C04"), S_, "DoDivideWithRecompute", "accept", "outer_hi.op",
         "isinstance(outer_hi, LoopIR.BinOp) and outer_hi.op == '/' and isinstance(outer_hi.rhs, LoopIR.Const) and outer_hi.rhs.val == outer_stride",
         "the closed form `E - E % stride` is used for outer_hi = E / c without requiring c == stride: the legality check `outer_hi * stride <= hi` is then made on the wrong quantity and the rewritten loop runs past the buffer"),
        (("C01",), S_, "DoProductLoop", "reject", "is_const_zero",
         "is_const_zero(inner_loop.lo) and is_const_zero(outer_loop.lo)",
         "product_loop needs BOTH loops to start at 0 (i = k / inner_hi, j = k % inner_hi)"),
        (("C01",), S_, "DoProductLoop", "reject", "len(body)",
         "len(body) == 1 and isinstance(body[0]._node, LoopIR.For)",
         "the inner loop must be the only statement of the outer loop"),
        (("C01",), S_, "DoProductLoop", "reject", "inner_hi",
         "isinstance(inner_hi, LoopIR.Const)",
         "the inner bound must be a literal"),
        (("C03",), TC_, "TypeChecker.check_e", "reject", "LoopIR.Const",
         "rhs.type == T.int and isinstance(rhs, LoopIR.Const)",
         "the divisor of an index `/`/`%` must be an integer literal (the SMT encodings assert it)"),
        (("C12",), S_, "DoSimplify.map_s", "accept", "hi.val",
         "isinstance(hi, LoopIR.Const) and isinstance(lo, LoopIR.Const) and hi.val == lo.val",
         "a loop is deleted only when both bounds are literals and equal"),
        (("C01", "C04"), S_, "DoFissionAfterSimple.alloc_check", "reject", "post_FV",
         "nm not in post_FV",
         "fission must not hide an allocation from a later use"),
    ]
    PA_ = "src/exo/backend/prec_analysis.py"
    NE_ = "src/exo/rewrite/new_eff.py"
    # rows with explicit local names (checked modulo renaming of those locals); mode `cover`:
    # the guarded action (text `must`) has to happen whenever the spec holds (spec => test)
    table2 = [
        (("C15",), PA_, "PrecisionAnalysis.map_e", "cover", "is_numeric", "typ.is_numeric()", ("typ",), "get_type(",
         "the precision of every numeric read is re-derived from the declaration of the buffer it names; trusting the stored annotation "
         "lets a stale one through (a window alias of a buffer whose precision was changed): mixed-precision arithmetic and mistyped "
         "window arguments reach the C compiler"),
        # ---- raising guards of the scheduling primitives: what gets through must satisfy the side condition
        (("C01",), S_, "DoReorderStmt", "reject", "next()", "f_cursor.next() == s_cursor", ("f_cursor", "s_cursor"), None,
         "reorder_stmts swaps two ADJACENT statements; the commutation check is made on that pair only"),
        (("C01",), S_, "DoJoinLoops", "reject", "next()", "loop1_c.next() == loop2_c", ("loop1_c", "loop2_c"), None,
         "join_loops needs the second loop directly after the first"),
        (("C01",), S_, "DoJoinLoops", "reject", "match_stmts", "compare_ir.match_stmts(loop1.body, loop2.body)", ("compare_ir", "loop1", "loop2"), None,
         "join_loops keeps one body: both bodies must be identical"),
        (("C01",), S_, "DoMergeWrites", "reject", "same_write_dest", "same_write_dest(c1.get_root(), s1, s2)", ("c1", "s1", "s2"), None,
         "merge_writes drops the first write: both must write the same location"),
        (("C01",), S_, "DoSplitWrite", "reject", ".BinOp", "isinstance(s.rhs, LoopIR.BinOp) and s.rhs.op == '+'", ("s",), None,
         "split_write turns a = x + y into a = x; a += y: the right-hand side must be an addition"),
        (("C01",), S_, "DoFoldIntoReduce", "reject", ".BinOp", "isinstance(assign_s.rhs, LoopIR.BinOp) and assign_s.rhs.op == '+'", ("assign_s",), None,
         "fold_into_reduce turns a = a + y into a += y: the right-hand side must be an addition"),
        (("C01",), S_, "DoFoldIntoReduce", "reject", "access_to_str", "isinstance(assign_s.rhs.lhs, LoopIR.Read) and access_to_str(assign_s) == access_to_str(assign_s.rhs.lhs)", ("assign_s",), None,
         "fold_into_reduce: the left operand must be a read of exactly the destination"),
        (("C01",), S_, "DoInlineAssign", "reject", "writes", "s1.name not in [name for name, _ in writes]", ("s1",), None,
         "inline_assign substitutes the right-hand side at later reads: the buffer must not be written again"),
        (("C01",), S_, "DoDivideWithRecompute", "reject", "is_const_zero", "is_const_zero(loop.lo)", ("loop",), None,
         "divide_with_recompute computes indices as stride * io + ii: the loop must start at 0"),
        (("C01",), S_, "DoDivideLoop", "reject", "is_const_zero", "is_const_zero(loop.lo)", ("loop",), None,
         "divide_loop computes indices as quot * io + ii: the loop must start at 0"),
        (("C01",), S_, "DoUnroll", "reject", ".Const", "isinstance(s.hi, LoopIR.Const) and isinstance(s.lo, LoopIR.Const)", ("s",), None,
         "unroll_loop enumerates range(lo.val, hi.val): both bounds must be literals"),
        (("C01", "C10"), S_, "DoCallSwap", "reject", "is_eqv", "is_eqv", ("is_eqv",), None,
         "call_eqv may only swap in a procedure recorded as equivalent"),
        (("C01",), S_, "DoRemoveLoop", "reject", "_FV", "s.iter not in _FV(s.body)", ("s",), None,
         "remove_loop keeps one copy of the body: it must not mention the iterator"),
        (("C01", "C04"), S_, "DoSinkAlloc", "reject", "accesses", "alloc_stmt.name not in [name for name, _ in accesses]", ("alloc_stmt",), None,
         "sink_alloc moves the allocation into a scope: nothing after the scope may use the buffer"),
        (("C01",), S_, "DoFuseLoop", "reject", "next()", "f_cursor.next() == s_cursor", ("f_cursor", "s_cursor"), None,
         "fuse needs the second loop directly after the first"),
        (("C01",), S_, "DoFuseIf", "reject", "next()", "f_cursor.next() == s_cursor", ("f_cursor", "s_cursor"), None,
         "fuse needs the second if directly after the first"),
        (("C01",), S_, "DoInsertNoopCall", "reject", ".Pass", "len(body) == 1 and isinstance(body[0], LoopIR.Pass)", ("body",), None,
         "only a procedure whose body is `pass` may be inserted as a no-op"),
        (("C01", "C04"), S_, "DoLiftAllocSimple", "reject", "szvars", "stmt_c._node.iter not in szvars", ("stmt_c",), None,
         "an allocation whose size mentions a loop iterator cannot be lifted out of that loop (the size would be unbound)"),
        (("C01",), S_, "DoLiftScope", "reject", "len(outer_s.body)", "len(outer_s.body) <= 1", ("outer_s",), None,
         "lift_scope interchanges a scope with its parent: it must be the parent's only statement"),
        (("C01",), S_, "DoLiftScope", "reject", "len(outer_s.orelse)", "len(outer_s.orelse) <= 1", ("outer_s",), None,
         "lift_scope out of an else branch: the scope must be the branch's only statement"),
        (("C01",), S_, "DoLiftScope", "reject", "_FV", "outer_s.iter not in _FV(inner_s.cond)", ("outer_s", "inner_s"), None,
         "an if can be lifted out of a loop only when its condition does not mention the iterator"),
        (("C01",), S_, "DoLiftScope", "reject", "reads", "outer_s.iter not in [name for name, _ in reads]", ("outer_s",), None,
         "loops can be interchanged only when the inner bounds do not mention the outer iterator"),
        (("C01",), S_, "DoLiftConstant", "reject", "assign_s.type", "not (assign_s.name == name and assign_s.type == typ)", ("assign_s", "name", "typ"), None,
         "lift_constant: the accumulated buffer must not be read inside the loop"),
        (("C01",), S_, "DoLiftConstant", "reject", "only_has_scaled_reduces", "only_has_scaled_reduces", ("only_has_scaled_reduces",), None,
         "lift_constant: every operation on the buffer in the loop must be `buf += c * e`"),
        (("C01",), S_, "DoLiftConstant.find_relevant_scaled_reduces", "reject", "same_write_dest",
         "same_write_dest(orig_proc, assign_s, s) and isinstance(s.rhs, LoopIR.BinOp) and s.rhs.op == '*' and isinstance(s.rhs.lhs, (LoopIR.Const, LoopIR.Read))", ("s",), "flag",
         "lift_constant: a reduce counts as scaled only if it writes the same location and its right-hand side is c * e with c a literal or a read"),
        (("C01",), S_, "DoLiftConstant", "reject", "reduces_have_same_constant", "reduces_have_same_constant(relevant_reduces[0]._node, s._node)", ("s",), None,
         "lift_constant factors one constant out: all scaled reduces must use the same one"),
        (("C01",), S_, "DoLiftConstant", "reject", "live_vars", "name in live_vars", ("name",), None,
         "lift_constant: the factor must be defined outside the loop"),
        (("C01",), S_, "DoLiftConstant", "reject", "constant.type", "not (constant.name == name and constant.type == typ)", ("constant", "name", "typ"), None,
         "lift_constant: the factor must not be written inside the loop"),
        (("C01",), S_, "DoMultiplyDim", "reject", "lo_dim", "isinstance(lo_dim, LoopIR.Const)", ("lo_dim",), None,
         "mult_dim folds hi * c + lo: the low dimension must be a literal c"),
        (("C01",), S_, "DoSpecialize", "reject", "is_valid_condition", "is_valid_condition(cond)", ("cond",), None,
         "specialize duplicates the block under an index comparison only"),
        (("C01", "C04"), S_, "DoFissionLoops.alloc_check", "reject", "_is_alloc_free", "_is_alloc_free(pre, post)", ("pre", "post"), None,
         "autofission must not separate an allocation from its uses"),
        (("C01",), S_, "DoBindExpr", "reject", "len(expr_cursors)", "len(expr_cursors) <= 0", ("expr_cursors",), None,
         "bind_expr must have replaced every requested occurrence (those left over could not be bound safely)"),
        (("C01",), S_, "CheckFoldBuffer.update_access_window", "reject", ".lo is None", "not (bounds.lo is None or self.access_window_per_scope[-1].hi is None)", ("bounds",), None,
         "fold_buffer: variable-width access windows cannot be analysed and must be refused"),
        (("C01",), S_, "CheckFoldBuffer.update_access_window", "reject", "self.size", "bounds.lo > self.access_window_per_scope[-1].hi - self.size", ("bounds",), None,
         "fold_buffer: a statement may not reach back `size` or more elements before the largest earlier access (its slot has been overwritten modulo size)"),
        (("C01",), S_, "CheckFoldBuffer.do_s", "reject", "+ c", "bounds.lo + c > bounds.hi - self.size", ("bounds", "c"), None,
         "fold_buffer: iteration i+1 may not reach back `size` or more elements before the largest access of iteration i"),
        (("C01",), S_, "CheckFoldBuffer.do_s", "reject", "rhs_window_size", "not (rhs_window_size is None or rhs_window_size > self.size)", ("rhs_window_size",), None,
         "fold_buffer: the reads of one right-hand side must fit in `size` consecutive elements"),
        (("C01",), S_, "DoUnrollBuffer", "reject", "buf_size", "isinstance(buf_size, LoopIR.Const)", ("buf_size",), None,
         "unroll_buffer creates one scalar per index: the dimension must be a literal"),
        (("C01",), S_, "DoStageMem", "reject", "len(w_exprs)", "len(w_exprs) == len(buf_typ.shape())", ("w_exprs", "buf_typ"), None,
         "stage_mem: the window must give one coordinate per dimension of the buffer"),
        (("C02", "C19"), "src/exo/backend/LoopIR_compiler.py", "Compiler.__init__", "accept", "StrideExpr",
         "isinstance(pred, LoopIR.BinOp) and pred.op == '==' and isinstance(pred.lhs, LoopIR.StrideExpr) and isinstance(pred.rhs, LoopIR.Const)", ("pred",), None,
         "only an assertion `stride(A, d) == c` lets the compiler replace A.strides[d] by the constant c; with any other comparison (`stride(A, 0) >= 8`, as add_assertion may add) "
         "the generated C addresses every admissible input of larger stride wrongly"),
        (("C12", "C04"), S_, "DoSimplify.add_fact", "accept", "'/'", "isinstance(expr, LoopIR.BinOp) and expr.op == '/' and const.val == 0", ("expr", "const"), None,
         "inside `if X / M == c` the fact `X % M == X` holds only for c == 0; recorded for other c, simplify replaces `n % 8` by `n` under `if n / 8 == 1` and a tail loop runs out of bounds"),
        (("C10", "C01"), NE_, "stmts_effs", "accept", "LoopIR.Read", "fa.type.is_numeric() and isinstance(a, LoopIR.Read)", ("fa", "a"), "pass",
         "only a numeric buffer argument (passed by reference: the callee's own accesses are translated to it) may be skipped when the reads of a call are "
         "collected; a configuration field passed as an argument is a read of that field — without it delete_config/write_config/call_eqv consider the field unread"),
    ]
    n_rows = 0
    for props, file, qn, mode, marker, spec_src, locs, must, why in table2:
        if prop not in props:
            continue
        n_rows += 1
        f = ix.func(file, qn)
        res.analysed.append(f"{file}:{qn}")
        cands = [n for n in f.body_nodes() if isinstance(n, ast.If) and marker in ast.unparse(n.test)]
        if mode == "reject":
            if must != "flag":
                cands = [n for n in cands if always_raises(n.body) or any(isinstance(x, ast.Call) and last_name(x) in ("err", "err_handler") for st in n.body for x in ast.walk(st))]
            must = None
        strict = False
        if mode == "accept" and must == "pass":
            # the accepting branches are exactly those that skip (`pass`): each must imply the
            # spec, whether or not it still shares an atom with it
            cands = [n for n in cands if all(isinstance(st, ast.Pass) for st in n.body)]
            must = None
            strict = True
        if must is not None:
            cands = [n for n in cands if any(must in ast.unparse(st) for st in n.body)]
            if not cands:
                res.instances += 1
                present = any(must in ast.unparse(st) for st in f.node.body)
                res.ob(present)
                res.sample(f"{qn}: `{must}…` unconditional: {present}")
                if not present:
                    res.add(Finding("CONDSPEC", file, f.lineno, qn, marker, f"`{must}…)` is gone from {qn}: {why}"))
                continue
        elif not cands:
            _ren = _marker_anchor_renamed(f, marker)
            if _ren is not None:
                raise AnalysisError(f"CONDSPEC row {qn}/{marker}: the local `{_ren}` the row is anchored on no longer exists in {qn} (renamed?): re-confirm the row")
            res.instances += 1
            res.ob(False)
            res.add(Finding("CONDSPEC", file, f.lineno, qn, marker, f"no condition mentioning `{marker}` is left in {qn}: {why}"))
            continue
        spec_ast = ast.parse(spec_src, mode="eval").body
        fixed = {x.id for x in ast.walk(spec_ast) if isinstance(x, ast.Name)} - set(locs)
        row_instances = 0
        for n in cands + [None]:
            if n is None:
                if row_instances == 0:
                    raise AnalysisError(f"CONDSPEC row {qn}/{marker}: {len(cands)} condition(s) mention `{marker}` but none has the specified form `{spec_src[:60]}` (rewritten guard: re-confirm the row)")
                break
            names = sorted({x.id for x in ast.walk(n.test) if isinstance(x, ast.Name)} - fixed)
            best = None
            sp = to_form(ast.parse(spec_src, mode="eval").body)
            k_ = min(len(locs), len(names))
            ident = tuple(l for l in locs if l in names)
            perms = itertools.permutations(names, k_)
            if len(ident) == k_:
                # the code still uses the row's names: try that reading first (and stop there if it holds)
                perms = itertools.chain([ident], (q for q in itertools.permutations(names, k_) if q != ident))
            for perm in perms:
                if best is not None and best[0] and best[1] > 0:
                    break
                # express the test in the row's own local names (so that reports and
                # known-finding keys do not depend on how the code names its locals)
                inv = dict(zip(perm, locs))

                class Ren(ast.NodeTransformer):
                    def visit_Name(self, node):
                        return ast.copy_location(ast.Name(id=inv.get(node.id, node.id), ctx=node.ctx), node)

                import copy

                t_ast = Ren().visit(ast.parse(ast.unparse(n.test), mode="eval").body)
                test = to_form(t_ast)
                shared = len(atoms(sp) & atoms(test))
                if not shared and not strict:
                    continue
                if mode == "cover":
                    a, b = sp, test
                else:
                    a, b = (("not", test) if mode == "reject" else test), sp
                ok, cex = implies(a, b)
                cand = (ok, shared, cex, a, b)
                if best is None or (cand[0], cand[1]) > (best[0], best[1]):
                    best = cand
            if best is None:
                continue  # another test that merely mentions the marker
            ok, shared, cex, a, b = best
            row_instances += 1
            res.instances += 1
            res.nontrivial += 1
            res.ob(ok)
            rel = "is implied by" if mode == "cover" else "implies"
            res.sample(f"{qn}: `{ast.unparse(n.test)[:90]}` {rel} `{spec_src[:80]}`: {ok}")
            if not ok:
                from ..boolform import counterexamples
                import hashlib

                ways = sorted(",".join(f"{k}={v}" for k, v in sorted(e.items())) for e in counterexamples(a, b))
                sig = ";".join(ways)
                if len(sig) > 150:
                    sig = sig[:110] + "…#" + hashlib.sha1(sig.encode()).hexdigest()[:8]
                shown = ", ".join(f"{k}={v}" for k, v in sorted(cex.items()))
                res.add(Finding("CONDSPEC", file, n.lineno, qn, f"{marker}|{sig}", f"{why} (counter-assignment: {shown})"))
    for props, file, qn, mode, marker, spec_src, why in table:
        if prop not in props:
            continue
        n_rows += 1
        f = ix.func(file, qn)
        res.analysed.append(f"{file}:{qn}")
        ps = f.params()
        def rejects(body):
            return always_raises(body) or any(isinstance(x, ast.Call) and last_name(x) in ("err", "err_handler") for st in body for x in ast.walk(st))

        cands = [n for n in f.body_nodes() if isinstance(n, ast.If) and marker in ast.unparse(n.test) and (mode == "accept" or rejects(n.body))]
        if not cands:
            _ren = _marker_anchor_renamed(f, marker)
            if _ren is not None:
                raise AnalysisError(f"CONDSPEC row {qn}/{marker}: the local `{_ren}` the row is anchored on no longer exists in {qn} (renamed?): re-confirm the row")
            # the guard disappeared altogether
            res.instances += 1
            res.ob(False)
            res.add(Finding("CONDSPEC", file, f.lineno, qn, marker, f"no {'raising ' if mode == 'reject' else ''}condition mentioning `{marker}` is left in {qn}: {why}"))
            continue
        spec = spec_src
        if "{P1}" in spec:
            spec = spec.replace("{P1}", ps[1]).replace("{P2}", ps[2])
        sp = parse(spec)
        for n in cands:
            test = to_form(n.test)
            if not (atoms(sp) & atoms(test)):
                continue  # another test that merely mentions the marker
            res.instances += 1
            res.nontrivial += 1
            t = ("not", test) if mode == "reject" else test
            ok, cex = implies(t, sp)
            res.ob(ok)
            res.sample(f"{qn}: {'NOT ' if mode == 'reject' else ''}`{ast.unparse(n.test)[:90]}` implies `{spec[:80]}`: {ok}")
            if not ok:
                shown = ", ".join(f"{k}={v}" for k, v in sorted(cex.items()) if k in atoms(sp))
                res.add(Finding("CONDSPEC", file, n.lineno, qn, marker, f"{why} (gets through although: {shown})"))
    res.floor = n_rows
    return res


PAIR_SITES = [
    # (file, function, (callee-side subject, block-side subject))
    ("src/exo/rewrite/LoopIR_unification.py", "Unification.unify_stmts", ("ps", "bs")),
    ("src/exo/rewrite/LoopIR_unification.py", "Unification.unify_e", ("pe", "be")),
]


def rule_paircond(ctx, prop: str) -> RuleResult:
    """Unification of a constructor pairs the same field of the callee node and of the block node:
    `unify_e(ps.lo, bs.lo)`, `unify_stmts(ps.body, bs.body)`, `zip(pe.args, be.args)`.  Such a pairing
    may depend on the constructor dispatch only.  A pairing placed under any further condition — in
    particular one that looks at ONE side (`if ps.lo is not the literal 0: unify(ps.lo, bs.lo)`) — lets
    two nodes that differ in that field unify: a block loop seq(3, 16) becomes an instance of a
    callee loop seq(0, n)."""
    ix = ctx.ix
    res = RuleResult("PAIRCOND")
    n_pairs = 0
    for file, qn, (ps, bs) in PAIR_SITES:
        f = ix.func(file, qn)
        res.analysed.append(f"{file}:{qn}")
        bound = set(f.params()) | {k.id for k in f.body_nodes() if isinstance(k, ast.Name) and isinstance(k.ctx, ast.Store)}
        if ps not in bound or bs not in bound:
            raise AnalysisError(f"anchor vanished: {qn} no longer binds ({ps}, {bs})")

        def is_dispatch(t: ast.AST) -> bool:
            for k in ast.walk(t):
                if isinstance(k, ast.Call) and dotted(k.func) in ("isinstance", "type") and k.args and isinstance(k.args[0], ast.Name) and k.args[0].id in (ps, bs):
                    return True
            return False

        for n in f.body_nodes():
            if not (isinstance(n, ast.Call) and len(n.args) >= 2):
                continue
            a, b = n.args[0], n.args[1]
            if not (isinstance(a, ast.Attribute) and isinstance(b, ast.Attribute) and isinstance(a.value, ast.Name) and isinstance(b.value, ast.Name)):
                continue
            if a.attr != b.attr or (a.value.id, b.value.id) != (ps, bs):
                continue
            n_pairs += 1
            res.instances += 1
            res.nontrivial += 1
            extra = []
            p = n
            while p is not None and p is not f.node:
                q = parent(p)
                if isinstance(q, ast.If) and not is_dispatch(q.test):
                    in_body = any(p is s for s in q.body)
                    in_else = any(p is s for s in q.orelse)
                    if in_body or in_else:
                        names = {k.id for k in ast.walk(q.test) if isinstance(k, ast.Name)}
                        extra.append((q, names))
                p = q
            ok = not extra
            res.ob(ok)
            if not ok:
                q, names = extra[0]
                one_sided = (ps in names) != (bs in names)
                res.add(Finding("PAIRCOND", file, n.lineno, qn, f"cond:{a.attr}",
                                f"`{ast.unparse(n)[:60]}` is executed only under `{ast.unparse(q.test)[:70]}`"
                                + (f", a test of one side only" if one_sided else "")
                                + f": on the other path field `{a.attr}` of the callee node and of the block node are never related and nodes differing in it unify "
                                f"(a block loop seq(3, 16) is accepted as an instance of the callee loop seq(0, n))"))
        res.sample(f"{qn}: {n_pairs} field pairings so far, each governed by the constructor dispatch only")
    # a relation stated between a term and ITSELF states nothing: `unify_affine_e(pw.pt, pw.pt)` makes the
    # equation for a window's point coordinate `callee == callee`; the block's coordinate is never compared
    # and row 3 of a buffer unifies with the callee's row 0
    U_ = "src/exo/rewrite/LoopIR_unification.py"
    n_rel = 0
    for f in (g for g in ix.all_funcs() if g.file == U_):
        for n in f.body_nodes():
            if isinstance(n, ast.Call) and len(n.args) >= 2 and (last_name(n) or "").startswith(("unify", "match_", "is_exact", "add_eq")):
                n_rel += 1
                res.instances += 1
                a0, a1 = ast.unparse(n.args[0]), ast.unparse(n.args[1])
                ok = a0 != a1
                res.ob(ok)
                if not ok:
                    res.nontrivial += 1
                    res.add(Finding("PAIRCOND", U_, n.lineno, f.qualname, f"self:{ast.unparse(n)[:50]}",
                                    f"`{ast.unparse(n)[:70]}` relates `{a0}` to itself: the equation always holds and the corresponding part of the other operand is never compared "
                                    f"(a block window A[3, 0:8] unifies with the callee's x[0, 0:8])"))
    if n_rel < 20:
        raise AnalysisError(f"PAIRCOND: only {n_rel} binary unification calls found in LoopIR_unification.py — idiom changed, checker blind")
    if n_pairs < 14:
        raise AnalysisError(f"PAIRCOND: only {n_pairs} field pairings recognised in unify_stmts / unify_e — idiom changed, checker blind")
    res.floor = 14
    return res
