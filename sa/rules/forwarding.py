"""C06: FWDTHREAD — forwarding is the in-order composition of all edits (DESIGN §3.12).

Abstract interpretation with a small type system over *tree epochs*, expressed
relative to the current tree:
  epoch  ::= ORIG | age k   (k edits behind the current tree; 0 = current) | TOP
  Cursor(e), IR(e), Fwd(src -> dst), FwdId (identity, polymorphic)
The state also carries `orig_age` (how many edits separate the original tree from the
current one: 0, 1, 2, ... or MANY).  ORIG equals `age k` iff orig_age == k.
An edit on a cursor requires the cursor to be current; it ages every epoch by one
and yields IR(age 0) and Fwd(age 1 -> age 0).
"""
from __future__ import annotations

import ast
from typing import Dict, List, Optional, Set, Tuple

from .. import pat
from ..flow import Analysis, Engine
from ..index import AnalysisError, Func, dotted, last_name, norm_stmt, parent
from ..report import Finding, RuleResult

S = "src/exo/rewrite/LoopIR_scheduling.py"
U = "src/exo/rewrite/LoopIR_unification.py"

EDITS = {"_replace", "_insert", "_delete", "_move", "_wrap"}
HELPERS = {"_replace_reads", "_replace_writes", "_replace_pats"}  # (ir, fwd, c, ...) -> (ir, fwd)
NAV = {
    "body", "orelse", "parent", "next", "prev", "before", "after", "as_block", "expand", "anchor", "_child_node", "_child_block",
    "root", "get_index", "lo", "hi", "cond", "args", "idx", "rhs", "lhs", "arg", "stride_sym", "resolve_all", "is_ancestor_of",
}
MANY = "many"
TOP = ("top",)
LAG = ("lag",)  # join of different ages of something that must be current: possibly behind
ORIG = ("orig",)
MAXAGE = 4


def age(k):
    return ("age", k) if k <= MAXAGE else TOP


class T_:
    pass


def Cur(e):
    return ("cur", e)


def IRt(e):
    return ("ir", e)


def Fwd(a, b):
    return ("fwd", a, b)


FWDID = ("fwdid",)
UNK = ("unk",)


def shift_epoch(e):
    if e == ORIG or e == TOP or e == LAG:
        return e
    return age(e[1] + 1)


def shift_type(t):
    if t[0] == "cur":
        return Cur(shift_epoch(t[1]))
    if t[0] == "ir":
        return IRt(shift_epoch(t[1]))
    if t[0] == "fwd":
        return Fwd(shift_epoch(t[1]), shift_epoch(t[2]))
    if t[0] == "list":
        return ("list", shift_type(t[1]))
    return t


def unknownify(t):
    """After an unknown number of edits: anything measured in ages is lost."""
    if t[0] == "cur":
        return t if t[1] == ORIG else Cur(TOP)
    if t[0] == "ir":
        return IRt(TOP)
    if t[0] == "fwd":
        return Fwd(t[1] if t[1] == ORIG else TOP, TOP)
    if t[0] == "list":
        return ("list", unknownify(t[1]))
    return t


class State:
    def __init__(self):
        self.env: Dict[str, tuple] = {}
        self.orig_age = 0

    def copy(self):
        s = State()
        s.env = dict(self.env)
        s.orig_age = self.orig_age
        return s

    def same_epoch(self, a, b) -> Optional[bool]:
        """True / False / None (unknown)."""
        if a == TOP or b == TOP:
            return None
        if a == LAG or b == LAG:
            return False if (a == age(0) or b == age(0)) else None
        if a == b:
            return True
        if a == ORIG or b == ORIG:
            other = b if a == ORIG else a
            if self.orig_age == MANY:
                return None
            return other == age(self.orig_age)
        return False

    def is_current(self, e) -> Optional[bool]:
        return self.same_epoch(e, age(0))


class FwdFlow(Analysis):
    MAX_ITERS = 8

    def __init__(self, func: Func, entry: Dict[str, tuple], entry_orig_age, self_mode: bool, edit_methods: Set[str]):
        self.func = func
        self.entry = entry
        self.entry_orig_age = entry_orig_age
        self.self_mode = self_mode
        self.edit_methods = edit_methods
        self.problems: List[Tuple[ast.AST, str, str]] = []  # node, key, message
        self.edit_sites: Dict[int, Tuple[ast.AST, Optional[bool]]] = {}
        self.returns: List[Tuple[ast.AST, State]] = []

    # lattice
    def initial(self):
        st = State()
        st.env = dict(self.entry)
        st.orig_age = self.entry_orig_age
        return st

    def copy(self, st):
        return st.copy()

    def join(self, a, b):
        out = State()
        out.orig_age = a.orig_age if a.orig_age == b.orig_age else MANY
        for k in set(a.env) | set(b.env):
            ta, tb = a.env.get(k), b.env.get(k)
            if ta == tb:
                out.env[k] = ta
            elif ta is None or tb is None:
                out.env[k] = UNK
            else:
                out.env[k] = self._join_t(ta, tb, a, b)
        return out

    def _join_t(self, ta, tb, a: State, b: State):
        if ta[0] != tb[0]:
            if {ta[0], tb[0]} == {"fwd", "fwdid"}:
                # identity vs. a real forwarder: keep the forwarder if it is orig->current
                f = ta if ta[0] == "fwd" else tb
                return f
            return UNK
        if ta[0] == "cur":
            return Cur(ta[1] if ta[1] == tb[1] else TOP)
        def lag(x, y):
            if x == y:
                return x
            if x[0] == "age" and y[0] == "age":
                return LAG  # current on one path, behind on the other
            if LAG in (x, y) and TOP not in (x, y):
                return LAG
            return TOP

        if ta[0] == "ir":
            return IRt(lag(ta[1], tb[1]))
        if ta[0] == "fwd":
            return Fwd(ta[1] if ta[1] == tb[1] else TOP, lag(ta[2], tb[2]))
        if ta[0] == "list":
            return ("list", self._join_t(ta[1], tb[1], a, b))
        return ta

    def equal(self, a, b):
        return a.orig_age == b.orig_age and a.env == b.env

    # typing ------------------------------------------------------------
    def typ(self, e: ast.AST, st: State) -> tuple:
        if isinstance(e, ast.Name):
            return st.env.get(e.id, UNK)
        if isinstance(e, ast.Attribute):
            d = dotted(e)
            if d and d in st.env:
                return st.env[d]
            base = self.typ(e.value, st)
            if base[0] == "cur" and e.attr in ("_node", "_root", "_path"):
                return UNK
            return UNK
        if isinstance(e, ast.Lambda):
            if isinstance(e.body, ast.Name) and len(e.args.args) == 1 and e.body.id == e.args.args[0].arg:
                return FWDID
            return UNK
        if isinstance(e, ast.Subscript):
            base = self.typ(e.value, st)
            if base[0] == "cur":
                return base
            if base[0] == "list":
                return base if isinstance(e.slice, ast.Slice) else base[1]
            return UNK
        if isinstance(e, (ast.List, ast.Tuple)):
            ts = [self.typ(x, st) for x in e.elts]
            if ts and all(t == ts[0] for t in ts) and ts[0][0] == "cur":
                return ("list", ts[0])
            return UNK
        if isinstance(e, ast.ListComp):
            return UNK
        if isinstance(e, ast.IfExp):
            a, b = self.typ(e.body, st), self.typ(e.orelse, st)
            return a if a == b else UNK
        if isinstance(e, ast.Call):
            return self.typ_call(e, st)
        return UNK

    def typ_call(self, c: ast.Call, st: State) -> tuple:
        f = c.func
        ln = last_name(c)
        # application of a forwarder:  fwd(x)
        ft = self.typ(f, st)
        if ft[0] in ("fwd", "fwdid") and len(c.args) == 1:
            at = self.typ(c.args[0], st)
            elem = at[1] if at[0] == "list" else at
            if ft[0] == "fwdid":
                return at
            if elem[0] == "cur":
                same = st.same_epoch(elem[1], ft[1])
                if same is False:
                    self.problems.append((c, "fwd-wrong-epoch", f"forwarder `{ast.unparse(f)}` maps cursors of one tree but is applied to `{ast.unparse(c.args[0])}`, a cursor of a different tree (already forwarded, or taken before earlier edits)"))
                res = Cur(ft[2])
                return ("list", res) if at[0] == "list" else res
            return Cur(ft[2]) if at == UNK else UNK
        if ln == "_compose" and len(c.args) == 2:
            tf, tg = self.typ(c.args[0], st), self.typ(c.args[1], st)
            if tf[0] == "fwdid":
                return tg
            if tg[0] == "fwdid":
                return tf
            if tf[0] == "fwd" and tg[0] == "fwd":
                same = st.same_epoch(tg[2], tf[1])
                if same is False:
                    # maybe the arguments are swapped
                    sw = st.same_epoch(tf[2], tg[1])
                    self.problems.append(
                        (c, "compose-order" if sw else "compose-mismatch",
                         f"_compose({ast.unparse(c.args[0])}, {ast.unparse(c.args[1])}): the second function must produce cursors of the tree the first one consumes"
                         + (" — the arguments are in the wrong order (newest edit must come first)" if sw else " — an intermediate edit's forwarder is missing from the chain"))
                    )
                    return Fwd(tg[1], TOP)
                return Fwd(tg[1], tf[2])
            return UNK
        if ln == "get_root" and isinstance(f, ast.Attribute):
            bt = self.typ(f.value, st)
            if bt[0] == "cur":
                return IRt(bt[1])
            return UNK
        if ln in ("get_rest_of_block", "get_enclosing_stmt_cursor", "match_parent", "move_back") and c.args:
            at = self.typ(c.args[0], st)
            if at[0] == "cur":
                return ("list", at) if ln == "get_rest_of_block" else at
            return UNK
        if ln == "match_pattern" and c.args:
            at = self.typ(c.args[0], st)
            if at[0] == "cur":
                return ("list", at)
            return UNK
        if dotted(f) in ("ic.Cursor.create", "Cursor.create") and c.args:
            at = self.typ(c.args[0], st)
            if at[0] == "ir":
                return Cur(at[1])
            return UNK
        if isinstance(f, ast.Attribute) and f.attr in NAV:
            bt = self.typ(f.value, st)
            if bt[0] in ("cur", "list"):
                return bt
        if dotted(f) in ("list", "reversed", "sorted", "tuple") and c.args:
            at = self.typ(c.args[0], st)
            if at[0] == "list":
                return at
        return UNK

    # edits -------------------------------------------------------------
    def _do_edit(self, call: ast.Call, st: State) -> Tuple[tuple, tuple]:
        """Perform an elementary edit; returns (ir type, fwd type) and ages the state."""
        recv = call.func.value
        rt = self.typ(recv, st)
        cur = None
        if rt[0] == "cur":
            cur = st.is_current(rt[1])
            if cur is False:
                self.problems.append(
                    (call, "stale-edit",
                     f"`{ast.unparse(recv)}`.{call.func.attr}(...) edits a cursor that does not point into the current tree (it was obtained before an earlier edit and not "
                     f"forwarded): the result is built from an old tree, silently discarding the edits made since")
                )
        self.edit_sites[id(call)] = (call, cur)
        # also type arguments (e.g. _move(fwd(c).before()))
        for a in call.args:
            at = self.typ(a, st)
            if at[0] == "cur" and st.is_current(at[1]) is False:
                self.problems.append((call, "stale-arg", f"`{ast.unparse(a)}` passed to {call.func.attr} does not point into the current tree"))
        self._age(st)
        return IRt(age(0)), Fwd(age(1), age(0))

    def _age(self, st: State):
        st.env = {k: shift_type(v) for k, v in st.env.items()}
        st.orig_age = MANY if st.orig_age == MANY else (st.orig_age + 1 if st.orig_age + 1 <= MAXAGE else MANY)

    def _unknown_edits(self, st: State):
        keep = {}
        for k, v in st.env.items():
            if self.self_mode and k in ("self.fwd", "self.ir"):
                keep[k] = v  # invariant of the rewriter object across its own hooks
            else:
                keep[k] = unknownify(v)
        st.env = keep
        st.orig_age = MANY

    def _value(self, v: ast.AST, st: State) -> Optional[tuple]:
        """Evaluate an expression that may perform edits.  Returns a type or a tuple
        ('pair', ir_t, fwd_t) for edit results."""
        if isinstance(v, ast.Call):
            ln = last_name(v)
            if isinstance(v.func, ast.Attribute) and ln in EDITS:
                # arguments / receiver may contain nested forwarder applications
                for n in ast.walk(v.func.value):
                    pass
                irt, ft = self._do_edit(v, st)
                return ("pair", irt, ft)
            if ln in HELPERS and len(v.args) >= 3:
                tir, tf, tc = (self.typ(a, st) for a in v.args[:3])
                if tf[0] == "fwd":
                    if st.is_current(tf[2]) is False:
                        self.problems.append((v, "helper-stale-fwd", f"{ln}: the forwarder `{ast.unparse(v.args[1])}` does not lead to the current tree (a preceding edit's forwarder was not composed into it)"))
                    celem = tc[1] if tc[0] == "list" else tc
                    if celem[0] == "cur" and st.same_epoch(celem[1], tf[1]) is False:
                        self.problems.append((v, "helper-cursor-epoch", f"{ln}: cursor `{ast.unparse(v.args[2])}` is not in the tree `{ast.unparse(v.args[1])}` forwards from"))
                if tir[0] == "ir" and st.is_current(tir[1]) is False:
                    self.problems.append((v, "helper-stale-ir", f"{ln}: `{ast.unparse(v.args[0])}` is not the current tree"))
                src = tf[1] if tf[0] == "fwd" else (age(0) if tf[0] == "fwdid" else TOP)
                if tf[0] == "fwdid":
                    src = age(0)
                self.edit_sites[id(v)] = (v, True if tf[0] in ("fwd", "fwdid") else None)
                self._age(st)
                src = shift_epoch(src)
                return ("pair", IRt(age(0)), Fwd(src, age(0)))
            if ln == "_replace_helper" and v.args:
                tc = self.typ(v.args[0], st)
                if tc[0] == "cur" and st.is_current(tc[1]) is False:
                    self.problems.append((v, "stale-edit", f"_replace_helper on `{ast.unparse(v.args[0])}`, a cursor that is not current"))
                self.edit_sites[id(v)] = (v, st.is_current(tc[1]) if tc[0] == "cur" else None)
                self._age(st)
                return ("pair", IRt(age(0)), Fwd(age(1), age(0)))
            # calls that may edit through the rewriter object
            if isinstance(v.func, ast.Attribute) and isinstance(v.func.value, ast.Name) and v.func.value.id == "self" and ln in self.edit_methods:
                self._unknown_edits(st)
                return UNK
            if isinstance(v.func, ast.Call) and dotted(v.func.func) == "super":
                if ln in self.edit_methods:
                    self._unknown_edits(st)
                return UNK
        return None

    def stmt(self, node, st: State):
        st = st.copy()
        if isinstance(node, (ast.FunctionDef, ast.ClassDef)):
            return st
        if isinstance(node, ast.Assign):
            val = self._value(node.value, st)
            tgt = node.targets[0]
            if val is not None and val != UNK and val[0] == "pair":
                if isinstance(tgt, ast.Tuple) and len(tgt.elts) == 2:
                    a, b = tgt.elts
                    self._bind(a, val[1], st)
                    if isinstance(b, ast.Name) and b.id == "_":
                        self.problems.append((node, "fwd-discarded", "the forwarding function of this edit is thrown away (`_`): cursors can no longer be carried across it"))
                    self._bind(b, val[2], st)
                else:
                    self._bind(tgt, UNK, st)
                return st
            if val is None:
                # expression may still contain edits nested in a call chain
                self._scan_nested_edits(node.value, st)
                if isinstance(node.value, ast.Tuple) and isinstance(tgt, ast.Tuple) and len(tgt.elts) == len(node.value.elts):
                    for t, v in zip(tgt.elts, node.value.elts):
                        self._bind(t, self.typ(v, st), st)
                else:
                    self._bind(tgt, self.typ(node.value, st), st)
                return st
            self._bind(tgt, UNK, st)
            return st
        if isinstance(node, ast.Return):
            if node.value is not None:
                val = self._value(node.value, st)
                if val is not None and val != UNK and val[0] == "pair":
                    rs = st.copy()
                    rs.env["$ret_ir"], rs.env["$ret_fwd"] = val[1], val[2]
                    self.returns.append((node, rs))
                    return st
                self._scan_nested_edits(node.value, st)
                rs = st.copy()
                if isinstance(node.value, ast.Tuple) and len(node.value.elts) >= 2:
                    rs.env["$ret_ir"] = self.typ(node.value.elts[0], rs)
                    rs.env["$ret_fwd"] = self.typ(node.value.elts[1], rs)
                self.returns.append((node, rs))
            else:
                self.returns.append((node, st.copy()))
            return st
        if isinstance(node, ast.Expr):
            val = self._value(node.value, st)
            if val is not None and val != UNK and val[0] == "pair":
                self.problems.append((node, "fwd-discarded", "the result of an edit (tree and forwarder) is dropped"))
            elif val is None:
                self._scan_nested_edits(node.value, st)
            return st
        if isinstance(node, ast.AugAssign):
            return st
        self._scan_nested_edits(node, st)
        return st

    def _scan_nested_edits(self, node: ast.AST, st: State):
        # type every forwarder application / compose so that problems inside larger
        # expressions are reported, and account for edits hidden in sub-expressions
        for n in ast.walk(node):
            if isinstance(n, (ast.FunctionDef, ast.Lambda)):
                continue
            if isinstance(n, ast.Call):
                ln = last_name(n)
                if isinstance(n.func, ast.Attribute) and ln in EDITS and id(n) not in self.edit_sites:
                    self._do_edit(n, st)
                elif ln == "_compose" or self.typ(n.func, st)[0] in ("fwd",):
                    self.typ_call(n, st)
                elif isinstance(n.func, ast.Attribute) and isinstance(n.func.value, ast.Name) and n.func.value.id == "self" and ln in self.edit_methods:
                    self._unknown_edits(st)

    def _bind(self, tgt, t, st: State):
        if isinstance(tgt, ast.Name):
            st.env[tgt.id] = t
        elif isinstance(tgt, ast.Attribute):
            d = dotted(tgt)
            if d:
                st.env[d] = t
        elif isinstance(tgt, (ast.Tuple, ast.List)):
            for e in tgt.elts:
                self._bind(e, UNK, st)

    def test(self, expr, st: State):
        st = st.copy()
        self._scan_nested_edits(expr, st)
        for n in ast.walk(expr):
            if isinstance(n, ast.NamedExpr) and isinstance(n.target, ast.Name):
                st.env[n.target.id] = self.typ(n.value, st)
        return st

    def bind(self, target, source, st: State, kind):
        st = st.copy()
        if kind == "for" and source is not None:
            t = self.typ(source, st)
            el = t[1] if t[0] == "list" else (t if t[0] == "cur" else UNK)
            if isinstance(target, ast.Name):
                st.env[target.id] = el
            else:
                self._bind(target, UNK, st)
        return st

    def on_exit(self, kind, node, st):
        if kind == "fall":
            self.returns.append((node, st.copy()))


def _edit_methods(ix) -> Set[str]:
    """Names of rewriter-object methods that (transitively) perform edits."""
    m = ix.module(S)
    names: Set[str] = {"map_s", "map_stmts", "apply_s", "apply_stmts", "map_e", "map_exprs", "apply_e", "apply_exprs", "map_t", "apply_t"}
    return names


CURSOR_USES = EDITS | {"_node", "get_root", "parent", "next", "prev", "before", "after", "as_block", "_child_node", "_child_block", "expand", "anchor", "root"}


def _cursor_params(f: Func) -> Set[str]:
    """Parameters that are used as cursors somewhere in the function."""
    ps = set(f.params())
    out: Set[str] = set()
    for n in f.all_nodes():
        if isinstance(n, ast.Attribute) and isinstance(n.value, ast.Name) and n.value.id in ps and n.attr in CURSOR_USES:
            out.add(n.value.id)
        if isinstance(n, ast.Call) and len(n.args) == 1 and isinstance(n.args[0], ast.Name) and n.args[0].id in ps:
            ln = last_name(n)
            if ln and ("fwd" in ln.lower() or ln in ("get_rest_of_block", "get_enclosing_stmt_cursor")):
                out.add(n.args[0].id)
        if isinstance(n, ast.For) and isinstance(n.iter, ast.Name) and n.iter.id in ps:
            # for c in cursors: c._node ...
            tv = n.target.id if isinstance(n.target, ast.Name) else None
            if tv and any(isinstance(x, ast.Attribute) and isinstance(x.value, ast.Name) and x.value.id == tv and x.attr in CURSOR_USES for x in ast.walk(n)):
                out.add(n.iter.id)
    return out


def _analyse(ix, f: Func, self_mode: bool):
    params = f.params()
    entry: Dict[str, tuple] = {}
    if self_mode:
        entry["self.fwd"] = Fwd(ORIG, age(0))
        entry["self.ir"] = IRt(age(0))
        for p in params[1:]:
            entry[p] = Cur(ORIG)
        oa = MANY
    else:
        cursorish = _cursor_params(f)
        for p in params:
            entry[p] = Cur(ORIG) if p in cursorish else UNK
        oa = 0
    an = FwdFlow(f, entry, oa, self_mode, _edit_methods(ix))
    Engine(an).run(f.node)
    return an


def rule_fwdthread(ctx, prop: str) -> RuleResult:
    ix = ctx.ix
    res = RuleResult("FWDTHREAD")
    m = ix.module(S)
    um = ix.module(U)
    targets: List[Tuple[Func, bool]] = []
    for f in list(m.funcs.values()) + [um.func("DoReplace")]:
        if not isinstance(f.node, ast.FunctionDef):
            continue
        has_edit = any(isinstance(n, ast.Call) and isinstance(n.func, ast.Attribute) and (n.func.attr in EDITS) for n in f.body_nodes()) or any(
            isinstance(n, ast.Call) and last_name(n) in HELPERS for n in f.body_nodes()
        )
        if not has_edit:
            continue
        if f.name in HELPERS or f.name == "_replace_helper":
            continue  # checked by FWDHELPERS patterns
        self_mode = bool(f.cls) and f.params()[:1] == ["self"] and any(
            isinstance(n, ast.Attribute) and dotted(n) in ("self.fwd", "self.ir") for n in f.body_nodes()
        )
        if f.cls and not self_mode and f.params()[:1] == ["self"]:
            continue  # legacy rewriters (no forwarding at all): FWDPRESENT lists them
        if f.outer is not None and not self_mode:
            # nested helper closures share the enclosing function's state; they are
            # callbacks (mk_read, ...) and perform no edits themselves
            continue
        targets.append((f, self_mode))
    n_sites = n_typed = 0
    for f, self_mode in targets:
        an = _analyse(ix, f, self_mode)
        res.analysed.append(f"{f.file}:{f.qualname}")
        res.nontrivial += 1
        for call, cur in an.edit_sites.values():
            n_sites += 1
            res.instances += 1
            if cur is not None:
                n_typed += 1
        seen = set()
        probs = list(an.problems)
        # return obligations
        for node, st in an.returns:
            if self_mode:
                tf, ti = st.env.get("self.fwd", UNK), st.env.get("self.ir", UNK)
                if tf[0] == "fwd" and (st.same_epoch(tf[1], ORIG) is False or st.is_current(tf[2]) is False):
                    probs.append((node, "self.fwd-behind", "on this exit `self.fwd` no longer maps original cursors to the current tree: an edit's forwarder was not composed into it"))
                if ti[0] == "ir" and st.is_current(ti[1]) is False:
                    probs.append((node, "self.ir-behind", "on this exit `self.ir` is not the tree produced by the last edit"))
            else:
                ti, tf = st.env.get("$ret_ir"), st.env.get("$ret_fwd")
                if ti is not None and ti[0] == "ir" and st.is_current(ti[1]) is False:
                    probs.append((node, "return-stale-ir", "the returned tree is not the one produced by the last edit"))
                if tf is not None and tf[0] == "fwd":
                    if st.same_epoch(tf[1], ORIG) is False:
                        probs.append((node, "return-fwd-src", "the returned forwarder does not start from the original procedure: the forwarders of the first edit(s) are missing from the composition"))
                    if st.is_current(tf[2]) is False:
                        probs.append((node, "return-fwd-dst", "the returned forwarder does not reach the final tree: the forwarder of the last edit(s) was not composed in"))
                if tf is not None and tf[0] == "fwdid" and st.orig_age not in (0,):
                    probs.append((node, "return-identity", "edits were made but the identity is returned as forwarder"))
        for node, key, msg in probs:
            k = (getattr(node, "lineno", 0), key)
            if k in seen:
                continue
            seen.add(k)
            res.ob(False)
            res.add(Finding("FWDTHREAD", f.file, getattr(node, "lineno", f.lineno), f.qualname, f"{key}:{norm_stmt(node)[:70]}", msg))
        res.obligations += len(an.edit_sites) + len(an.returns)
        res.discharged += len(an.edit_sites) + len(an.returns)
    res.notes.append(f"{len(targets)} editing functions, {n_sites} edit sites, receiver epoch decided for {n_typed}")
    res.sample(f"{n_typed}/{n_sites} edit receivers typed (current/stale decided); the rest are TOP (no verdict)")
    for f, sm in targets[:5]:
        res.sample(f"analysed {f.qualname} ({'rewriter object' if sm else 'function'})")
    res.floor = 100
    if n_sites and n_typed * 100 < n_sites * 55:
        raise AnalysisError(f"FWDTHREAD: only {n_typed}/{n_sites} edit receivers could be typed — idioms changed, checker blind")
    return res


def rule_fwdhelpers(ctx, prop: str) -> RuleResult:
    """The three multi-edit helpers have one shape: forward the cursor, collect matches,
    then for each match forward it by the local accumulator, edit, compose the edit's
    forwarder into the accumulator, and finally compose the accumulator with the
    incoming forwarder."""
    ix = ctx.ix
    res = RuleResult("FWDHELPERS")
    m = ix.module(S)
    for name in sorted(HELPERS):
        f = m.func(name)
        res.analysed.append(f"{S}:{name}")
        res.instances += 1
        res.nontrivial += 1
        ps = f.params()
        ok1 = pat.has(f"{ps[2]} = {ps[1]}({ps[2]})", f.node)
        loop = pat.find("for _M_x, _M_r in _M_todo:\n    _M_x = _M_acc(_M_x)\n    _M_ir, _M_f = _replace_helper(_M_x, _M_r, _M__)\n    _M_acc = _compose(_M_f, _M_acc)", f.node)
        ok2 = loop is not None
        ok3 = False
        ok4 = False
        if loop is not None:
            b = loop[1]
            acc = ast.unparse(b["_M_acc"])
            ok3 = pat.has(f"return (_M_ir, _compose({acc}, {ps[1]}))", f.node, {"_M_ir": b["_M_ir"]})
            ok4 = pat.has(f"{acc} = lambda x: x", f.node) or any(isinstance(n, ast.Assign) and ast.unparse(n.targets[0]) == acc and isinstance(n.value, ast.Lambda) for n in f.body_nodes())
        for key, ok, why in (
            ("forward-in", ok1, "the cursor handed in must first be forwarded to the current tree"),
            ("loop", ok2, "each match must be forwarded by the local accumulator, edited, and the edit's forwarder composed (newest first) into the accumulator"),
            ("compose-out", ok3, "the result forwarder must be _compose(local accumulator, incoming forwarder)"),
            ("acc-init", ok4, "the local accumulator must start as the identity"),
        ):
            res.ob(ok)
            if not ok:
                res.add(Finding("FWDHELPERS", S, f.lineno, name, key, f"{name}: {why}"))
        res.sample(f"{name}: forward-in={ok1} loop={ok2} compose-out={ok3} acc-init={ok4}")
    # _replace_helper
    f = m.func("_replace_helper")
    res.instances += 1
    res.nontrivial += 1
    lp = pat.find("for _M_a in _M_keys:\n    _M__\n    _M_acc = _compose(_M_f, _M_acc)", f.node)
    ok = lp is not None
    if ok:
        acc = ast.unparse(lp[1]["_M_acc"])
        n_ed = sum(1 for n in ast.walk(lp[0]) if isinstance(n, ast.Call) and isinstance(n.func, ast.Attribute) and n.func.attr == "_replace" and acc + "(" in ast.unparse(n.func.value))
        ok = n_ed >= 2 and pat.has(f"return (_M_ir, {acc})", f.node)
    res.ob(ok)
    if not ok:
        res.add(Finding("FWDHELPERS", S, f.lineno, "_replace_helper", "attr-loop", "_replace_helper: every attribute replacement must act on the cursor forwarded by the accumulator and compose its forwarder into it"))
    cp = m.func("_compose")
    res.instances += 1
    mm = pat.find("return lambda _M_x: _M_f(_M_g(_M_x))", cp.node)
    ok = mm is not None and cp.params() == [ast.unparse(mm[1]["_M_f"]), ast.unparse(mm[1]["_M_g"])]
    res.ob(ok)
    if not ok:
        res.add(Finding("FWDHELPERS", S, cp.lineno, "_compose", "f(g(x))", "_compose(f, g) must be x -> f(g(x))"))
    res.floor = 5
    return res


IC = "src/exo/core/internal_cursors.py"


def _idx_components(e: ast.AST):
    """Yield (base_text, node) for expressions of the form  <base>[1]  (index component
    of a path element) — <base> is e.g. `cur_path[block_n]`, `bs`."""
    for n in ast.walk(e):
        if isinstance(n, ast.Subscript) and isinstance(n.slice, ast.Constant) and n.slice.value == 1:
            yield ast.unparse(n.value), n


def _attr_checked(base: str, node: ast.AST, func_node: ast.AST) -> bool:
    """Is there an equality test on `<base>[0]` that governs `node`?  (same `and`
    chain, an enclosing if/while test, or an earlier early-exit `if <base>[0] != ..`)"""
    want = f"{base}[0]"

    def has_eq(t: ast.AST) -> bool:
        for c in ast.walk(t):
            if isinstance(c, ast.Compare) and len(c.ops) == 1 and isinstance(c.ops[0], (ast.Eq, ast.NotEq)):
                if want in (ast.unparse(c.left), ast.unparse(c.comparators[0])):
                    return True
        return False

    p = node
    while p is not None and p is not func_node:
        par = parent(p)
        if isinstance(par, ast.BoolOp) and isinstance(par.op, ast.And) and has_eq(par):
            return True
        if isinstance(par, (ast.If, ast.While)) and has_eq(par.test) and p is not par.test:
            return True
        if isinstance(par, ast.If) and p is par.test and has_eq(par.test):
            return True
        # earlier sibling early exit
        for fld in ("body", "orelse"):
            blk = getattr(par, fld, None)
            if isinstance(blk, list) and p in blk:
                for s in blk[: blk.index(p)]:
                    if isinstance(s, ast.If) and has_eq(s.test) and any(isinstance(x, (ast.Return, ast.Continue, ast.Break, ast.Raise)) for x in s.body):
                        return True
        p = par
    return False


def rule_pathidx(ctx, prop: str) -> RuleResult:
    """Positions inside the elementary forwarders: two child indices may only be
    ordered against each other when they are indices into the *same* child block, i.e.
    the attribute components of the two path elements were compared for equality.
    (body[2] and orelse[2] are unrelated.)  This is the one structural necessary
    condition of the forwarders' index arithmetic; the arithmetic itself is not decided."""
    ix = ctx.ix
    res = RuleResult("PATHIDX")
    m = ix.module(IC)
    n_sites = 0
    for f in m.funcs.values():
        if not isinstance(f.node, ast.FunctionDef):
            continue
        # tuple-unpacked path elements:  a, i = path[k]   /  for (a, i), (b, j) in zip(p, q)
        pairs: Dict[str, str] = {}  # index var -> attr var
        for n in f.body_nodes():
            tgts = []
            if isinstance(n, ast.Assign) and isinstance(n.targets[0], ast.Tuple):
                tgts = [n.targets[0]]
            if isinstance(n, ast.For):
                tgts = [t for t in ast.walk(n.target) if isinstance(t, ast.Tuple)]
            for t in tgts:
                if len(t.elts) == 2 and all(isinstance(e, ast.Name) for e in t.elts) and "attr" in t.elts[0].id:
                    pairs[t.elts[1].id] = t.elts[0].id
        for n in f.body_nodes():
            if not (isinstance(n, ast.Compare) and len(n.ops) == 1 and isinstance(n.ops[0], (ast.Lt, ast.LtE, ast.Gt, ast.GtE))):
                continue
            sides = [n.left, n.comparators[0]]
            comps = [c for s in sides for c in _idx_components(s)]
            names = [s.id for s in sides if isinstance(s, ast.Name) and s.id in pairs]
            if len(comps) >= 1 and any(True for _ in comps):
                # at least one side is an index component of a path element
                for base, node in comps:
                    if base.endswith("_rng") or ".range" in base or "_range" in base:
                        continue
                    n_sites += 1
                    res.instances += 1
                    res.nontrivial += 1
                    res.analysed.append(f"{IC}:{f.qualname}")
                    ok = _attr_checked(base, n, f.node)
                    res.ob(ok)
                    res.sample(f"{f.qualname}: `{ast.unparse(n)}` — attribute of `{base}` compared for equality: {ok}")
                    if not ok:
                        res.add(
                            Finding("PATHIDX", IC, n.lineno, f.qualname, f"{base}[1]",
                                    f"`{ast.unparse(n)}` orders the child index `{base}[1]` without any governing test that `{base}[0]` (which child block: body / orelse / idx ...) is the same: "
                                    f"cursors in a sibling block (e.g. the else branch) are shifted as if they were in the edited block and forward to a different statement")
                        )
            elif len(names) == 2:
                n_sites += 1
                res.instances += 1
                res.nontrivial += 1
                a1, a2 = pairs[names[0]], pairs[names[1]]
                ok = False
                for k in f.body_nodes():
                    if isinstance(k, (ast.If, ast.Assert)) and k.lineno < n.lineno and isinstance(k.test, ast.Compare) and isinstance(k.test.ops[0], (ast.NotEq, ast.Eq)):
                        if {ast.unparse(k.test.left), ast.unparse(k.test.comparators[0])} == {a1, a2}:
                            ok = True
                res.ob(ok)
                res.sample(f"{f.qualname}: `{ast.unparse(n)}` governed by a test of `{a1}` vs `{a2}`: {ok}")
                if not ok:
                    res.add(Finding("PATHIDX", IC, n.lineno, f.qualname, f"{names[0]}<>{names[1]}", f"`{ast.unparse(n)}` orders indices of two path elements whose attributes `{a1}`/`{a2}` were not compared"))
    # _local_forward: the sibling index is only remapped after attr equality
    lf = m.func("Cursor._local_forward.forward")
    res.instances += 1
    res.nontrivial += 1
    ok = False
    for n in lf.body_nodes():
        if isinstance(n, ast.If) and isinstance(n.test, ast.UnaryOp) and isinstance(n.test.op, ast.Not):
            t = n.test.operand
            if isinstance(t, ast.BoolOp) and isinstance(t.op, ast.And):
                txt = [ast.unparse(v) for v in t.values]
                if any(v.startswith("_starts_with(") for v in txt) and any("attr" in v and "==" in v for v in txt) and any(isinstance(x, ast.Return) for x in n.body):
                    ok = True
    res.ob(ok)
    if not ok:
        res.add(Finding("PATHIDX", IC, lf.lineno, lf.qualname, "prefix+attr", "_local_forward must leave alone every cursor that is not below the edited block: path prefix AND block attribute must both match"))
    # _local_forward: fwd_node / fwd_block (which shift positions of ONE child block) are only applied
    # to cursors established to be in that block: same parent path AND same block attribute
    from ..boolform import atoms as bf_atoms, implies as bf_implies, to_form
    from ..flow import always_exits

    # boolean locals assigned once from a test are expanded:  same = a == b;  if same: ...
    defs: Dict[str, List[ast.AST]] = {}
    for n in lf.body_nodes():
        if isinstance(n, ast.Assign) and len(n.targets) == 1 and isinstance(n.targets[0], ast.Name):
            defs.setdefault(n.targets[0].id, []).append(n.value)

    class _Expand(ast.NodeTransformer):
        def visit_Name(self, node):
            vs = defs.get(node.id, [])
            if len(vs) == 1 and isinstance(vs[0], (ast.Compare, ast.BoolOp)):
                return vs[0]
            return node

    _tf = to_form

    def to_form(t):  # noqa: F811
        import copy

        return _tf(_Expand().visit(ast.parse(ast.unparse(t), mode="eval").body))

    def governing(call: ast.AST) -> tuple:
        conj = []
        x, p = call, parent(call)
        while p is not None and p is not lf.node:
            if isinstance(p, ast.If):
                if any(x is st for st in p.body):
                    conj.append(to_form(p.test))
                elif any(x is st for st in p.orelse):
                    conj.append(("not", to_form(p.test)))
            for fld in ("body", "orelse"):
                blk = getattr(p, fld, None)
                if isinstance(blk, list) and any(x is st for st in blk):
                    for st in blk:
                        if st is x:
                            break
                        if isinstance(st, ast.If) and always_exits(st.body) and not st.orelse:
                            conj.append(("not", to_form(st.test)))
            x, p = p, parent(p)
        # statements of the function body before the enclosing top-level statement
        for st in lf.node.body:
            if st is x:
                break
            if isinstance(st, ast.If) and always_exits(st.body) and not st.orelse:
                conj.append(("not", to_form(st.test)))
        return ("and", conj)

    n_apps = 0
    for n in lf.body_nodes():
        if isinstance(n, ast.Call) and isinstance(n.func, ast.Name) and n.func.id in ("fwd_node", "fwd_block"):
            n_apps += 1
            res.instances += 1
            res.nontrivial += 1
            cond = governing(n)
            ats = sorted(bf_atoms(cond))
            attr_atoms = [a for a in ats if " <=> " in a and all("attr" in side for side in a.split(" <=> "))]
            path_atoms = [a for a in ats if "edit_path" in a]
            ok = False
            for a in attr_atoms:
                for pth in path_atoms:
                    spec_p = ("cmp", pth, frozenset({"eq"})) if " <=> " in pth else ("atom", pth)
                    good, _ = bf_implies(cond, ("and", [("cmp", a, frozenset({"eq"})), spec_p]))
                    ok = ok or good
            res.ob(ok)
            res.sample(f"{lf.qualname}: `{ast.unparse(n)[:50]}` applied only under same-path and same-attribute: {ok}")
            if not ok:
                res.add(
                    Finding("PATHIDX", IC, n.lineno, lf.qualname, n.func.id,
                            f"`{n.func.id}` shifts positions of the edited child block, but here it is applied without establishing that the cursor lies in that block "
                            f"(parent path equal to the edit path AND block attribute equal): a cursor into the sibling block (else-branch) is shifted / re-labelled and designates other statements")
                )
    if n_apps < 2:
        raise AnalysisError("PATHIDX: fwd_node/fwd_block applications not found in _local_forward.forward")
    if n_sites < 4:
        raise AnalysisError(f"PATHIDX: expected >= 4 index-ordering sites in internal_cursors.py, found {n_sites}")
    res.floor = 5
    return res


def rule_fwdsib(ctx, prop: str) -> RuleResult:
    """Sibling agreement inside one elementary forwarder: `fwd_node` (single statements)
    and `fwd_block` (statement ranges) describe the SAME edit.  Whenever either maps a
    position to a path that descends into a newly created node — a two-element path
    [(attr, P), (inner_attr, ...)] — P is the position of that new node, so the set of P
    expressions used by the two siblings must coincide."""
    ix = ctx.ix
    res = RuleResult("FWDSIB")
    m = ix.module(IC)
    groups: Dict[str, Dict[str, Func]] = {}
    for qn, f in m.funcs.items():
        if isinstance(f.node, ast.FunctionDef) and f.node.name in ("fwd_node", "fwd_block") and "." in qn:
            groups.setdefault(qn.rsplit(".", 1)[0], {})[f.node.name] = f

    def descents(f: Func) -> Set[str]:
        out = set()
        for n in f.body_nodes():
            if isinstance(n, ast.Return) and isinstance(n.value, ast.List) and len(n.value.elts) == 2:
                first = n.value.elts[0]
                if isinstance(first, ast.Tuple) and len(first.elts) == 2:
                    out.add(ast.unparse(first.elts[1]))
        return out

    n_pairs = 0
    for owner, fs in sorted(groups.items()):
        if set(fs) != {"fwd_node", "fwd_block"}:
            continue
        n_pairs += 1
        res.instances += 1
        res.analysed.append(f"{IC}:{owner}")
        dn, db = descents(fs["fwd_node"]), descents(fs["fwd_block"])
        if not dn and not db:
            res.ob(True)
            continue
        res.nontrivial += 1
        ok = dn == db
        res.ob(ok)
        res.sample(f"{owner}: new-node position in fwd_node {sorted(dn)} / fwd_block {sorted(db)}: {ok}")
        if not ok:
            res.add(
                Finding("FWDSIB", IC, fs["fwd_block"].lineno, owner, "descent-position",
                        f"{owner}: single statements are forwarded below the new node at position {sorted(dn)} but statement ranges below position {sorted(db)}: "
                        f"a block cursor strictly inside the wrapped range is sent to a different (or non-existent) statement")
            )
    # _forward_move has no fwd_block: it forwards the two END statements of a block and spans what lies
    # between them.  "The same statements" additionally needs the span to have the original length
    # (a statement moved in between, or one of the block's statements moved away, changes it).
    mv = m.funcs.get("Block._forward_move.forward")
    if mv is None:
        raise AnalysisError("anchor vanished: Block._forward_move.forward")
    res.instances += 1
    res.nontrivial += 1
    res.analysed.append(f"{IC}:Block._forward_move.forward")
    span_checked = False
    for n in mv.body_nodes():
        if isinstance(n, (ast.If, ast.Assert)):
            t = ast.unparse(n.test)
            if "len(rng)" in t and ("new_end" in t or "new_start" in t):
                span_checked = True
    res.ob(span_checked)
    res.sample(f"Block._forward_move.forward: forwarded block keeps its length: {span_checked}")
    if not span_checked:
        res.add(
            Finding("FWDSIB", IC, mv.lineno, "Block._forward_move.forward", "block-span",
                    "a block is forwarded through a move as the span between its forwarded end statements, with no check that the span still has the block's length: "
                    "body()[1:3] = [y, z] forwarded through reorder_stmts(x, y) becomes [y, x, z] — it denotes a statement it did not contain")
        )
    # (c) a forwarded statement range is the image of the block's OWN two ends.  Every `range(E1, E2)` a
    #     fwd_block builds from its block parameter b is either length-preserving in linear arithmetic
    #     (E2 - E1 == b.stop - b.start), or the endpoint-wise image under one index map g
    #     (range(g(b.start), g(b.stop)) / range(g(b.start), g(b.stop - 1) + 1)), or — only where the block
    #     CONTAINS the wrapped run — shorter by exactly the statements that disappeared into the wrapper
    #     (E1 == b.start, E2 == b.stop - (len(R) - 1)).
    n_rng = 0
    for owner, fs in sorted(groups.items()):
        fb = fs.get("fwd_block")
        if fb is None:
            continue
        ps = fb.params()
        if len(ps) < 2:
            continue
        b = ps[-1]
        outer = m.funcs.get(owner)
        defs: Dict[str, ast.AST] = {}
        if outer is not None:
            for k in outer.node.body:
                if isinstance(k, ast.Assign) and len(k.targets) == 1 and isinstance(k.targets[0], ast.Name):
                    defs[k.targets[0].id] = k.value

        def lin(e: ast.AST, depth: int = 0):
            """linear form {atom: coef} over X.start / X.stop / 1, or None"""
            if depth > 6:
                return None
            if isinstance(e, ast.Constant) and isinstance(e.value, int) and not isinstance(e.value, bool):
                return {"1": e.value}
            if isinstance(e, ast.Attribute) and e.attr in ("start", "stop") and isinstance(e.value, ast.Name):
                return {f"{e.value.id}.{e.attr}": 1}
            if isinstance(e, ast.Call) and dotted(e.func) == "len" and len(e.args) == 1 and isinstance(e.args[0], ast.Name):
                x = e.args[0].id
                return {f"{x}.stop": 1, f"{x}.start": -1}
            if isinstance(e, ast.Name) and e.id in defs:
                return lin(defs[e.id], depth + 1)
            if isinstance(e, ast.BinOp) and isinstance(e.op, (ast.Add, ast.Sub)):
                l, r = lin(e.left, depth + 1), lin(e.right, depth + 1)
                if l is None or r is None:
                    return None
                sg = 1 if isinstance(e.op, ast.Add) else -1
                out = dict(l)
                for k_, v in r.items():
                    out[k_] = out.get(k_, 0) + sg * v
                return {k_: v for k_, v in out.items() if v != 0}
            if isinstance(e, ast.UnaryOp) and isinstance(e.op, ast.USub):
                l = lin(e.operand, depth + 1)
                return None if l is None else {k_: -v for k_, v in l.items()}
            return None

        def sub(a, b_):
            out = dict(a)
            for k_, v in b_.items():
                out[k_] = out.get(k_, 0) - v
            return {k_: v for k_, v in out.items() if v != 0}

        def endpoint_image(e1: ast.AST, e2: ast.AST) -> bool:
            # g(b.start) / g(b.stop)   or   g(b.start) / g(b.stop - 1) + 1
            if isinstance(e2, ast.BinOp) and isinstance(e2.op, ast.Add) and isinstance(e2.right, ast.Constant) and e2.right.value == 1:
                inner = e2.left
                if isinstance(e1, ast.Call) and isinstance(inner, ast.Call) and ast.unparse(e1.func) == ast.unparse(inner.func) and len(e1.args) == len(inner.args) == 1:
                    return ast.unparse(e1.args[0]) == f"{b}.start" and ast.unparse(inner.args[0]) == f"{b}.stop - 1"
                return False
            if isinstance(e1, ast.Call) and isinstance(e2, ast.Call) and ast.unparse(e1.func) == ast.unparse(e2.func) and len(e1.args) == len(e2.args) == 1:
                return ast.unparse(e1.args[0]) == f"{b}.start" and ast.unparse(e2.args[0]) == f"{b}.stop"
            return False

        for n in fb.body_nodes():
            if not (isinstance(n, ast.Call) and dotted(n.func) == "range" and len(n.args) == 2):
                continue
            e1, e2 = n.args
            if b not in {k.id for k in ast.walk(n) if isinstance(k, ast.Name)}:
                continue
            n_rng += 1
            res.instances += 1
            res.nontrivial += 1
            l1, l2 = lin(e1), lin(e2)
            how = None
            if l1 is not None and l2 is not None:
                d = sub(l2, l1)
                if d == {f"{b}.stop": 1, f"{b}.start": -1}:
                    how = "length-preserving"
                elif "_forward_wrap" in owner and l1 == {f"{b}.start": 1}:
                    rs = [k_.rsplit(".", 1)[0] for k_ in l2 if not k_.startswith(b + ".") and k_ != "1"]
                    if len(set(rs)) == 1:
                        R = rs[0]
                        if l2 == {f"{b}.stop": 1, f"{R}.stop": -1, f"{R}.start": 1, "1": 1}:
                            how = "shrinks by the wrapped statements"
            elif endpoint_image(e1, e2):
                how = "endpoint-wise image"
            ok = how is not None
            res.ob(ok)
            res.sample(f"{owner}.fwd_block: `{ast.unparse(n)}` {how or 'NOT the image of the block ends'}")
            if not ok:
                res.add(
                    Finding("FWDSIB", IC, n.lineno, f"{owner}.fwd_block", f"range:{ast.unparse(n)[:60]}",
                            f"`{ast.unparse(n)}` is not the image of the block's own two ends (neither length-preserving, nor an endpoint-wise map, nor the block shrunk by the wrapped statements): "
                            f"a block [x, y] inside a wrapped run [x, y, z] is forwarded to [x, y, z] — it denotes a statement it never contained")
                )
    # (d) the guard that decides "this block only partly survives the edit" is a SYMMETRIC relation of two
    #     ranges (a overlaps b at its front, or b overlaps a at its front): its second disjunct is the first with
    #     the two ranges exchanged.  With the ends of one disjunct mixed up, a block that starts inside a replaced
    #     range and ends after it is forwarded by index arithmetic and silently loses statements.
    ip = m.funcs.get("_intersects_partially")
    if ip is None:
        raise AnalysisError("anchor vanished: _intersects_partially")
    res.instances += 1
    res.nontrivial += 1
    res.analysed.append(f"{IC}:_intersects_partially")
    rets = [n for n in ip.body_nodes() if isinstance(n, ast.Return) and n.value is not None]
    ps_ = ip.params()
    ok = False
    detail = "no single `return <x> or <y>`"
    if len(rets) == 1 and isinstance(rets[0].value, ast.BoolOp) and isinstance(rets[0].value.op, ast.Or) and len(rets[0].value.values) == 2 and len(ps_) == 2:
        d1, d2 = rets[0].value.values
        a_, b_ = ps_

        class Swap(ast.NodeTransformer):
            def visit_Name(self, node):
                return ast.copy_location(ast.Name(id={a_: b_, b_: a_}.get(node.id, node.id), ctx=node.ctx), node)

        d1s = ast.unparse(Swap().visit(ast.parse(ast.unparse(d1), mode="eval").body))
        ok = d1s == ast.unparse(d2)
        # each disjunct is the strict chain  x.start < y.start < x.stop < y.stop
        def chain_ok(d, x, y):
            return isinstance(d, ast.Compare) and all(isinstance(o, ast.Lt) for o in d.ops) and [ast.unparse(t) for t in [d.left] + d.comparators] == [f"{x}.start", f"{y}.start", f"{x}.stop", f"{y}.stop"]
        ok = ok and (chain_ok(d1, a_, b_) or chain_ok(d1, b_, a_))
        detail = f"`{ast.unparse(d1)}` / `{ast.unparse(d2)}`"
    def _is_chain4(d):
        return isinstance(d, ast.Compare) and len(d.ops) == 3 and all(isinstance(o, ast.Lt) for o in d.ops) and all(isinstance(t, ast.Attribute) and t.attr in ("start", "stop") for t in [d.left] + d.comparators)

    if not ok and not (len(rets) == 1 and isinstance(rets[0].value, ast.BoolOp) and len(rets[0].value.values) == 2 and all(_is_chain4(d) for d in rets[0].value.values)):
        # some other formulation (conjunctions, helper calls ...): not decidable by this clause
        raise AnalysisError(f"FWDSIB: _intersects_partially is no longer written as two strict chains over .start/.stop ({detail}): re-confirm the clause")
    res.ob(ok)
    res.sample(f"_intersects_partially: second disjunct is the first with the ranges exchanged, each `x.start < y.start < x.stop < y.stop`: {ok}")
    if not ok:
        res.add(Finding("FWDSIB", IC, ip.lineno, "_intersects_partially", "partial-overlap-symmetric",
                        f"_intersects_partially returns {detail}: partial overlap is `x.start < y.start < x.stop < y.stop` for one order of the two ranges or the other. As written, one of the two "
                        f"overlap cases is not recognised, and a block cursor with one end inside a replaced / moved range is forwarded by index arithmetic instead of being invalidated — "
                        f"after specialize(body[1:4]) the block body[3:6] forwards to [x[5]] and silently loses x[4]"))
    if n_rng < 4:
        raise AnalysisError(f"FWDSIB: expected >= 4 forwarded block ranges in the fwd_block siblings, found {n_rng}")
    if n_pairs < 3:
        raise AnalysisError(f"FWDSIB: expected >= 3 fwd_node/fwd_block sibling pairs in internal_cursors.py, found {n_pairs}")
    res.floor = 8
    return res


API = "src/exo/API.py"


def rule_apifwd(ctx, prop: str) -> RuleResult:
    """"Cursors handed directly to a scheduling operation behave exactly as if they had been
    forwarded explicitly first."  The atomic operations get that from
    CursorArgumentProcessor (FWDWALK); a public `Procedure` method that takes a cursor and
    uses its internal cursor (`<param>._impl`) must forward it itself —
    `<param> = self.forward(<param>)` on every path before the use."""
    ix = ctx.ix
    res = RuleResult("APIFWD")
    c = ix.module(API).cls("Procedure")
    n = 0
    for name, f in c.methods.items():
        if name.startswith("_") or name == "forward":
            continue
        ps = [p for p in f.params() if p != "self"]
        for p_ in ps:
            uses = [k for k in f.body_nodes() if isinstance(k, ast.Attribute) and k.attr == "_impl" and isinstance(k.value, ast.Name) and k.value.id == p_]
            if not uses:
                continue
            n += 1
            res.instances += 1
            res.nontrivial += 1
            res.analysed.append(f"{API}:{f.qualname}")
            first_use = min(u.lineno for u in uses)
            fwd = [
                k for k in f.node.body
                if isinstance(k, ast.Assign) and len(k.targets) == 1 and isinstance(k.targets[0], ast.Name) and k.targets[0].id == p_
                and isinstance(k.value, ast.Call) and dotted(k.value.func) == "self.forward" and k.value.args and dotted(k.value.args[0]) == p_
            ]
            ok = bool(fwd) and min(k.lineno for k in fwd) < first_use
            res.ob(ok)
            res.sample(f"{f.qualname}: cursor parameter `{p_}` is forwarded to this procedure before its internal cursor is used: {ok}")
            if not ok:
                res.add(
                    Finding("APIFWD", API, first_use, f.qualname, p_,
                            f"{f.qualname} uses `{p_}._impl` without `{p_} = self.forward({p_})`: the operation acts on the procedure the cursor came from, not on `self` "
                            f"(p2 = p.transpose(a); p2.transpose(b) with b a cursor into p returns p with only B transposed)")
                )
    if n < 1:
        raise AnalysisError("APIFWD: no Procedure method using a cursor parameter's _impl found")
    res.floor = 1
    return res


def rule_wrapdepth(ctx, prop: str) -> RuleResult:
    """`Block._wrap(ctor, attr)` puts the block below ONE new node and its forwarder moves
    every cursor into the block down by exactly that one level.  A wrapper function handed
    to `_wrap` must therefore build exactly one new statement around its parameter: it may
    not re-wrap the parameter first (`body = [LoopIR.If(cond, body, ...)]`) or return a
    constructor whose block argument is another freshly built statement."""
    ix = ctx.ix
    res = RuleResult("WRAPDEPTH")
    S_ = "src/exo/rewrite/LoopIR_scheduling.py"
    m = ix.module(S_)
    STMT_CTORS = {"For", "If"}
    n_wr = 0
    for f in m.funcs.values():
        if not isinstance(f.node, ast.FunctionDef):
            continue
        for call in f.body_nodes():
            if not (isinstance(call, ast.Call) and isinstance(call.func, ast.Attribute) and call.func.attr == "_wrap" and call.args):
                continue
            w = call.args[0]
            wf = None
            if isinstance(w, ast.Name):
                scope = f
                while scope is not None and wf is None:
                    wf = m.funcs.get(f"{scope.qualname}.{w.id}")
                    scope = scope.outer
                if wf is None:
                    # a lambda bound to a name:  wrapper = lambda body: g(body, ...)
                    continue
                wnode, params = wf.node, [a.arg for a in wf.node.args.args]
            elif isinstance(w, ast.Lambda):
                wnode, params = w, [a.arg for a in w.args.args]
            else:
                continue
            if not params:
                continue
            b = params[0]
            n_wr += 1
            res.instances += 1
            res.nontrivial += 1
            res.analysed.append(f"{S_}:{f.qualname}")
            bad = None
            for k in ast.walk(wnode):
                # the parameter re-bound to something that contains a new statement built around it
                if isinstance(k, ast.Assign) and len(k.targets) == 1 and isinstance(k.targets[0], ast.Name) and k.targets[0].id == b:
                    for c_ in ast.walk(k.value):
                        if isinstance(c_, ast.Call) and (dotted(c_.func) or "").split(".")[-1] in STMT_CTORS and any(isinstance(x, ast.Name) and x.id == b for x in ast.walk(c_)):
                            bad = k
                # a constructor whose block argument is itself a freshly built statement around the parameter
                if isinstance(k, ast.Call) and (dotted(k.func) or "").split(".")[-1] in STMT_CTORS:
                    for a in list(k.args) + [kw.value for kw in k.keywords]:
                        for c_ in ast.walk(a):
                            if c_ is not k and isinstance(c_, ast.Call) and (dotted(c_.func) or "").split(".")[-1] in STMT_CTORS and any(isinstance(x, ast.Name) and x.id == b for x in ast.walk(c_)):
                                bad = k
            ok = bad is None
            res.ob(ok)
            res.sample(f"{f.qualname}: wrapper `{ast.unparse(w)[:30]}` adds exactly one level around `{b}`: {ok}")
            if not ok:
                res.add(
                    Finding("WRAPDEPTH", S_, bad.lineno, f.qualname, ast.unparse(w)[:30],
                            f"the wrapper passed to _wrap builds two nested statements around `{b}` (`{ast.unparse(bad)[:60]}`) while the forwarder of _wrap moves cursors down one level: "
                            f"after add_loop(p, s, 'k', 4, guard=True), p.forward(s) designates the new `if k == 0:` instead of the statement")
                )
    if n_wr < 6:
        raise AnalysisError(f"WRAPDEPTH: expected >= 6 wrapper functions handed to _wrap, found {n_wr}")
    res.floor = 6
    return res
