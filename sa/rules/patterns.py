"""C16 rules: CHILDREN, FINDORDER, PASTTOTAL, NOMATCH, MATCHNO (DESIGN §3.17)."""
from __future__ import annotations

import ast
from typing import Dict, List, Optional, Set, Tuple

from ..dispatch import find_chains
from ..flow import always_raises
from ..index import AnalysisError, dotted, last_name, norm_stmt, parent
from ..report import Finding, RuleResult

PM = "src/exo/frontend/pattern_match.py"
AC = "src/exo/API_cursors.py"


def rule_children(ctx, prop: str) -> RuleResult:
    ix, adts = ctx.ix, ctx.adts
    res = RuleResult("CHILDREN")
    f = ix.func(PM, "_children")
    res.analysed.append(f"{PM}:_children")
    L = adts["LoopIR"]
    kinds = {"stmt", "expr", "w_access"}
    chains = [ch for ch in find_chains(f, adts) if ch.subject == "n"]
    if not chains:
        raise AnalysisError("anchor vanished: dispatch in _children")
    seen: Set[str] = set()
    for ch in chains:
        for case in ch.cases:
            attrs: Optional[List[str]] = None
            for n in ast.walk(ast.Module(body=case.body, type_ignores=[])):
                if isinstance(n, ast.Call) and last_name(n) == "_children_from_attrs":
                    attrs = [a.value for a in n.args[2:] if isinstance(a, ast.Constant)]
            if attrs is None:
                attrs = []
            for a, K in sorted(case.ctors):
                if a != "LoopIR":
                    continue
                seen.add(K)
                res.instances += 1
                want = [fl.name for fl in L.ctor(K).fields if fl.type in kinds]
                if K == "proc":
                    # find() searches the body; assertions have no cursor kind (API_cursors.lift_cursor)
                    want = [w for w in want if w != "preds"]
                if want:
                    res.nontrivial += 1
                ok = attrs == want
                res.ob(ok)
                res.sample(f"_children[{K}] yields {attrs}; ADT child fields in program order {want}")
                if not ok:
                    res.add(
                        Finding("CHILDREN", PM, case.lineno, "_children", f"{K}:{','.join(attrs)}",
                                f"children of LoopIR.{K} are enumerated as {attrs}, the ADT declares {want} (in program order): find() "
                                + ("misses matches below the omitted field" if set(attrs) < set(want) else "returns matches out of program order / in undeclared fields"))
                    )
    # every stmt/expr/w_access constructor has a case (Free exempt)
    for sm in ("stmt", "expr", "w_access"):
        for K in L.ctors_of(sm):
            res.instances += 1
            ok = K in seen
            res.ob(ok)
            if not ok and ch.default_kind() != "fail":
                res.add(Finding("CHILDREN", PM, f.lineno, "_children", f"{K}:<none>", f"LoopIR.{K} has no case in _children and the default is silent"))
    res.floor = 20
    return res


def rule_findorder(ctx, prop: str) -> RuleResult:
    """Program order of find(): a node is tried before its children, If.body before
    If.orelse, the head statement's sub-blocks before the rest of the block."""
    ix = ctx.ix
    res = RuleResult("FINDORDER")
    m = ix.module(PM)
    fs = m.func("PatternMatch.find_stmts_in_block")
    fe = m.func("PatternMatch.find_expr")
    res.analysed += [f"{PM}:{fs.qualname}", f"{PM}:{fe.qualname}"]

    def calls(f, name):
        return sorted([n for n in f.body_nodes() if isinstance(n, ast.Call) and last_name(n) == name], key=lambda n: (n.lineno, n.col_offset))

    # find_expr: match_e before recursion into children
    me = calls(fe, "match_e")
    rec = calls(fe, "find_expr")
    res.instances += 1
    res.nontrivial += 1
    ok = bool(me) and bool(rec) and me[0].lineno < rec[0].lineno
    res.ob(ok)
    if not ok:
        res.add(Finding("FINDORDER", PM, fe.lineno, fe.qualname, "match-before-children", "an expression must be tried before its children (pre-order = program order)"))
    # find_stmts_in_block
    ms = calls(fs, "match_stmts")
    recs = calls(fs, "find_stmts_in_block")
    res.instances += 1
    res.nontrivial += 1
    ok = bool(ms) and bool(recs) and ms[0].lineno < recs[0].lineno
    res.ob(ok)
    if not ok:
        res.add(Finding("FINDORDER", PM, fs.lineno, fs.qualname, "match-before-recursion", "a block position must be tried before the blocks nested in its first statement"))
    body_l = [r.lineno for r in recs if "body()" in ast.unparse(r)]
    else_l = [r.lineno for r in recs if "orelse()" in ast.unparse(r)]
    tail_l = [r.lineno for r in recs if "[1:]" in ast.unparse(r)]
    res.instances += 1
    res.nontrivial += 1
    ok = bool(body_l) and bool(else_l) and bool(tail_l) and min(body_l) < min(else_l) < min(tail_l) and max(body_l) < min(tail_l)
    res.ob(ok)
    res.sample(f"find_stmts_in_block recursion lines: body {body_l}, orelse {else_l}, tail {tail_l}")
    if not ok:
        res.add(Finding("FINDORDER", PM, fs.lineno, fs.qualname, "body<orelse<tail", "recursion order must be If.body, If.orelse, then the tail of the block: otherwise '#n' selects a different match than program order"))
    # For loops' bodies are searched too
    has_for = any(isinstance(n, ast.If) or True for n in [0])
    txt = ast.unparse(fs.node)
    res.instances += 1
    ok = "LoopIR.For" in txt and "LoopIR.If" in txt
    res.ob(ok)
    if not ok:
        res.add(Finding("FINDORDER", PM, fs.lineno, fs.qualname, "For+If", "statement search no longer descends into both For and If bodies"))
    # tail recursion must drop exactly the head: curs[1:]
    res.instances += 1
    ok = any(isinstance(n, ast.Subscript) and isinstance(n.slice, ast.Slice) and isinstance(n.slice.lower, ast.Constant) and n.slice.lower.value == 1 and n.slice.upper is None for r in recs for n in ast.walk(r))
    res.ob(ok)
    if not ok:
        res.add(Finding("FINDORDER", PM, fs.lineno, fs.qualname, "tail=curs[1:]", "the tail recursion does not continue at the next statement"))
    res.floor = 5
    return res


def rule_pasttotal(ctx, prop: str) -> RuleResult:
    ix, adts = ctx.ix, ctx.adts
    res = RuleResult("PASTTOTAL")
    m = ix.module(PM)
    tbl = m.assigns.get("_PAST_to_LoopIR")
    if not isinstance(tbl, ast.Dict):
        raise AnalysisError("anchor vanished: _PAST_to_LoopIR dict literal")
    P = adts["PAST"]
    have: Dict[str, Optional[List[str]]] = {}
    for k, v in zip(tbl.keys, tbl.values):
        d = dotted(k)
        if d and d.startswith("PAST."):
            if isinstance(v, ast.List):
                have[d[5:]] = [dotted(e).split(".")[-1] for e in v.elts if dotted(e)]
            else:
                have[d[5:]] = None
    for sm in ("stmt", "expr"):
        for K in P.ctors_of(sm):
            res.instances += 1
            res.nontrivial += 1
            ok = K in have
            res.ob(ok)
            if not ok:
                res.add(Finding("PASTTOTAL", PM, tbl.lineno, "_PAST_to_LoopIR", K, f"pattern constructor PAST.{K} has no entry: patterns using it raise KeyError instead of matching"))
                continue
            tgt = have[K]
            if K.endswith("_Hole"):
                continue
            ok2 = tgt == [K]
            res.ob(ok2)
            res.sample(f"PAST.{K} -> {tgt}")
            if not ok2:
                res.add(Finding("PASTTOTAL", PM, tbl.lineno, "_PAST_to_LoopIR", f"{K}->{tgt}", f"PAST.{K} is matched against LoopIR {tgt} instead of [LoopIR.{K}]: find returns nodes of another kind"))
    res.floor = 17
    return res


def _sre():
    try:
        import re._parser as sre_parse  # py >= 3.11
    except Exception:  # pragma: no cover
        import sre_parse
    return sre_parse


def _space_after_hash(pattern: str) -> Optional[bool]:
    """does the expression allow white space between a literal `#` and the digits that follow?
    None: no `#` followed by digits found"""
    items = list(_sre().parse(pattern))

    def flat(items):
        out = []
        for op, av in items:
            opn = str(op)
            if opn == "SUBPATTERN":
                out.extend(flat(av[3]))
            elif opn in ("MAX_REPEAT", "MIN_REPEAT"):
                lo_, hi_, sub = av
                inner = flat(sub)
                out.append(("REPEAT", lo_, inner))
            else:
                out.append((opn, av))
        return out

    def is_space(x) -> bool:
        return x[0] == "IN" and any(str(o) == "CATEGORY" and "SPACE" in str(a) and "NOT" not in str(a) for o, a in x[1])

    def is_digits(x) -> bool:
        if x[0] == "REPEAT":
            return any(is_digits(y) for y in x[2])
        if x[0] == "IN":
            return any((str(o) == "CATEGORY" and "DIGIT" in str(a) and "NOT" not in str(a)) or (str(o) == "RANGE" and a == (48, 57)) for o, a in x[1])
        return False

    def scan(seq) -> Optional[bool]:
        for i, x in enumerate(seq):
            if x[0] == "LITERAL" and x[1] == ord("#"):
                rest = seq[i + 1:]
                if rest and rest[0][0] == "REPEAT" and rest[0][1] == 0 and any(is_space(y) for y in rest[0][2]):
                    if len(rest) > 1 and is_digits(rest[1]):
                        return True
                if rest and is_digits(rest[0]):
                    return False
            if x[0] == "REPEAT":
                r = scan(x[2])
                if r is not None:
                    return r
        return None

    return scan(flat(items))


def rule_nomatch(ctx, prop: str) -> RuleResult:
    ix = ctx.ix
    res = RuleResult("NOMATCH")
    f = ix.func(AC, "find")
    res.analysed.append(f"{AC}:find")
    # `if not cursors: raise SchedulingError` on the list that is returned
    ok = False
    retvars = set()
    for n in f.body_nodes():
        if isinstance(n, ast.Return) and n.value is not None:
            retvars |= {x.id for x in ast.walk(n.value) if isinstance(x, ast.Name)}
    for n in f.body_nodes():
        if isinstance(n, ast.If) and always_raises(n.body):
            t = n.test
            if isinstance(t, ast.UnaryOp) and isinstance(t.op, ast.Not) and isinstance(t.operand, ast.Name) and t.operand.id in retvars:
                ok = True
            if isinstance(t, ast.Compare) and isinstance(t.left, ast.Call) and dotted(t.left.func) == "len" and t.left.args and isinstance(t.left.args[0], ast.Name) and t.left.args[0].id in retvars:
                c = t.comparators[0]
                if isinstance(c, ast.Constant) and ((isinstance(t.ops[0], ast.Eq) and c.value == 0) or (isinstance(t.ops[0], ast.Lt) and c.value == 1)):
                    ok = True
    res.instances += 1
    res.nontrivial += 1
    res.ob(ok)
    if not ok:
        res.add(Finding("NOMATCH", AC, f.lineno, "find", "empty->raise", "find() no longer raises when there is no match (returns an empty list / IndexError instead of SchedulingError)"))
    # default_match_no: None iff many
    ok = False
    for n in f.body_nodes():
        if isinstance(n, ast.Assign) and isinstance(n.targets[0], ast.Name) and n.targets[0].id == "default_match_no" and isinstance(n.value, ast.IfExp):
            v = n.value
            if isinstance(v.body, ast.Constant) and v.body.value is None and isinstance(v.test, ast.Name) and v.test.id == "many" and isinstance(v.orelse, ast.Constant) and v.orelse.value == 0:
                ok = True
    res.instances += 1
    res.nontrivial += 1
    res.ob(ok)
    if not ok:
        res.add(Finding("NOMATCH", AC, f.lineno, "find", "default_match_no", "without '#n' find() must select the first match (0) unless many=True (None = all)"))
    # returns first when not many
    ok = any(isinstance(n, ast.Return) and isinstance(n.value, ast.IfExp) and "cursors[0]" in ast.unparse(n.value) for n in f.body_nodes())
    res.instances += 1
    res.ob(ok)
    if not ok:
        res.add(Finding("NOMATCH", AC, f.lineno, "find", "return-first", "find(many=False) must return cursors[0]"))
    # '#n' bookkeeping in PatternMatch._add_result: the n-th match (0-based) is the one
    # recorded, counting down once per match
    ar = ix.func(PM, "PatternMatch._add_result")
    res.analysed.append(f"{PM}:{ar.qualname}")
    txt = ast.unparse(ar.node)
    dec = any(isinstance(n, ast.AugAssign) and isinstance(n.op, ast.Sub) and isinstance(n.value, ast.Constant) and n.value.value == 1 and "_match_no" in ast.unparse(n.target) for n in ar.body_nodes())
    zero = any(isinstance(n, ast.If) and isinstance(n.test, ast.Compare) and isinstance(n.test.ops[0], ast.Eq) and isinstance(n.test.comparators[0], ast.Constant) and n.test.comparators[0].value == 0
               and any(isinstance(x, ast.Raise) for s in n.body for x in ast.walk(s)) and any(isinstance(x, ast.Call) and last_name(x) == "append" for s in n.body for x in ast.walk(s))
               for n in ar.body_nodes())
    res.instances += 1
    res.nontrivial += 1
    res.ob(dec and zero)
    if not (dec and zero):
        res.add(Finding("NOMATCH", PM, ar.lineno, ar.qualname, "#n-countdown", "'#n' must count matches down by one and record exactly the match at which the counter is 0, then stop"))
    # regex for '#n'
    mp = ix.func(PM, "match_pattern")
    pats = []
    for n in mp.body_nodes():
        if isinstance(n, ast.Constant) and isinstance(n.value, str) and "#" in n.value:
            try:
                if _space_after_hash(n.value) is not None:  # a literal `#` followed by digits
                    pats.append(n.value)
            except Exception:
                pass
    res.instances += 1
    ok = len(pats) == 1
    res.ob(ok)
    if not ok:
        res.add(Finding("NOMATCH", PM, mp.lineno, "match_pattern", "#n-regex", "the '#<num>' suffix is no longer split off the pattern string"))
    res.floor = 5
    return res


def rule_countgroup(ctx, prop: str) -> RuleResult:
    """The `name [name] #n` shorthands of the scheduling API are taken apart with module-level
    regular expressions.  Wherever a captured group is re-inserted after a literal `#` (to
    build the pattern `... #n`) or converted with `int(...)`, that group must be the one
    holding only the digits — decided by parsing the regular expression (`re._parser`) and
    looking at what each numbered group can contain."""
    import re as _re

    try:
        import re._parser as sre_parse  # py >= 3.11
    except Exception:  # pragma: no cover
        import sre_parse

    ix = ctx.ix
    res = RuleResult("COUNTGROUP")
    AS_ = "src/exo/API_scheduling.py"
    m = ix.module(AS_)
    regexes: Dict[str, str] = {}
    for name, node in m.assigns.items():
        if isinstance(node, ast.Constant) and isinstance(node.value, str) and name.endswith("_re"):
            regexes[name] = node.value

    def group_literals(pattern: str) -> Dict[int, Set[str]]:
        """group number -> set of literal characters / categories it can contain"""
        out: Dict[int, Set[str]] = {}

        def walk(items, enclosing: List[int]):
            for op, av in items:
                opn = str(op)
                if opn == "SUBPATTERN":
                    g, _, _, sub = av
                    walk(sub, enclosing + ([g] if g else []))
                elif opn == "LITERAL":
                    for g in enclosing:
                        out.setdefault(g, set()).add(chr(av))
                elif opn in ("MAX_REPEAT", "MIN_REPEAT"):
                    walk(av[2], enclosing)
                elif opn == "BRANCH":
                    for alt in av[1]:
                        walk(alt, enclosing)
                elif opn == "IN":
                    for g in enclosing:
                        out.setdefault(g, set()).add("<class>")
                else:
                    for g in enclosing:
                        out.setdefault(g, set())

        walk(sre_parse.parse(pattern), [])
        return out

    n_uses = 0
    for f in m.funcs.values():
        if not isinstance(f.node, ast.FunctionDef):
            continue
        # match variables:  v = re.search(<regex const>, ...)   /  (v := re.search(...))
        mvars: Dict[str, str] = {}
        for n in f.body_nodes():
            call, tgt = None, None
            if isinstance(n, ast.Assign) and isinstance(n.value, ast.Call) and len(n.targets) == 1 and isinstance(n.targets[0], ast.Name):
                call, tgt = n.value, n.targets[0].id
            if isinstance(n, ast.NamedExpr) and isinstance(n.value, ast.Call) and isinstance(n.target, ast.Name):
                call, tgt = n.value, n.target.id
            if call is not None and dotted(call.func) in ("re.search", "re.match", "re.fullmatch") and call.args and isinstance(call.args[0], ast.Name) and call.args[0].id in regexes:
                mvars[tgt] = call.args[0].id
        if not mvars:
            continue
        for n in f.body_nodes():
            uses: List[Tuple[ast.Subscript, str]] = []
            if isinstance(n, ast.JoinedStr):
                prev = ""
                for v in n.values:
                    if isinstance(v, ast.Constant):
                        prev = str(v.value)
                    elif isinstance(v, ast.FormattedValue):
                        if prev.rstrip().endswith("#") and isinstance(v.value, ast.Subscript):
                            uses.append((v.value, "re-inserted after a literal `#`"))
                        prev = ""
            if isinstance(n, ast.Call) and isinstance(n.func, ast.Name) and n.func.id == "int" and n.args and isinstance(n.args[0], ast.Subscript):
                uses.append((n.args[0], "converted with int()"))
            for sub, how in uses:
                if not (isinstance(sub.value, ast.Name) and sub.value.id in mvars and isinstance(sub.slice, ast.Constant) and isinstance(sub.slice.value, int)):
                    continue
                n_uses += 1
                res.instances += 1
                res.nontrivial += 1
                res.analysed.append(f"{AS_}:{f.qualname}")
                rx = regexes[mvars[sub.value.id]]
                lits = group_literals(rx).get(sub.slice.value)
                ok = lits is not None and "#" not in lits
                res.ob(ok)
                res.sample(f"{f.qualname}: group {sub.slice.value} of {mvars[sub.value.id]} ({how}) holds only the count: {ok}")
                if not ok:
                    res.add(
                        Finding("COUNTGROUP", AS_, sub.lineno, f.qualname, f"{mvars[sub.value.id]}[{sub.slice.value}]",
                                f"{f.qualname}: group {sub.slice.value} of `{rx}` {'does not exist' if lits is None else 'contains the `#` itself'}, and is {how}: the pattern becomes `... ##n`, "
                                f"the occurrence selector is lost (Python reads the rest as a comment) and `'i j #1'` designates the FIRST matching loop nest")
                    )
    # producer / consumer agreement on the `#n` suffix.  The shorthand forms (find_loop, find_alloc_or_arg,
    # the name-count argument processors) accept `name # n` — white space between `#` and the digits — and
    # hand the text on to match_pattern, whose own expression splits `<pattern> #<n>`.  If that expression
    # does not allow the white space, `# 1` is not recognised, Python's tokenizer then reads it as a comment
    # and the FIRST match is returned although the second was asked for.
    space_after_hash = _space_after_hash

    producers: List[Tuple[str, str, str, int]] = []
    for mod_rel in (AS_, "src/exo/API.py"):
        mm = ix.module(mod_rel)
        for fn in [None] + [f for f in ix.all_funcs() if f.file == mod_rel]:
            nodes = mm.tree.body if fn is None else fn.body_nodes()
            for n in nodes:
                if isinstance(n, ast.Assign) and len(n.targets) == 1 and isinstance(n.targets[0], ast.Name) and n.targets[0].id.endswith("_re") and isinstance(n.value, ast.Constant) and isinstance(n.value.value, str):
                    if space_after_hash(n.value.value):
                        producers.append((mod_rel, fn.qualname if fn else "<module>", n.value.value, n.lineno))
    PM_ = "src/exo/frontend/pattern_match.py"
    mp = ix.func(PM_, "match_pattern")
    consumers = [k.args[0].value for k in mp.body_nodes() if isinstance(k, ast.Call) and dotted(k.func) in ("re.search", "re.match", "re.fullmatch") and k.args and isinstance(k.args[0], ast.Constant) and isinstance(k.args[0].value, str) and "#" in k.args[0].value]
    if not consumers:
        raise AnalysisError("anchor vanished: match_pattern no longer splits `<pattern> #<n>` with a regular expression")
    if producers:
        for rx in consumers:
            res.instances += 1
            res.nontrivial += 1
            res.analysed.append(f"{PM_}:match_pattern")
            ok = space_after_hash(rx) is True
            res.ob(ok)
            res.sample(f"match_pattern `{rx}` accepts the `# n` (white space) that {len(producers)} shorthand expressions let through: {ok}")
            if not ok:
                res.add(Finding("COUNTGROUP", PM_, mp.lineno, "match_pattern", "hash-space",
                                f"the shorthand forms ({', '.join(sorted({q for _, q, _, _ in producers}))}) accept `name # n` with white space after `#` and pass it on, but match_pattern's `{rx}` "
                                f"does not: `# 1` is then read as a Python comment and find_loop('i # 1') silently returns the FIRST loop"))
    if n_uses < 2:
        raise AnalysisError(f"COUNTGROUP: expected >= 2 uses of a count group in API_scheduling.py, found {n_uses}")
    res.floor = 3
    return res


def rule_falsyzero(ctx, prop: str) -> RuleResult:
    """An ADT field declared `int` can legitimately be 0 (dimension 0 of `stride(A, 0)`); an
    optional one (`int?`) uses None for "absent".  A truthiness test on such a field
    (`not x.dim`, `bool(x.dim)`, `x.dim or ...`, `if x.dim`) conflates 0 with absent: the
    pattern `stride(A, 0)` then matches every stride of A."""
    ix, adts = ctx.ix, ctx.adts
    res = RuleResult("FALSYZERO")
    int_fields: Set[str] = set()
    for mod in adts.mods.values():
        for c in mod.ctors.values():
            for fld in c.fields:
                if fld.type == "int":
                    int_fields.add(fld.name)
    int_fields &= {"dim"}  # confirmed instance; `val` of Const is never tested for truth as an int field
    if not int_fields:
        raise AnalysisError("FALSYZERO: no `int dim` field found in the ADTs")
    n_reads = 0
    for f in ix.all_funcs():
        if not f.file.startswith(("src/exo/frontend/pattern_match.py", "src/exo/rewrite/", "src/exo/core/", "src/exo/backend/", "src/exo/API")):
            continue
        for n in f.body_nodes():
            if not (isinstance(n, ast.Attribute) and n.attr in int_fields):
                continue
            n_reads += 1
            p = parent(n)
            truth = False
            if isinstance(p, ast.UnaryOp) and isinstance(p.op, ast.Not):
                truth = True
            if isinstance(p, ast.Call) and isinstance(p.func, ast.Name) and p.func.id == "bool":
                truth = True
            if isinstance(p, ast.BoolOp) and any(v is n for v in p.values):
                truth = True
            if isinstance(p, (ast.If, ast.While, ast.IfExp)) and p.test is n:
                truth = True
            res.instances += 1
            res.ob(not truth)
            if truth:
                res.nontrivial += 1
                res.add(
                    Finding("FALSYZERO", f.file, n.lineno, f.qualname, ast.unparse(p)[:50],
                            f"`{ast.unparse(p)[:60]}` tests the integer field `.{n.attr}` for truth: dimension 0 counts as absent, so the pattern `stride(A, 0)` "
                            f"matches `stride(A, 1)` as well (use `is None` for the hole)")
                )
    if n_reads < 5:
        raise AnalysisError(f"FALSYZERO: expected >= 5 reads of an int dimension field, found {n_reads}")
    res.floor = 5
    return res


def rule_navattr(ctx, prop: str) -> RuleResult:
    """Cursor navigation stays inside the child block the cursor belongs to (`body` vs
    `orelse`, `args`, `preds` ...).  In `core/internal_cursors.py` that block is always
    obtained through the cursor's own attribute (`self._attr`, `self._path[-1][0]`); a
    navigation method that names a block literally (`.body()`, `_child_block("body")`)
    navigates the then-branch for a cursor that sits in the else-branch.  The two selector
    methods `Node.body` / `Node.orelse` themselves are the only literal uses."""
    ix = ctx.ix
    res = RuleResult("NAVATTR")
    IC_ = "src/exo/core/internal_cursors.py"
    m = ix.module(IC_)
    n = 0
    for f in m.funcs.values():
        if not isinstance(f.node, ast.FunctionDef):
            continue
        for k in f.body_nodes():
            lit = None
            if isinstance(k, ast.Call) and isinstance(k.func, ast.Attribute):
                if k.func.attr in ("body", "orelse") and not k.args:
                    lit = f".{k.func.attr}()"
                if k.func.attr in ("_child_block", "_child_node") and k.args and isinstance(k.args[0], ast.Constant) and isinstance(k.args[0].value, str):
                    lit = f'{k.func.attr}("{k.args[0].value}")'
            if lit is None:
                continue
            n += 1
            res.instances += 1
            res.nontrivial += 1
            res.analysed.append(f"{IC_}:{f.qualname}")
            ok = f.node.name in ("body", "orelse") and lit.startswith("_child_block")
            res.ob(ok)
            res.sample(f"{f.qualname}: literal block selector {lit} ({'the selector method itself' if ok else 'in navigation code'})")
            if not ok:
                res.add(
                    Finding("NAVATTR", IC_, k.lineno, f.qualname, lit,
                            f"{f.qualname} selects the block {lit} literally instead of the block the cursor belongs to (`self._attr`): for a cursor in an else-branch, expand()/the rest-of-block "
                            f"used by inline_assign, sink_alloc, fold_buffer … is computed on the then-branch (truncated or overlong block)")
                )
    # and expand() does consult the cursor's own attribute
    ex = m.funcs.get("Block.expand")
    if ex is None:
        raise AnalysisError("anchor vanished: Block.expand")
    res.instances += 1
    ok = any(isinstance(k, ast.Attribute) and k.attr == "_attr" for k in ex.body_nodes())
    res.ob(ok)
    if not ok:
        res.add(Finding("NAVATTR", IC_, ex.lineno, "Block.expand", "no-_attr", "Block.expand does not consult the block attribute of the cursor"))
    if n < 2:
        raise AnalysisError(f"NAVATTR: expected the two selector methods in internal_cursors.py, found {n} literal selectors")
    res.floor = 3
    return res
