"""PREDSPEC / CHECKUSES — the effect predicates are the ones the calculus defines.

`Commutes`, `Disjoint_Memory`, `AllocCommutes` and `Shadows` are conjunctions of
emptiness conditions over effect sets.  The reference table below is the definition
from the Exo effect calculus (write sets conflict with every access of the other side,
reductions conflict with reads — or, for data races, with every access; a shadowed
modification is unread and fully overwritten).  The rule parses the predicate bodies,
resolves each local variable to (effect-set kind, operand) through the `getsets` call
that binds it, normalises unions, and compares *sets of atoms*: reordering conjuncts,
renaming locals or splitting a union does not fire; dropping or weakening a conjunct
does.  CHECKUSES fixes which predicate each Check_* proves.
"""
from __future__ import annotations

import ast
from typing import Dict, FrozenSet, List, Optional, Set, Tuple

from ..index import AnalysisError, Func, dotted, last_name
from ..report import Finding, RuleResult

NE = "src/exo/rewrite/new_eff.py"

Atom = Tuple[str, Tuple[str, int], Tuple[str, int]]  # (isct|diff, (KIND, operand), (KIND, operand))

SPEC: Dict[str, Set[Atom]] = {
    "Disjoint_Memory": {
        ("isct", ("WRITE_ALL", 1), ("ALL", 2)),
        ("isct", ("WRITE_ALL", 2), ("ALL", 1)),
        ("isct", ("REDUCE", 1), ("ALL", 2)),
        ("isct", ("REDUCE", 2), ("ALL", 1)),
    },
    "Commutes": {
        ("isct", ("WRITE_ALL", 1), ("ALL", 2)),
        ("isct", ("WRITE_ALL", 2), ("ALL", 1)),
        ("isct", ("REDUCE", 1), ("READ_ALL", 2)),
        ("isct", ("REDUCE", 2), ("READ_ALL", 1)),
    },
    "AllocCommutes": {
        ("isct", ("ALLOC", 1), ("ALL", 2)),
        ("isct", ("ALLOC", 2), ("ALL", 1)),
    },
    "Shadows": {
        ("isct", ("MODIFY", 1), ("READ_ALL", 2)),
        ("isct", ("MODIFY", 1), ("REDUCE", 2)),
        ("diff", ("MODIFY", 1), ("WRITE_ALL", 2)),
    },
}

# which predicates each check must use (callee names among the predicate functions)
CHECKUSES: Dict[str, Set[str]] = {
    "Check_ReorderStmts": {"Commutes", "AllocCommutes"},
    "Check_ReorderLoops": {"Commutes"},
    "Check_ParallelizeLoop": {"Commutes", "Disjoint_Memory"},
    "Check_FissionLoop": {"Commutes", "Commutes_Fissioning", "AllocCommutes"},
    "Check_IsIdempotent": {"Shadows"},
}


def _bindings(f: Func) -> Dict[str, Tuple[str, int]]:
    """local -> (ES kind, operand index) from `X, Y = getsets([ES.A, ES.B], a1)`."""
    params = f.params()
    out: Dict[str, Tuple[str, int]] = {}
    for n in f.body_nodes():
        if not isinstance(n, ast.Assign):
            continue
        v = n.value
        idx = None
        if isinstance(v, ast.Subscript) and isinstance(v.value, ast.Call):
            idx = v.slice.value if isinstance(v.slice, ast.Constant) else None
            v = v.value
        if isinstance(v, ast.Call) and last_name(v) == "getsets" and len(v.args) == 2 and isinstance(v.args[0], ast.List):
            kinds = [dotted(e).split(".")[-1] for e in v.args[0].elts if dotted(e)]
            opnd = dotted(v.args[1])
            if opnd not in params:
                continue
            oi = params.index(opnd) + 1
            tg = n.targets[0]
            if isinstance(tg, ast.Tuple):
                for t, k in zip(tg.elts, kinds):
                    if isinstance(t, ast.Name):
                        out[t.id] = (k, oi)
            elif isinstance(tg, ast.Name) and idx is not None and idx < len(kinds):
                out[tg.id] = (kinds[idx], oi)
    return out


def _sets(e: ast.AST, b: Dict[str, Tuple[str, int]]) -> Optional[List[Tuple[str, int]]]:
    """A location-set expression as a union of bound sets."""
    if isinstance(e, ast.Name):
        return [b[e.id]] if e.id in b else None
    if isinstance(e, ast.Call) and last_name(e) == "LUnion":
        out = []
        for a in e.args:
            s = _sets(a, b)
            if s is None:
                return None
            out += s
        return out
    return None


def _atoms(f: Func) -> Tuple[Set[Atom], List[str]]:
    b = _bindings(f)
    atoms: Set[Atom] = set()
    problems: List[str] = []
    # local names bound to predicate pieces are followed one level
    for n in f.all_nodes():
        if isinstance(n, ast.Call) and last_name(n) == "is_empty" and n.args:
            inner = n.args[0]
            if isinstance(inner, ast.Call) and last_name(inner) in ("LIsct", "LDiff") and len(inner.args) == 2:
                kind = "isct" if last_name(inner) == "LIsct" else "diff"
                l, r = _sets(inner.args[0], b), _sets(inner.args[1], b)
                if l is None or r is None:
                    problems.append(ast.unparse(n))
                    continue
                for x in l:
                    for y in r:
                        # is_empty(A ∩ (B ∪ C)) == is_empty(A∩B) ∧ is_empty(A∩C); for a difference only the left side distributes
                        if kind == "diff" and len(r) > 1:
                            problems.append(ast.unparse(n))
                        atoms.add((kind, x, y))
            else:
                problems.append(ast.unparse(n))
    return atoms, problems


def _definite_conj(f: Func) -> bool:
    """The returned predicate is a conjunction (AAnd) of *definite* (ADef) atoms."""
    n_def = sum(1 for n in f.all_nodes() if isinstance(n, ast.Call) and last_name(n) == "ADef")
    n_emp = sum(1 for n in f.all_nodes() if isinstance(n, ast.Call) and last_name(n) == "is_empty")
    has_or = any(isinstance(n, ast.Call) and last_name(n) in ("AOr", "AMay", "ANot") for n in f.all_nodes())
    has_and = any(isinstance(n, ast.Call) and last_name(n) == "AAnd" for n in f.all_nodes())
    return n_def >= n_emp and has_and and not has_or


def _show(a: Atom) -> str:
    k, (x, i), (y, j) = a
    return f"{x}{i} {'∩' if k == 'isct' else '∖'} {y}{j} = ∅"


def rule_predspec(ctx, prop: str) -> RuleResult:
    ix = ctx.ix
    res = RuleResult("PREDSPEC")
    m = ix.module(NE)
    for name, want in SPEC.items():
        f = m.func(name)
        res.analysed.append(f"{NE}:{name}")
        res.instances += 1
        res.nontrivial += 1
        have, probs = _atoms(f)
        if probs:
            raise AnalysisError(f"PREDSPEC: cannot read the shape of {name}: {probs[0]}")
        missing = want - have
        extra = have - want
        ok = not missing
        res.ob(ok)
        res.sample(f"{name}: " + "; ".join(sorted(_show(a) for a in have)))
        for a in sorted(missing):
            res.add(Finding("PREDSPEC", NE, f.lineno, name, _show(a), f"{name} no longer requires `{_show(a)}`: two effects that conflict in exactly this way are reported as commuting / race-free / shadowed, and every rewrite guarded by this predicate becomes unsound"))
        # stronger than the reference is safe (more rejections), only noted
        for a in sorted(extra):
            res.notes.append(f"{name} additionally requires {_show(a)} (stricter than the reference; safe)")
        res.instances += 1
        ok = _definite_conj(f)
        res.ob(ok)
        if not ok:
            res.add(Finding("PREDSPEC", NE, f.lineno, name, "definite-conjunction", f"{name} must be a conjunction (AAnd) of *definitely* (ADef) empty sets: a disjunction / 'maybe' makes the condition hold when the analysis merely cannot tell"))
    # which predicate each check proves
    preds = set(SPEC) | {"Commutes_Fissioning"}
    for cname, need in CHECKUSES.items():
        f = m.func(cname)
        res.analysed.append(f"{NE}:{cname}")
        res.instances += 1
        res.nontrivial += 1
        used = {last_name(n) for n in f.all_nodes() if isinstance(n, ast.Call) and last_name(n) in preds}
        ok = need <= used
        res.ob(ok)
        res.sample(f"{cname} proves {sorted(used)}")
        if not ok:
            res.add(Finding("PREDSPEC", NE, f.lineno, cname, "uses:" + ",".join(sorted(need - used)), f"{cname} no longer proves {sorted(need - used)} (it uses {sorted(used)}): the side condition of the rewrites it guards is weaker than the calculus requires"))
        # the predicate must reach verify()
        res.instances += 1
        ok = any(isinstance(n, ast.Call) and isinstance(n.func, ast.Attribute) and n.func.attr == "verify" for n in f.all_nodes())
        res.ob(ok)
        if not ok:
            res.add(Finding("PREDSPEC", NE, f.lineno, cname, "verify", f"{cname} builds its predicate but never asks the solver"))
    # Check_ParallelizeLoop: distinct iterations (i < i2), both in bounds, over the *body* effects
    f = m.func("Check_ParallelizeLoop")
    res.instances += 1
    res.nontrivial += 1
    from .. import pat

    mm = pat.find("AInt(_M_i) < AInt(_M_j)", f.node)
    ok = mm is not None and ast.unparse(mm[1]["_M_i"]) != ast.unparse(mm[1]["_M_j"]) and pat.has("AForAll([_M_i, _M_j], _M__)", f.node, mm[1])
    res.ob(ok)
    if not ok:
        res.add(Finding("PREDSPEC", NE, f.lineno, "Check_ParallelizeLoop", "forall-i<j", "the race condition must quantify over two *distinct* iterations i < i' of the loop"))
    res.floor = 15
    return res


def rule_checkform(ctx, prop: str) -> RuleResult:
    """Shape of the remaining effect checks used as post-/pre-conditions of rewrites."""
    from .. import pat

    ix = ctx.ix
    res = RuleResult("CHECKFORM")
    m = ix.module(NE)

    def need(ok, f, key, msg, sample=""):
        res.instances += 1
        res.nontrivial += 1
        res.ob(ok)
        if sample:
            res.sample(sample)
        if not ok:
            res.add(Finding("CHECKFORM", NE, f.lineno, f.qualname, key, msg))

    def bound_kind(f: Func, var: str) -> Optional[Tuple[str, str]]:
        """(ES kind, source expression text) of `var = getsets([ES.K], src)[0]`."""
        for n in f.body_nodes():
            if isinstance(n, ast.Assign) and isinstance(n.targets[0], ast.Name) and n.targets[0].id == var:
                v = n.value
                if isinstance(v, ast.Subscript) and isinstance(v.value, ast.Call) and last_name(v.value) == "getsets":
                    ks = [dotted(e).split(".")[-1] for e in v.value.args[0].elts]
                    return ks[0], ast.unparse(v.value.args[1])
        return None

    def src_is(f: Func, var: str, call: str) -> bool:
        for n in f.body_nodes():
            if isinstance(n, ast.Assign) and isinstance(n.targets[0], ast.Name) and n.targets[0].id == var:
                return any(isinstance(x, ast.Call) and last_name(x) == call for x in ast.walk(n.value))
        return False

    # Check_Bounds: every access to the buffer lies in { 0 <= i_k < n_k }
    f = m.func("Check_Bounds")
    res.analysed.append(f"{NE}:Check_Bounds")
    g = pat.find("_M_ok = _M_s.verify(ADef(is_empty(LDiff(_M_acc, _M_alloc))))", f.node)
    need(g is not None, f, "acc∖alloc=∅", "Check_Bounds must prove (accesses to the buffer) ∖ (allocated region) definitely empty")
    if g is not None:
        acc = ast.unparse(g[1]["_M_acc"])
        a2 = pat.find(f"{acc} = LIsct(_M_all, LS.WholeBuf(_M_nm, _M_nd))", f.node)
        ok = a2 is not None and (bound_kind(f, ast.unparse(a2[1]["_M_all"])) or ("", ""))[0] == "ALL"
        need(ok, f, "acc=ALL∩buffer", "the accesses considered must be ALL effects (reads, writes, reductions) on the buffer")
        need(pat.has("AAnd(AInt(0) <= AInt(_M_i), AInt(_M_i) < lift_e(_M_n))", f.node), f, "0<=i<n", "the allocated region is 0 <= i < n in every dimension")
        okv = ast.unparse(g[1]["_M_ok"])
        need(any(isinstance(n, ast.If) and isinstance(n.test, ast.UnaryOp) and ast.unparse(n.test.operand) == okv and any(isinstance(x, ast.Raise) for x in n.body) for n in f.body_nodes()), f, "raise", "an unproved bound must raise")
    # Check_IsDeadAfter: nothing after the statement touches the buffer
    f = m.func("Check_IsDeadAfter")
    res.analysed.append(f"{NE}:Check_IsDeadAfter")
    g = pat.find("_M_ok = _M_s.verify(ADef(is_empty(LIsct(_M_all, _M_buf))))", f.node)
    ok = False
    if g is not None:
        bk = bound_kind(f, ast.unparse(g[1]["_M_all"]))
        ok = bk is not None and bk[0] == "ALL" and src_is(f, bk[1], "get_posteffs") and pat.has(f"{ast.unparse(g[1]['_M_buf'])} = LS.WholeBuf(_M_a, _M_b)", f.node)
    need(ok, f, "post-ALL∩buf=∅", "Check_IsDeadAfter must prove that ALL effects of the code *after* the statement are disjoint from the whole buffer")
    # Check_BufferReduceOnly
    f = m.func("Check_BufferReduceOnly")
    res.analysed.append(f"{NE}:Check_BufferReduceOnly")
    ok = False
    for n in f.body_nodes():
        if isinstance(n, ast.Call) and last_name(n) == "LIsct" and len(n.args) == 2:
            names = [ast.unparse(a) for a in n.args]
            kinds = [bound_kind(f, x) for x in names]
            if any(k is not None and k[0] == "READ_WRITE" for k in kinds):
                ok = True
    ok = ok and any(pat.has("_M_s.verify(ADef(is_empty(_M_x)))", n) for n in [f.node])
    need(ok, f, "READ_WRITE∩buf=∅", "accumulating stage_mem requires that the buffer is only reduced into: READ_WRITE effects on it must be definitely empty")
    # Check_IsIdempotent: Shadows(a, a)
    f = m.func("Check_IsIdempotent")
    g = pat.find("Shadows(_M_a, _M_a)", f.node)
    need(g is not None and pat.has("_M_s.verify(ADef(Shadows(_M_a, _M_a)))", f.node), f, "Shadows(a,a)", "idempotence is `a` shadowing itself, definitely")
    res.floor = 7
    return res


def rule_ctxshape(ctx, prop: str) -> RuleResult:
    """Path conditions: every Check_* reasons under the control predicate of the focused
    statement and guards effects by branch conditions / loop bounds.  Polarity matters:
    then-branch under cond, else-branch under NOT cond, loop body under lo <= i < hi."""
    from .. import pat

    ix = ctx.ix
    res = RuleResult("CTXSHAPE")
    m = ix.module(NE)

    def need(ok, f, key, msg, sample=""):
        res.instances += 1
        res.nontrivial += 1
        res.ob(ok)
        if sample:
            res.sample(sample)
        if not ok:
            res.add(Finding("CTXSHAPE", NE, f.lineno, f.qualname, key, msg))

    BDS = "AAnd(lift_e(_M_s.lo) <= AInt(_M_s.iter), AInt(_M_s.iter) < lift_e(_M_s.hi))"
    f = m.func("ContextExtraction.ctrlp_s")
    res.analysed.append(f"{NE}:{f.qualname}")
    need(pat.has_seq("_M_p = self.ctrlp_stmts(_M_s.body)\nif _M_p is not None:\n    return AAnd(lift_e(_M_s.cond), _M_p)", f.node), f, "then:cond", "a statement in the then-branch runs under the branch condition")
    need(pat.has_seq("_M_p = self.ctrlp_stmts(_M_s.orelse)\nif _M_p is not None:\n    return AAnd(ANot(lift_e(_M_s.cond)), _M_p)", f.node), f, "else:not-cond", "a statement in the else-branch runs under the *negated* condition")
    need(pat.has(BDS, f.node), f, "loop:lo<=i<hi", "a statement in a loop body runs under lo <= i < hi")
    f = m.func("ContextExtraction.posteff_s")
    res.analysed.append(f"{NE}:{f.qualname}")
    need(pat.has_seq("_M_e = self.posteff_stmts(_M_s.body)\nif _M_e is not None:\n    return [E.Guard(lift_e(_M_s.cond), _M_e)]", f.node), f, "post-then:cond", "effects after a statement in the then-branch are guarded by the condition")
    need(pat.has_seq("_M_e = self.posteff_stmts(_M_s.orelse)\nif _M_e is not None:\n    return [E.Guard(ANot(lift_e(_M_s.cond)), _M_e)]", f.node), f, "post-else:not-cond", "effects after a statement in the else-branch are guarded by the negated condition")
    f = m.func("ContextExtraction.get_control_predicate")
    need(pat.has("AAnd(*[lift_e(_M_p) for _M_p in self.proc.preds])", f.node), f, "preds-assumed", "the procedure's assertions are assumed")
    need(pat.has("AInt(_M_a.name) > AInt(0)", f.node), f, "sizes>0", "size arguments are assumed positive (> 0, not >= 0)")
    f = m.func("stmts_effs")
    res.analysed.append(f"{NE}:stmts_effs")
    need(pat.has("E.Guard(lift_e(_M_s.cond), stmts_effs(_M_s.body))", f.node), f, "eff-then:cond", "effects of the then-branch are guarded by the condition")
    need(pat.has("E.Guard(ANot(lift_e(_M_s.cond)), stmts_effs(_M_s.orelse))", f.node), f, "eff-else:not-cond", "effects of the else-branch are guarded by the negated condition")
    need(pat.has("_M_b = " + BDS, f.node) and pat.has("E.Loop(_M_s.iter, [E.Guard(_M_b, _M_body)])", f.node), f, "eff-loop:bounds", "effects of a loop body are quantified over lo <= i < hi")
    res.floor = 10
    return res


def rule_envshadow(ctx, prop: str) -> RuleResult:
    """Environments are ordered lists of bindings; a later binding of a name shadows an
    earlier one (the same callee formal bound at two call sites, a window re-bound in a
    nested scope).  Every fold of `.bindings` into a dictionary must therefore let the
    later binding win: plain item stores, no `setdefault`, no store guarded by
    `name not in <dict>`; folds that build nested lets must run over `reversed(...)`
    so that the first binding ends up outermost."""
    ix = ctx.ix
    res = RuleResult("ENVSHADOW")
    m = ix.module(NE)
    n_folds = 0
    for f in m.funcs.values():
        if not isinstance(f.node, ast.FunctionDef):
            continue
        for loop in f.body_nodes():
            if not (isinstance(loop, ast.For) and ".bindings" in ast.unparse(loop.iter)):
                continue
            n_folds += 1
            res.instances += 1
            res.nontrivial += 1
            res.analysed.append(f"{NE}:{f.qualname}")
            rev = ast.unparse(loop.iter).startswith("reversed(")
            bad = None
            builds_let = any(isinstance(x, ast.Call) and last_name(x) in ("ALet", "ALetTuple", "ALetStride") for s in loop.body for x in ast.walk(s))
            for s in loop.body:
                for x in ast.walk(s):
                    if isinstance(x, ast.Call) and isinstance(x.func, ast.Attribute) and x.func.attr == "setdefault":
                        bad = (x, "setdefault keeps the FIRST binding of a name")
                    if isinstance(x, ast.If):
                        t = x.test
                        for c in ast.walk(t):
                            if isinstance(c, ast.Compare) and len(c.ops) == 1 and isinstance(c.ops[0], ast.NotIn):
                                d = ast.unparse(c.comparators[0])
                                if any(isinstance(y, ast.Assign) and isinstance(y.targets[0], ast.Subscript) and ast.unparse(y.targets[0].value) == d for b in x.body for y in ast.walk(b)):
                                    bad = (x, f"the store into `{d}` is skipped when the name is already bound")
            if builds_let and not rev:
                bad = (loop, "nested lets are built in definition order: the first binding ends up innermost and shadows the later ones")
            ok = bad is None
            res.ob(ok)
            res.sample(f"{f.qualname}: fold over `{ast.unparse(loop.iter)}` lets the later binding win: {ok}")
            if not ok:
                node, how = bad
                res.add(
                    Finding("ENVSHADOW", NE, node.lineno, f.qualname, ast.unparse(loop.iter),
                            f"{f.qualname}: {how} — two calls of one sub-procedure in a block bind the same formal twice; the second call's accesses are attributed to the "
                            f"first call's window, so a race (or an out-of-bounds / non-commuting access) of the second call is judged on the wrong locations")
                )
    # the join of two environments knows the configuration names of BOTH (every return path of
    # AEnv.__add__, including the "compression" shortcut)
    c_ = m.cls("AEnv")
    add = c_.methods.get("__add__") if c_ else None
    if add is None:
        raise AnalysisError("anchor vanished: AEnv.__add__")
    ps = [p for p in add.params()]
    stores = [n for n in add.body_nodes() if isinstance(n, ast.Assign) and any(isinstance(t, ast.Attribute) and t.attr == "names" for t in n.targets)]
    if not stores:
        raise AnalysisError("anchor vanished: `result.names = ...` in AEnv.__add__")
    for n in stores:
        res.instances += 1
        res.nontrivial += 1
        txt = ast.unparse(n.value)
        ok = all(f"{p}.names" in txt for p in ps[:2])
        res.ob(ok)
        res.sample(f"AEnv.__add__: `{ast.unparse(n)[:70]}` keeps the names of both operands: {ok}")
        if not ok:
            res.add(
                Finding("ENVSHADOW", NE, n.lineno, "AEnv.__add__", "join-names",
                        f"`{ast.unparse(n)[:80]}`: the joined environment forgets the configuration names of one operand; at the enclosing if/for the forgotten field counts as unchanged by the "
                        f"block, so delete_config / write_config accept a change of a value that is read later and report an empty set of modified fields")
            )
    if n_folds < 3:
        raise AnalysisError(f"ENVSHADOW: expected >= 3 folds over `.bindings` in new_eff.py, found {n_folds}")
    res.floor = 3
    return res
