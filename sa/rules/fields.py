"""PRINTFIELDS / UNIFY-FIELDS / COMPARE-FIELDS: per-constructor field coverage.

In the case for constructor K of a translator/comparer, every *semantic* field of
K must be read from (each of) the subject(s).  A field never read means the
printer drops a construct, or two different nodes compare/unify as equal.
"""
from __future__ import annotations

import ast
from dataclasses import dataclass, field
from typing import Dict, List, Optional, Set, Tuple

from ..dispatch import find_chains, resolve_subject
from ..index import AnalysisError, dotted
from ..report import Finding, RuleResult

METHOD_FIELD = {"basetype": "type", "shape": "hi"}


@dataclass
class FieldSpec:
    rule: str
    file: str
    qualname: str
    subjects: Tuple[str, ...]  # all must read the field (e.g. ("s1","s2"))
    adt: str
    sum: Optional[str]  # None: product type given in `product`
    product: Optional[str] = None
    ignore: Dict[Tuple[str, str], str] = field(default_factory=dict)  # (K, field) -> reason ; K may be "*"
    props: Tuple[str, ...] = ()
    also_funcs: Tuple[str, ...] = ()  # helper functions whose reads of the subject count (called with the subject)
    only_kinds: Optional[Tuple[str, ...]] = None  # restrict to fields of these ADT types (child fields)
    chain_subject: Optional[str] = None  # dispatch is on this variable ...
    chain_adt: Optional[str] = None  # ... over this ADT; fields are those of the same-named ctor in `adt`


P = "src/exo/core/LoopIR_pprint.py"
L = "src/exo/core/LoopIR.py"
U = "src/exo/rewrite/LoopIR_unification.py"
PM = "src/exo/frontend/pattern_match.py"

_ANNOT = "type annotation derivable from the declaration; not part of the surface syntax"

SPECS: List[FieldSpec] = [
    FieldSpec("PRINTFIELDS", P, "_print_stmt", ("stmt",), "LoopIR", "stmt", ignore={
        ("Assign", "type"): _ANNOT, ("Reduce", "type"): _ANNOT,
        ("Free", "type"): "Free is backend-internal (never parsed back); printed as free(name)",
        ("Free", "mem"): "as above",
    }, props=("C17",)),
    FieldSpec("PRINTFIELDS", P, "_print_expr", ("e",), "LoopIR", "expr", props=("C17",)),
    FieldSpec("PRINTFIELDS", P, "_print_type", ("t",), "LoopIR", "type", props=("C17",)),
    FieldSpec("PRINTFIELDS", P, "_print_w_access", ("node",), "LoopIR", "w_access", props=("C17",)),
    FieldSpec("PRINTFIELDS", P, "_print_proc", ("p",), "LoopIR", None, "proc", ignore={
        ("proc", "instr"): "only c_instr is shown (as a comment); c_global is not surface syntax",
    }, props=("C17",)),
    FieldSpec("PRINTFIELDS", P, "_print_fnarg", ("a",), "LoopIR", None, "fnarg", props=("C17",)),
    # structural comparison used as a rewrite guard (join_loops)
    FieldSpec("CMPFIELDS", L, "LoopIR_Compare.match_s", ("s1", "s2"), "LoopIR", "stmt", ignore={
        ("For", "loop_mode"): "annotation only: sequential semantics are identical",
        ("Alloc", "mem"): "annotation only",
        ("Free", "*"): "Free does not exist before the backend",
    }, props=("C01",)),
    FieldSpec("CMPFIELDS", L, "LoopIR_Compare.match_e", ("e1", "e2"), "LoopIR", "expr", props=("C01",)),
    # effect extraction: every child of every node contributes its effects
    FieldSpec("EFFFIELDS", "src/exo/rewrite/new_eff.py", "expr_effs", ("e",), "LoopIR", "expr", only_kinds=("expr", "w_access"), props=("C01", "C09")),
    FieldSpec("EFFFIELDS", "src/exo/rewrite/new_eff.py", "stmts_effs", ("s",), "LoopIR", "stmt", only_kinds=("expr", "stmt"), ignore={
        ("Free", "*"): "Free does not exist before the backend",
    }, props=("C01", "C09")),
    # front-end bounds effects: every expression child contributes its reads
    FieldSpec("EFFFIELDS", "src/exo/frontend/boundscheck.py", "CheckBounds.eff_e", ("e",), "LoopIR", "expr", only_kinds=("expr",), ignore={
        ("Read", "idx"): "index positions hold index-typed expressions (no buffer reads); they are lifted into the location",
        ("WindowExpr", "idx"): "index positions hold index-typed expressions (no buffer reads)",
    }, props=("C03",)),
    # unification
    FieldSpec("UNIFYFIELDS", U, "Unification.unify_stmts", ("ps", "bs"), "LoopIR", "stmt", ignore={
        ("For", "loop_mode"): "annotation only",
        ("Alloc", "mem"): "annotation only (memory checked by the backend at the call boundary)",
        ("Free", "*"): "Free does not exist before the backend",
        ("Assign", "type"): _ANNOT, ("Reduce", "type"): _ANNOT,
    }, props=("C05",), also_funcs=("unify_types", "unify_accesses", "unify_e", "unify_affine_e", "check_buf_name", "check_configfield")),
    FieldSpec("UNIFYFIELDS", U, "Unification.unify_e", ("pe", "be"), "LoopIR", "expr", props=("C05",),
              also_funcs=("unify_types", "unify_accesses", "unify_e", "unify_affine_e", "check_buf_name", "check_configfield")),
    # pattern matching
    FieldSpec("MATCHFIELDS", PM, "PatternMatch.match_stmt", ("pat",), "PAST", "stmt", ignore={
        ("S_Hole", "*"): "hole matches anything",
        ("Call", "args"): "documented: a call pattern `f(_)` matches on the callee name only",
    }, props=("C16",), chain_subject="stmt", chain_adt="LoopIR"),
    FieldSpec("MATCHFIELDS", PM, "PatternMatch.match_e", ("pat",), "PAST", "expr", ignore={
        ("E_Hole", "*"): "hole matches anything",
    }, props=("C16",), chain_subject="e", chain_adt="LoopIR"),
]


def _reads(body: List[ast.stmt], subj: str, extra_stmts: List[ast.stmt] = ()) -> Set[str]:
    out: Set[str] = set()
    for s in list(body) + list(extra_stmts):
        for n in ast.walk(s):
            if isinstance(n, ast.Attribute) and dotted(n.value) == subj:
                out.add(METHOD_FIELD.get(n.attr, n.attr))
    return out


def _whole_passed(body: List[ast.stmt], subj: str) -> Set[str]:
    """Names of functions the whole subject node is handed to."""
    out: Set[str] = set()
    for s in body:
        for n in ast.walk(s):
            if isinstance(n, ast.Call) and any(isinstance(a, ast.Name) and a.id == subj for a in n.args):
                f = n.func
                out.add(f.attr if isinstance(f, ast.Attribute) else getattr(f, "id", ""))
    return out


def rule_fields(ctx, prop: str) -> List[RuleResult]:
    ix, adts = ctx.ix, ctx.adts
    results: Dict[str, RuleResult] = {}
    for sp in SPECS:
        if prop not in sp.props:
            continue
        res = results.setdefault(sp.rule, RuleResult(sp.rule))
        f = ix.func(sp.file, sp.qualname)
        res.analysed.append(f"{sp.file}:{sp.qualname}")
        adtmod = adts.adt_for(sp.adt, f.module)
        if adtmod is None:
            raise AnalysisError(f"ADT {sp.adt} not found for {sp.qualname}")
        adt_key = next(k for k, v in adts.mods.items() if v is adtmod)
        res.floor += 1
        if sp.sum is None:
            # product type: whole function body is the case
            K = sp.product
            res.instances += 1
            res.nontrivial += 1
            for fld in adtmod.ctor(K).fields:
                if fld.name == "srcinfo" or (K, fld.name) in sp.ignore or (K, "*") in sp.ignore:
                    continue
                for subj in sp.subjects:
                    ok = fld.name in _reads(f.node.body, subj)
                    res.ob(ok)
                    if not ok:
                        res.add(Finding(sp.rule, sp.file, f.lineno, sp.qualname, f"{K}.{fld.name}", f"field `{fld.name}` of {sp.adt}.{K} is never read from `{subj}`: it cannot influence the result"))
            res.sample(f"{sp.qualname}: product {K}, fields {[x.name for x in adtmod.ctor(K).fields]}")
            continue
        csubj = sp.chain_subject or sp.subjects[0]
        cadt_mod = adts.adt_for(sp.chain_adt, f.module) if sp.chain_adt else adtmod
        cadt_key = next(k for k, v in adts.mods.items() if v is cadt_mod)
        subjects = list(sp.subjects)
        if len(subjects) == 1 and not sp.chain_subject:
            # a single dispatched node: its variable's name is a hint (it may have been renamed)
            csubj = resolve_subject(f, adts, csubj, cadt_key, sp.sum)
            subjects = [csubj]
        chains = [ch for ch in find_chains(f, adts) if ch.subject == csubj]
        chains = [ch for ch in chains if any(a == cadt_key and cadt_mod.ctors[c].sum == sp.sum for a, c in ch.covered())]
        if not chains:
            raise AnalysisError(f"anchor vanished: dispatch on `{csubj}` over {sp.adt}.{sp.sum} in {sp.qualname}")
        # statements executed before the chain (common prelude) count as reads too
        for ch in chains:
            prelude: List[ast.stmt] = []
            for s in ch.container:
                if getattr(s, "lineno", 0) < ch.lineno:
                    prelude.append(s)
            unguarded = {k for ch2 in chains for c2 in ch2.cases if not c2.guarded for k in c2.ctors}
            for case in ch.cases:
                for a, K in sorted(case.ctors):
                    if case.guarded and (a, K) in unguarded:
                        # a narrowed pre-case (e.g. bool/stride holes); the general case
                        # for K is checked on its own
                        continue
                    if a != cadt_key or cadt_mod.ctors[K].sum != sp.sum:
                        continue
                    if K not in adtmod.ctors:
                        continue  # e.g. WindowStmt / WindowExpr have no pattern constructor
                    res.instances += 1
                    flds = [x for x in adtmod.ctor(K).fields if x.name != "srcinfo" and (K, x.name) not in sp.ignore and (K, "*") not in sp.ignore]
                    if sp.only_kinds is not None:
                        flds = [x for x in flds if x.type in sp.only_kinds]
                    if flds:
                        res.nontrivial += 1
                    for subj in subjects:
                        reads = _reads(case.body, subj) | _reads([ast.Expr(value=case.test)], subj)
                        handed = _whole_passed(case.body, subj)
                        # a helper that receives the whole node may read its fields
                        helper_reads: Set[str] = set()
                        for hname in handed:
                            if hname in sp.also_funcs or True:
                                hf = None
                                if f.cls:
                                    c = f.module.classes.get(f.cls)
                                    if c is not None:
                                        hf = ix.resolve_method(c, hname)
                                if hf is None:
                                    hf = ix.resolve_name(f.module, hname)
                                if hf is not None and hf is not f:
                                    # map parameter name: position of subj in the call is unknown -> any param
                                    for pn in hf.params():
                                        helper_reads |= _reads(hf.node.body, pn)
                        for fld in flds:
                            ok = fld.name in reads or fld.name in helper_reads
                            res.ob(ok)
                            if not ok:
                                res.add(
                                    Finding(
                                        sp.rule, sp.file, case.lineno, sp.qualname, f"{K}.{fld.name}@{subj}",
                                        f"case {sp.adt}.{K}: field `{fld.name}` is never read from `{subj}` "
                                        + ("— the printer drops it" if sp.rule == "PRINTFIELDS" else ("— accesses made below it are invisible to every commutativity / bounds / race check" if sp.rule == "EFFFIELDS" else "— nodes differing only in it are treated as equal")),
                                    )
                                )
                    res.sample(f"{sp.qualname} case {K}: fields {[x.name for x in flds]} all read from {subjects}")
    return list(results.values())
