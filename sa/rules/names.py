"""FRESHNAME and PREC (DESIGN §3.14)."""
from __future__ import annotations

import ast
from typing import Dict, List, Optional, Set, Tuple

from ..index import AnalysisError, Func, dotted, last_name, norm_stmt, parent
from ..report import Finding, RuleResult

# ---------------------------------------------------------------- FRESHNAME

FRESH_SITES = {
    "C17": [("src/exo/core/LoopIR_pprint.py", "PrintEnv.get_name")],
    "C02": [("src/exo/backend/LoopIR_compiler.py", "Compiler.new_varname")],
    "C15": [("src/exo/backend/LoopIR_compiler.py", "Compiler.new_varname")],
}


def _is_strbuild(v: ast.AST) -> bool:
    for n in ast.walk(v):
        if isinstance(n, ast.JoinedStr):
            return True
        if isinstance(n, ast.BinOp) and isinstance(n.op, ast.Add) and any(isinstance(x, ast.Constant) and isinstance(x.value, str) for x in (n.left, n.right)):
            return True
    return False


def fresh_loops(f: Func) -> List[Tuple[ast.While, str, str]]:
    """(loop, candidate variable, registry text) for `while cand in R:` loops whose
    body builds a new string for cand."""
    out = []
    for n in f.body_nodes():
        if isinstance(n, ast.While) and isinstance(n.test, ast.Compare) and len(n.test.ops) == 1 and isinstance(n.test.ops[0], ast.In):
            if isinstance(n.test.left, ast.Name):
                cand = n.test.left.id
                reg = dotted(n.test.comparators[0])
                builds = any(
                    isinstance(s, ast.Assign) and any(isinstance(t, ast.Name) and t.id == cand for t in s.targets) and _is_strbuild(s.value)
                    for b in n.body
                    for s in ast.walk(b)
                )
                if reg and builds:
                    out.append((n, cand, reg))
    return out


def rule_freshname(ctx, prop: str) -> RuleResult:
    ix = ctx.ix
    res = RuleResult("FRESHNAME")
    # discovery: every fresh-name loop in the scope must be a triaged site
    triaged = {s for sites in FRESH_SITES.values() for s in sites} | {("src/exo/core/LoopIR_pprint.py", "UAST_PPrinter.new_name")}
    for fn in ix.all_funcs():
        if fresh_loops(fn) and (fn.file, fn.qualname) not in triaged:
            res.notes.append(f"untriaged fresh-name search in {fn.file}:{fn.qualname}")
    for file, qn in FRESH_SITES.get(prop, []):
        f = ix.func(file, qn)
        res.analysed.append(f"{file}:{qn}")
        loops = fresh_loops(f)
        # every candidate string built here must be re-tested against the registry before it is
        # issued: the build sits inside a `while <cand> in <registry>` loop
        in_loop = {id(s) for loop, _, _ in loops for b in loop.body for s in ast.walk(b)}
        builds = [
            n
            for n in f.body_nodes()
            if isinstance(n, ast.Assign) and len(n.targets) == 1 and isinstance(n.targets[0], ast.Name) and _is_strbuild(n.value)
        ]
        if not loops and not builds:
            raise AnalysisError(f"anchor vanished: no fresh-name search in {qn}")
        for b in builds:
            res.instances += 1
            ok = id(b) in in_loop
            res.ob(ok)
            if not ok:
                res.add(
                    Finding(
                        "FRESHNAME",
                        file,
                        b.lineno,
                        qn,
                        f"{b.targets[0].id} = <built name>",
                        f"the candidate built here (`{ast.unparse(b)}`) is issued without being re-tested against the names already in "
                        f"use: a symbol whose own name equals the candidate (t_1, t, t) shares its printed identifier",
                    )
                )
        for loop, cand, reg in loops:
            res.instances += 1
            res.nontrivial += 1
            # aliases of cand after the loop: x = cand
            aliases = {cand}
            after = False
            stored = False
            for n in ast.walk(f.node):
                pass
            # walk statements in source order after the loop (same function)
            body_stmts = [s for s in ast.walk(f.node) if isinstance(s, ast.stmt) and getattr(s, "lineno", 0) > loop.end_lineno]
            body_stmts.sort(key=lambda s: s.lineno)
            for s in body_stmts:
                if isinstance(s, ast.Assign):
                    if isinstance(s.value, ast.Name) and s.value.id in aliases:
                        for t in s.targets:
                            if isinstance(t, ast.Name):
                                aliases.add(t.id)
                    for t in s.targets:
                        if isinstance(t, ast.Subscript) and dotted(t.value) == reg:
                            k = t.slice
                            if isinstance(k, ast.Name) and k.id in aliases:
                                stored = True
                if isinstance(s, ast.Expr) and isinstance(s.value, ast.Call):
                    c = s.value
                    if isinstance(c.func, ast.Attribute) and dotted(c.func.value) == reg and c.func.attr in ("add", "setdefault", "__setitem__") and c.args:
                        if isinstance(c.args[0], ast.Name) and c.args[0].id in aliases:
                            stored = True
            res.ob(stored)
            res.sample(f"{qn}: candidate `{cand}` searched in `{reg}`; issued name recorded in the registry: {stored}")
            if not stored:
                res.add(
                    Finding(
                        "FRESHNAME",
                        file,
                        loop.lineno,
                        qn,
                        f"while {cand} in {reg}",
                        f"the identifier finally chosen (`{cand}`) is never inserted into `{reg}`: a later symbol whose own name equals an issued "
                        f"candidate (a, a, a_1) receives the same text — two distinct variables print identically",
                    )
                )
    if prop == "C17":
        # the printed text also mentions names that are NOT variables — the procedures it calls, memories,
        # configs, externs — and they are resolved in the scope the text is parsed in.  A variable that is issued
        # one of those names captures it (`for callee in seq(0, 2): callee(x[...])` does not parse back).  The
        # registry of taken names has to be seeded with them before the first variable is named.
        PP_ = "src/exo/core/LoopIR_pprint.py"
        m_ = ix.module(PP_)
        seeded = False
        for fn in (g for g in ix.all_funcs() if g.file == PP_):
            for n in fn.body_nodes():
                # a store `<env>.names[<callee / memory / config name>] = ...` or a call reserving such a name
                if isinstance(n, ast.Assign) and isinstance(n.targets[0], ast.Subscript) and ast.unparse(n.targets[0].value).endswith("names"):
                    k_ = ast.unparse(n.targets[0].slice)
                    if ".f.name" in k_ or "mem.name" in k_ or "config.name" in k_:
                        seeded = True
                if isinstance(n, ast.Call) and (last_name(n) or "") in ("reserve", "reserve_name", "reserve_globals"):
                    seeded = True
        res.instances += 1
        res.nontrivial += 1
        res.ob(seeded)
        res.sample(f"the printer's name registry is seeded with the callee / memory / config names the text mentions: {seeded}")
        if not seeded:
            pe = m_.cls("PrintEnv")
            res.add(Finding("FRESHNAME", PP_, pe.node.lineno if pe else 1, "PrintEnv", "globals-not-reserved",
                            "variables are disambiguated against other variables only: the names of called procedures, memories, configs and externs that appear in the same text are not reserved, "
                            "so a variable may be issued one of them — divide_loop(foo, 'i', 4, ['callee', 'ii']) prints `for callee in seq(0, 2): ... callee(x[4 * callee + ii, 0:4])`, which does not parse back"))
    res.floor = len(FRESH_SITES.get(prop, []))
    return res


# --------------------------------------------------------------------- PREC

REF_C = [["or"], ["and"], ["=="], ["<", ">", "<=", ">="], ["+", "-"], ["*", "/", "%"], ["~"]]
REF_PY = [["or"], ["and"], ["<", ">", "<=", ">=", "=="], ["+", "-"], ["*", "/", "%"], ["~"]]

PREC_SITES = {
    "C17": ("src/exo/core/LoopIR_pprint.py", REF_PY, ["_print_expr"], "Python"),
    "C02": ("src/exo/backend/LoopIR_compiler.py", REF_C, ["Compiler.comp_e", "Compiler.comp_cir"], "C"),
}


def _dict_literal(node: ast.AST) -> Optional[Dict[str, int]]:
    if not isinstance(node, ast.Dict):
        return None
    out = {}
    for k, v in zip(node.keys, node.values):
        if isinstance(k, ast.Constant) and isinstance(k.value, str) and isinstance(v, ast.Constant) and isinstance(v.value, int):
            out[k.value] = v.value
        else:
            return None
    return out


def rule_prec(ctx, prop: str) -> RuleResult:
    ix = ctx.ix
    res = RuleResult("PREC")
    file, ref, funcs, lang = PREC_SITES[prop]
    m = ix.module(file)
    tbl_node = m.assigns.get("op_prec")
    tbl = _dict_literal(tbl_node) if tbl_node is not None else None
    if tbl is None:
        raise AnalysisError(f"anchor vanished: op_prec dict literal in {file}")
    res.instances += 1
    res.nontrivial += 1
    res.sample(f"{file}: op_prec = {tbl}")
    # monotone embedding of the reference order
    flat = [op for g in ref for op in g]
    for op in flat:
        ok = op in tbl
        res.ob(ok)
        if not ok:
            res.add(Finding("PREC", file, tbl_node.lineno, "op_prec", f"missing:{op}", f"operator {op!r} has no precedence entry"))
    for gi, g in enumerate(ref):
        vals = {tbl[o] for o in g if o in tbl}
        ok = len(vals) <= 1
        res.ob(ok)
        if not ok:
            res.add(Finding("PREC", file, tbl_node.lineno, "op_prec", "group:" + ",".join(g), f"operators {g} share one precedence level in {lang} but the table separates them: {[(o, tbl.get(o)) for o in g]}"))
        if gi + 1 < len(ref):
            hi = max((tbl[o] for o in g if o in tbl), default=None)
            lo = min((tbl[o] for o in ref[gi + 1] if o in tbl), default=None)
            ok = hi is not None and lo is not None and hi < lo
            res.ob(ok)
            if not ok:
                res.add(
                    Finding("PREC", file, tbl_node.lineno, "op_prec", f"order:{g[0]}<{ref[gi+1][0]}",
                            f"in {lang}, {g} bind weaker than {ref[gi+1]}, the table says {hi} vs {lo}: emitted text re-associates")
                )
    # printing functions
    for qn in funcs:
        f = m.func(qn)
        res.analysed.append(f"{file}:{qn}")
        res.instances += 1
        res.nontrivial += 1
        rec_name = qn.split(".")[-1]
        lp_assigns = [
            n for n in f.body_nodes()
            if isinstance(n, ast.Assign) and isinstance(n.value, ast.Subscript) and dotted(n.value.value) == "op_prec" and len(n.targets) == 1 and isinstance(n.targets[0], ast.Name)
        ]
        if not lp_assigns:
            raise AnalysisError(f"anchor vanished: `<local> = op_prec[...]` in {qn}")
        lp = lp_assigns[0].targets[0].id
        # prec parameter
        params = f.params()
        prec_param = "prec" if "prec" in params else None
        if prec_param is None:
            raise AnalysisError(f"anchor vanished: no `prec` parameter in {qn}")

        def prec_arg(call: ast.Call) -> Optional[ast.expr]:
            for kw in call.keywords:
                if kw.arg == "prec":
                    return kw.value
            # positional: index of prec param (minus self)
            idx = params.index(prec_param) - (1 if params and params[0] == "self" else 0)
            if idx < len(call.args):
                return call.args[idx]
            return None

        seen_l = seen_r = seen_u = False
        for n in f.body_nodes():
            if isinstance(n, ast.Call) and last_name(n) == rec_name and n.args and isinstance(n.args[0], ast.Attribute):
                fld = n.args[0].attr
                pa = prec_arg(n)
                if fld == "lhs":
                    seen_l = True

                    def is_lp(x):
                        return isinstance(x, ast.Name) and x.id == lp

                    def is_lp1(x):
                        return isinstance(x, ast.BinOp) and isinstance(x.op, ast.Add) and is_lp(x.left) and isinstance(x.right, ast.Constant) and x.right.value == 1

                    vals = [pa]
                    if isinstance(pa, ast.Name) and pa.id != lp:
                        vals = [k.value for k in f.body_nodes() if isinstance(k, ast.Assign) and len(k.targets) == 1 and dotted(k.targets[0]) == pa.id]
                    level_ok = bool(vals) and all(is_lp(v) or is_lp1(v) or (isinstance(v, ast.IfExp) and {True} == {is_lp(b) or is_lp1(b) for b in (v.body, v.orelse)}) for v in vals)
                    res.ob(level_ok)
                    if not level_ok:
                        res.add(Finding("PREC", file, n.lineno, qn, "lhs-prec", f"left operand printed with precedence `{ast.unparse(pa) if pa else None}` instead of the operator's own level: a lower-precedence left operand loses its parentheses"))
                    if lang == "Python":
                        # Python comparisons are not left-associative: `a < b == c` is the CHAIN
                        # (a < b) and (b == c).  A comparison that is the left operand of a comparison
                        # must keep its parentheses: level + 1 for the comparison operators.
                        chain_ok = bool(vals) and all(
                            is_lp1(v) or (isinstance(v, ast.IfExp) and is_lp1(v.body) and any(isinstance(c, ast.Constant) and c.value in ("<", "==") for c in ast.walk(v.test)))
                            for v in vals
                        )
                        res.ob(chain_ok)
                        if not chain_ok:
                            res.add(Finding("PREC", file, n.lineno, qn, "lhs-compare-chain",
                                            "a comparison printed as the left operand of a comparison loses its parentheses: `(i < j) == (j < 3)` is printed `i < j == (j < 3)`, "
                                            "which Python reads as the chained comparison `i < j and j == (j < 3)` — the printed text does not parse back to the procedure"))
                elif fld == "rhs":
                    seen_r = True
                    ok = (
                        isinstance(pa, ast.BinOp) and isinstance(pa.op, ast.Add) and isinstance(pa.left, ast.Name) and pa.left.id == lp
                        and isinstance(pa.right, ast.Constant) and pa.right.value == 1
                    )
                    res.ob(ok)
                    if not ok:
                        res.add(Finding("PREC", file, n.lineno, qn, "rhs-prec", f"right operand printed with precedence `{ast.unparse(pa) if pa else None}` instead of level+1: `a - (b - c)` prints as `a - b - c`"))
                elif fld == "arg":
                    seen_u = True
                    ok = isinstance(pa, ast.Subscript) and dotted(pa.value) == "op_prec" and isinstance(pa.slice, ast.Constant) and pa.slice.value == "~"
                    res.ob(ok)
                    if not ok:
                        res.add(Finding("PREC", file, n.lineno, qn, "usub-prec", "operand of unary minus printed without the unary precedence: `-(a + b)` prints as `-a + b`"))
        for seen, what in ((seen_l, "lhs"), (seen_r, "rhs"), (seen_u, "arg")):
            res.ob(seen)
            if not seen:
                res.add(Finding("PREC", file, f.lineno, qn, f"no-rec-{what}", f"no recursive printing of `.{what}` with a precedence found"))
        # parenthesisation
        paren = False
        for n in f.body_nodes():
            if isinstance(n, ast.If) and isinstance(n.test, ast.Compare) and len(n.test.ops) == 1:
                l, r = n.test.left, n.test.comparators[0]
                if isinstance(n.test.ops[0], ast.Lt) and isinstance(l, ast.Name) and l.id == lp and isinstance(r, ast.Name) and r.id == prec_param:
                    txt = "".join(ast.unparse(s) for s in n.body)
                    if "(" in txt and ")" in txt:
                        paren = True
                if isinstance(n.test.ops[0], ast.Gt) and isinstance(r, ast.Name) and r.id == lp and isinstance(l, ast.Name) and l.id == prec_param:
                    txt = "".join(ast.unparse(s) for s in n.body)
                    if "(" in txt and ")" in txt:
                        paren = True
        res.ob(paren)
        if not paren:
            res.add(Finding("PREC", file, f.lineno, qn, "parenthesise", f"no `if {lp} < {prec_param}: s = '(' + s + ')'` found: sub-expressions are never parenthesised"))
    res.floor = 1 + len(funcs)
    return res


def rule_printparse(ctx, prop: str) -> RuleResult:
    """Writer / reader agreement on argument annotations.  The parser refuses a memory
    annotation (`@ MEM`) on some argument types (`parse_arg_type`: branches that raise
    "should not be annotated with memory locations"); the printer of LoopIR procedures
    (`_print_fnarg`) must print exactly those types WITHOUT a memory, or the printed text
    of a procedure with such an argument cannot be parsed again."""
    ix = ctx.ix
    res = RuleResult("PRINTPARSE")
    PP = "src/exo/core/LoopIR_pprint.py"
    PY = "src/exo/frontend/pyparser.py"
    pf = ix.func(PP, "_print_fnarg")
    pa = ix.module(PY).cls("Parser").methods.get("parse_arg_type")
    if pa is None:
        raise AnalysisError("anchor vanished: Parser.parse_arg_type")
    res.analysed += [f"{PP}:_print_fnarg", f"{PY}:Parser.parse_arg_type"]
    # reader: kinds whose branch rejects a memory annotation
    refused = set()
    for n in pa.body_nodes():
        if isinstance(n, ast.If) and isinstance(n.test, ast.Call) and isinstance(n.test.func, ast.Name) and n.test.func.id.startswith("_is_"):
            kind = n.test.func.id[len("_is_"):]
            for k in ast.walk(ast.Module(body=n.body, type_ignores=[])):
                if isinstance(k, ast.If) and "mem_node is not None" in ast.unparse(k.test) and any(isinstance(x, ast.Call) and last_name(x) == "err" for x in ast.walk(k)):
                    refused.add(kind)
    # writer: kinds printed without a memory
    bare = set()
    mem_is_numeric_only = False
    for n in pf.body_nodes():
        if isinstance(n, ast.If) and isinstance(n.test, ast.Compare) and isinstance(n.test.ops[0], ast.Eq):
            t = ast.unparse(n.test.comparators[0])
            if t.startswith("T.") and all("mem" not in ast.unparse(s) for s in n.body):
                bare.add(t[2:])
        if isinstance(n, ast.IfExp) and "is_numeric" in ast.unparse(n.test) and "mem" in ast.unparse(n.body):
            mem_is_numeric_only = True
    if not refused or (not bare and not mem_is_numeric_only):
        raise AnalysisError(f"PRINTPARSE: could not recognise the argument-kind cases (parser refuses {sorted(refused)}, printer bare {sorted(bare)})")
    for kind in sorted(refused):
        res.instances += 1
        res.nontrivial += 1
        ok = kind in bare or (mem_is_numeric_only and kind in ("size", "index", "bool", "stride"))
        res.ob(ok)
        res.sample(f"argument kind `{kind}`: parser refuses `@ MEM`; printer omits it: {ok}")
        if not ok:
            res.add(
                Finding("PRINTPARSE", PP, pf.lineno, "_print_fnarg", f"mem-on-{kind}",
                        f"an argument of type `{kind}` is printed with a memory annotation (`b: {kind} @ DRAM`: the type checker gives every argument a memory) but the parser rejects "
                        f"`@ MEM` on `{kind}`: the printed text of such a procedure cannot be parsed again")
            )
    res.floor = 2
    return res


def rule_precsource(ctx, prop: str) -> RuleResult:
    """`PrecisionAnalysis` must take the precision of every numeric read and of every window
    expression from the DECLARATION of the buffer it names (`self.get_type(e.name)`), never
    from the annotation stored on the node: scheduling keeps the stored annotations current
    only for uses that name the re-typed buffer directly (a window of a window keeps a stale
    one).  In `map_e`, each of the cases Read and WindowExpr contains a `get_type` lookup,
    governed by nothing but the constructor dispatch and an `is_numeric()` test."""
    from ..boolform import atoms as bf_atoms, to_form

    ix = ctx.ix
    res = RuleResult("PRECSOURCE")
    PA_ = "src/exo/backend/prec_analysis.py"
    f = ix.module(PA_).cls("PrecisionAnalysis").methods.get("map_e")
    if f is None:
        raise AnalysisError("anchor vanished: PrecisionAnalysis.map_e")
    res.analysed.append(f"{PA_}:PrecisionAnalysis.map_e")
    seen = set()
    for call in f.body_nodes():
        if not (isinstance(call, ast.Call) and isinstance(call.func, ast.Attribute) and call.func.attr == "get_type"):
            continue
        conds = []
        kind = None
        x, p = call, parent(call)
        while p is not None and p is not f.node:
            if isinstance(p, ast.If):
                in_body = any(x is s_ for s_ in p.body)
                for a in bf_atoms(to_form(p.test)):
                    if a.startswith("isinstance("):
                        if in_body and ("LoopIR.Read" in a or "LoopIR.WindowExpr" in a):
                            kind = "Read" if "LoopIR.Read" in a else "WindowExpr"
                        continue
                    conds.append((a, in_body))
            x, p = p, parent(p)
        if kind is None:
            continue
        seen.add(kind)
        res.instances += 1
        res.nontrivial += 1
        extra = [a for a, pos in conds if not (pos and a.endswith(".is_numeric()"))]
        ok = not extra
        res.ob(ok)
        res.sample(f"map_e case {kind}: declaration lookup governed only by dispatch / is_numeric(): {ok}")
        if not ok:
            res.add(
                Finding("PRECSOURCE", PA_, call.lineno, "PrecisionAnalysis.map_e", f"{kind}:{extra[0][:40]}",
                        f"in the {kind} case the precision is looked up from the declaration only when `{extra[0]}` holds; otherwise the annotation stored on the node is trusted — "
                        f"after `y = x[0:8]; z = y[0:4]; set_precision(p, 'x', 'f64')` the stale f32 on `y[0:4]` is believed and an f64 window is passed as `struct exo_win_1f32`")
            )
    for kind in ("Read", "WindowExpr"):
        res.instances += 1
        ok = kind in seen
        res.ob(ok)
        if not ok:
            res.add(Finding("PRECSOURCE", PA_, f.lineno, "PrecisionAnalysis.map_e", f"{kind}:no-lookup", f"the {kind} case of PrecisionAnalysis.map_e never looks the precision up from the declaration"))
    res.floor = 4
    return res


def rule_printscope(ctx, prop: str) -> RuleResult:
    """The printer's name environment has two maps that must be scoped TOGETHER: `env`
    (symbol -> issued name) and `names` (names reserved in the scope chain).  If `env`
    outlives the scope while the reservation in `names` is popped, a symbol bound again
    later gets its cached name without reserving it and a different symbol nested inside
    receives the same name.  So: `PrintEnv.push` is the only place that builds a child
    environment, it makes a child of BOTH maps, and every statement printer that opens a
    scope (For body, If branches) gets its environment from `.push()`."""
    ix = ctx.ix
    res = RuleResult("PRINTSCOPE")
    PP = "src/exo/core/LoopIR_pprint.py"
    m = ix.module(PP)
    push = m.cls("PrintEnv").methods.get("push")
    if push is None:
        raise AnalysisError("anchor vanished: PrintEnv.push")
    res.instances += 1
    res.nontrivial += 1
    ok = any(
        isinstance(k, ast.Call) and last_name(k) == "PrintEnv" and len(k.args) == 2
        and all(isinstance(a, ast.Call) and isinstance(a.func, ast.Attribute) and a.func.attr == "new_child" for a in k.args)
        and {dotted(a.func.value) for a in k.args} == {"self.env", "self.names"}
        for k in push.body_nodes()
    )
    res.ob(ok)
    res.sample(f"PrintEnv.push makes a child of both maps: {ok}")
    if not ok:
        res.add(Finding("PRINTSCOPE", PP, push.lineno, "PrintEnv.push", "push-both", "PrintEnv.push must return PrintEnv(self.env.new_child(), self.names.new_child()): both maps scoped together"))
    for f in m.funcs.values():
        if not isinstance(f.node, ast.FunctionDef) or f is push:
            continue
        for k in f.body_nodes():
            if isinstance(k, ast.Call) and last_name(k) == "PrintEnv" and (k.args or k.keywords):
                res.instances += 1
                res.nontrivial += 1
                res.ob(False)
                res.add(
                    Finding("PRINTSCOPE", PP, k.lineno, f.qualname, ast.unparse(k)[:50],
                            f"{f.qualname} builds a name environment by hand (`{ast.unparse(k)[:60]}`) instead of `env.push()`: the symbol->name map and the reserved names are no longer "
                            f"scoped together — after fission, a loop iterator bound twice keeps its cached name unreserved and a nested `i` is printed as `i` too")
                )
    # scope-opening statement cases use push()
    for qn in ("_print_stmt", "_print_cursor_stmt"):
        g = m.funcs.get(qn)
        if g is None:
            continue
        res.analysed.append(f"{PP}:{qn}")
        n_push = sum(1 for k in g.body_nodes() if isinstance(k, ast.Call) and isinstance(k.func, ast.Attribute) and k.func.attr == "push")
        res.instances += 1
        ok = n_push >= 3  # If body, If orelse, For body
        res.ob(ok)
        res.sample(f"{qn}: {n_push} scopes opened with push() (If body, If orelse, For body)")
        if not ok:
            res.add(Finding("PRINTSCOPE", PP, g.lineno, qn, "scopes", f"{qn} opens {n_push} scopes with env.push(); the bodies of If (both branches) and For each need their own"))
    # the loop iterator is named IN the environment its body is printed with: the name chosen for it and
    # the reservation of that name must be visible to everything bound inside the body.  Named in one child
    # environment and the body printed in another, a nested `i` gets the same printed name as the enclosing one
    for qn in ("_print_stmt", "_print_cursor_stmt"):
        g = m.funcs.get(qn)
        if g is None:
            continue
        for n in g.body_nodes():
            if not (isinstance(n, ast.If) and "LoopIR.For" in ast.unparse(n.test)):
                continue
            res.instances += 1
            res.nontrivial += 1
            namers = [k for st in n.body for k in ast.walk(st) if isinstance(k, ast.Call) and isinstance(k.func, ast.Attribute) and k.func.attr in ("get_name", "new_name") and k.args and ast.unparse(k.args[0]).endswith(".iter")]
            blocks = [k for st in n.body for k in ast.walk(st) if isinstance(k, ast.Call) and last_name(k) in ("_print_block", "_print_cursor_block") and len(k.args) >= 2]
            ok = bool(namers) and bool(blocks)
            why = "the iterator is not named here (moved into a helper?)" if not namers else ""
            if ok:
                envs_n = {ast.unparse(k.func.value) for k in namers}
                pushes = {k.targets[0].id for st in n.body for k in ast.walk(st) if isinstance(k, ast.Assign) and isinstance(k.targets[0], ast.Name) and isinstance(k.value, ast.Call) and isinstance(k.value.func, ast.Attribute) and k.value.func.attr == "push"}
                # the environment argument of the block printer: the argument that is an environment
                # (a name bound to `.push()`, or a `.push()` call, or the enclosing `env` itself)
                envs_b = set()
                for k in blocks:
                    cand = [ast.unparse(a) for a in k.args[1:] if (isinstance(a, ast.Name) and (a.id in pushes or a.id == "env")) or (isinstance(a, ast.Call) and isinstance(a.func, ast.Attribute) and a.func.attr == "push")]
                    envs_b |= set(cand) if cand else {"<none>"}
                ok = len(envs_n) == 1 and envs_n == envs_b and envs_n <= pushes
                why = f"iterator named in `{sorted(envs_n)}`, body printed with `{sorted(envs_b)}`, child environments bound to names: {sorted(pushes)}"
            res.ob(ok)
            res.sample(f"{qn} For: iterator named in the one child environment its body is printed with: {ok}")
            if not ok:
                res.add(Finding("PRINTSCOPE", PP, n.lineno, qn, "for-iter-env",
                                f"{qn}, For case: {why}. The iterator's name and its reservation must live in the single `env.push()` that the body is printed with; otherwise a symbol of the same "
                                f"name bound inside the body (add_loop with the enclosing name, an inlined callee's loop) is printed with the enclosing iterator's name — silent capture on re-parse"))
    res.floor = 3
    return res


def rule_printsym(ctx, prop: str) -> RuleResult:
    """Every symbol the printer writes into text goes through the name environment.

    `PrintEnv.get_name` / `new_name` (and the UAST printer's methods of the same names) are
    the only source of *disambiguated* names: a Sym that clashes with another Sym in scope is
    issued `x_1`.  A Sym-typed ADT field (`sym name`, `sym iter`) that is interpolated into the
    printed text directly (`f"stride({e.name}, ...)"`, `str(e.name)`) prints the raw base name,
    which inside a scope with a clash names the OTHER variable — the text re-parses and
    re-prints identically but denotes a different procedure.
    The type of the field is taken from the ADT through the governing `isinstance` test."""
    ix, adts = ctx.ix, ctx.adts
    res = RuleResult("PRINTSYM")
    PP = "src/exo/core/LoopIR_pprint.py"
    m = ix.module(PP)
    WRAP = {"get_name", "new_name"}
    PARAM_TYPES = {"fnarg": "fnarg"}  # function-name fragment -> product type of its first node parameter
    # read and confirmed: not part of the text of a procedure
    TRIAGED = {
        ("_print_type", "raw:WindowType.src_buf"): "debug rendering of a T.Window *type* (`Window(src_type=..,src_buf=..)`): the type of a window statement's right-hand side is never "
        "printed in a procedure (WindowStmt prints `name = rhs`; allocation and argument types are T.Tensor), so this text is never re-parsed",
    }

    def sym_field(adt: str, ctor: str, attr: str) -> Optional[bool]:
        mod = adts[adt]
        outs = []
        for k in adts.expand(adt, ctor):
            c = mod.ctors.get(k)
            if c is None:
                continue
            for f in c.fields:
                if f.name == attr:
                    outs.append(f.type == "sym")
        return any(outs) if outs else None

    def governing_types(node: ast.AST, var: str, f: Func):
        out = []
        p = node
        while p is not None and p is not f.node:
            par = parent(p)
            if isinstance(par, ast.If) and any(p is s for s in par.body):
                for k in ast.walk(par.test):
                    if isinstance(k, ast.Call) and dotted(k.func) == "isinstance" and len(k.args) == 2 and isinstance(k.args[0], ast.Name) and k.args[0].id == var:
                        cs = k.args[1].elts if isinstance(k.args[1], ast.Tuple) else [k.args[1]]
                        for c in cs:
                            r = adts.resolve_ctor(c, m)
                            if r:
                                out.append(r)
                if out:
                    return out
            p = par
        return out

    def stringified(n: ast.AST, f: Func) -> Optional[ast.AST]:
        par = parent(n)
        if isinstance(par, ast.FormattedValue):
            return par
        if isinstance(par, ast.Call) and n in par.args and dotted(par.func) in ("str", "repr", "format"):
            return par
        if isinstance(par, ast.BinOp) and isinstance(par.op, (ast.Add, ast.Mod)):
            return par
        if isinstance(par, ast.Assign) and par.value is n and len(par.targets) == 1 and isinstance(par.targets[0], ast.Name):
            nm = par.targets[0].id
            for k in f.body_nodes():
                if isinstance(k, ast.Name) and k.id == nm and isinstance(k.ctx, ast.Load) and k.lineno > par.lineno:
                    s = stringified(k, f)
                    if s is not None:
                        return s
        return None

    n_wrapped = 0
    for f in sorted(ix.all_funcs(), key=lambda f: f.lineno):
        if f.file != PP:
            continue
        for n in f.body_nodes():
            if not (isinstance(n, ast.Attribute) and isinstance(n.ctx, ast.Load) and isinstance(n.value, ast.Name)):
                continue
            par = parent(n)
            if isinstance(par, ast.Call) and par.func is n:
                continue  # method call  x.name()
            var, attr = n.value.id, n.attr
            if var == "self":
                continue
            types = governing_types(n, var, f)
            if not types:
                ps = [a for a in f.params() if a != "self"]
                for frag, prod in PARAM_TYPES.items():
                    if frag in f.qualname and ps and ps[0] == var:
                        for adt_name in ("LoopIR", "UAST"):
                            if adt_name in adts.mods and prod in adts[adt_name].ctors:
                                types.append((adt_name, prod))
            if not types:
                continue
            is_sym = [sym_field(a, c, attr) for a, c in types]
            if not any(x for x in is_sym if x):
                continue
            res.instances += 1
            res.nontrivial += 1
            wrapped = isinstance(par, ast.Call) and n in par.args and last_name(par) in WRAP
            if wrapped:
                n_wrapped += 1
                res.ob(True)
                continue
            s = stringified(n, f)
            ok = s is None
            if not ok and (f.qualname, f"raw:{types[0][1]}.{attr}") in TRIAGED:
                res.ob(True)
                res.sample(f"triaged: {f.qualname} `{ast.unparse(n)}` — {TRIAGED[(f.qualname, f'raw:{types[0][1]}.{attr}')][:80]}")
                continue
            res.ob(ok)
            if not ok:
                res.add(Finding("PRINTSYM", PP, n.lineno, f.qualname, f"raw:{types[0][1]}.{attr}",
                                f"`{ast.unparse(s)[:70]}` writes the symbol `{ast.unparse(n)}` ({types[0][1]}.{attr}: sym) into the printed text without `get_name`: when the symbol was "
                                f"renamed because another variable of the same name is in scope (x_1 after inline), the text names the other variable"))
    res.sample(f"{n_wrapped} symbol fields reach the text through get_name/new_name")
    if n_wrapped < 20:
        raise AnalysisError(f"PRINTSYM: only {n_wrapped} get_name/new_name-wrapped symbol fields recognised in the printer — idiom changed, checker blind")
    res.floor = 20
    return res


def rule_validname(ctx, prop: str) -> RuleResult:
    """Every name a user hands to a scheduling operation (new loop iterators, buffer names,
    `rename`) and every Sym passes `is_valid_name`.  The printer writes such a name verbatim into
    Python syntax, so the test must admit exactly identifiers that can stand there: the whole
    string matches (`\\Z` or fullmatch — `$` also matches before a trailing newline) and it is not
    a Python keyword.  Otherwise `divide_loop(p, 'i', 4, ['in', 'if'])` returns a procedure that
    has no printed form at all (the formatter raises)."""
    import re as _re

    try:
        import re._parser as sre_parse
    except Exception:  # pragma: no cover
        import sre_parse
    ix = ctx.ix
    res = RuleResult("VALIDNAME")
    PR = "src/exo/core/prelude.py"
    m = ix.module(PR)
    f = m.funcs.get("is_valid_name")
    if f is None:
        raise AnalysisError("anchor vanished: prelude.is_valid_name")
    res.analysed.append(f"{PR}:is_valid_name")
    # the pattern it matches
    pats = []
    meth = None
    for n in f.body_nodes():
        if isinstance(n, ast.Call) and isinstance(n.func, ast.Attribute) and n.func.attr in ("match", "fullmatch", "search") and isinstance(n.func.value, ast.Name):
            meth = n.func.attr
            src = m.assigns.get(n.func.value.id)
            if isinstance(src, ast.Call) and src.args and isinstance(src.args[0], ast.Constant) and isinstance(src.args[0].value, str):
                pats.append(src.args[0].value)
    if not pats:
        raise AnalysisError("anchor vanished: is_valid_name no longer matches a compiled module-level pattern")
    res.instances += 1
    res.nontrivial += 1
    items = list(sre_parse.parse(pats[0]))
    last = items[-1] if items else None
    whole = meth == "fullmatch" or (last is not None and str(last[0]) == "AT" and "END_STRING" in str(last[1]))
    res.ob(whole)
    res.sample(f"is_valid_name: `{pats[0]}` ({meth}) consumes the whole string: {whole}")
    if not whole:
        res.add(Finding("VALIDNAME", PR, f.lineno, "is_valid_name", "whole-string",
                        f"`{pats[0]}` with .{meth}() does not require the whole string to be an identifier (`$` also matches before a trailing newline): 'io\\n' is accepted as a loop name and the procedure cannot be printed"))
    res.instances += 1
    res.nontrivial += 1
    kw = any(isinstance(n, ast.Call) and (dotted(n.func) or "").split(".")[-1].lstrip("_") == "iskeyword" for n in f.body_nodes())
    res.ob(kw)
    res.sample(f"is_valid_name rejects Python keywords: {kw}")
    if not kw:
        res.add(Finding("VALIDNAME", PR, f.lineno, "is_valid_name", "keywords",
                        "is_valid_name accepts Python keywords: divide_loop(p, 'i', 4, ['in', 'if']) returns a procedure whose text `for in in seq(...)` is not Python — it has no printed form"))
    # Sym construction goes through it
    sy = m.cls("Sym")
    init = sy.methods.get("__init__") if sy else None
    res.instances += 1
    ok = init is not None and any(isinstance(n, ast.Call) and last_name(n) == "is_valid_name" for n in init.body_nodes())
    res.ob(ok)
    if not ok:
        res.add(Finding("VALIDNAME", PR, (init or f).lineno, "Sym.__init__", "sym-checked", "Sym.__init__ must validate its name with is_valid_name"))
    res.floor = 3
    return res
