"""Backend pipeline rules: BACKPIPE, PAREMIT, PARCHECK (DESIGN §3.14)."""
from __future__ import annotations

import ast
from typing import Dict, List, Optional, Set, Tuple

from ..flow import Analysis, Engine, always_raises, nonempty_test
from ..index import AnalysisError, dotted, last_name, norm_stmt, parent
from ..report import Finding, RuleResult

COMP = "src/exo/backend/LoopIR_compiler.py"


def _calls_inner_first(e: ast.AST) -> List[str]:
    out: List[str] = []

    def rec(n):
        for ch in ast.iter_child_nodes(n):
            rec(ch)
        if isinstance(n, ast.Call):
            f = n.func
            # Class().method(...)  ->  Class.method
            if isinstance(f, ast.Attribute) and isinstance(f.value, ast.Call):
                base = dotted(f.value.func)
                if base:
                    out.append(f"{base}.{f.attr}")
                    return
            d = dotted(f)
            if d:
                out.append(d)

    rec(e)
    return out


class Chains(Analysis):
    """var -> tuple of calls its value has passed through (⊤ = None on disagreement)."""

    def __init__(self, site_pred):
        self.site_pred = site_pred
        self.sites: List[Tuple[ast.Call, Dict[str, Optional[Tuple[str, ...]]]]] = []

    def initial(self):
        return {}

    def copy(self, st):
        return dict(st)

    def join(self, a, b):
        out = {}
        for k in set(a) | set(b):
            if k in a and k in b and a[k] == b[k]:
                out[k] = a[k]
            else:
                # keep the common prefix-free intersection: conservative = what both agree on
                va, vb = a.get(k), b.get(k)
                if va is None or vb is None:
                    out[k] = None
                else:
                    out[k] = tuple(x for x in va if x in vb)
        return out

    def _chain_of(self, e: ast.AST, st) -> Tuple[str, ...]:
        base: Tuple[str, ...] = ()
        for n in ast.walk(e):
            if isinstance(n, ast.Name) and st.get(n.id):
                if len(st[n.id]) > len(base):
                    base = st[n.id]
        calls = [c for c in _calls_inner_first(e)]
        return base + tuple(calls)

    def _sites(self, node, st):
        for n in ast.walk(node):
            if isinstance(n, ast.Call) and self.site_pred(n):
                self.sites.append((n, dict(st)))

    def stmt(self, node, st):
        if isinstance(node, (ast.FunctionDef, ast.ClassDef)):
            return st
        self._sites(node, st)
        if isinstance(node, ast.Assign) and len(node.targets) == 1:
            t = node.targets[0]
            if isinstance(t, ast.Name):
                st = dict(st)
                st[t.id] = self._chain_of(node.value, st)
            elif isinstance(t, ast.Tuple):
                st = dict(st)
                ch = self._chain_of(node.value, st)
                for el in t.elts:
                    if isinstance(el, ast.Name):
                        st[el.id] = ch
        return st

    def test(self, expr, st):
        self._sites(expr, st)
        return st

    def bind(self, target, source, st, kind):
        if kind == "for" and source is not None:
            st = dict(st)
            ch = self._chain_of(source, st) + ("<iter>",)
            for n in ast.walk(target):
                if isinstance(n, ast.Name):
                    st[n.id] = ch
        return st


REQUIRED_PIPE = {
    "C09": ["ParallelAnalysis.run"],
    "C15": ["ParallelAnalysis.run", "PrecisionAnalysis.run", "WindowAnalysis.apply_proc", "MemoryAnalysis.run"],
    "C08": ["MemoryAnalysis.run"],
    "C02": ["PrecisionAnalysis.run", "WindowAnalysis.apply_proc", "MemoryAnalysis.run"],
}


def rule_backpipe(ctx, prop: str) -> RuleResult:
    ix = ctx.ix
    res = RuleResult("BACKPIPE")
    f = ix.func(COMP, "compile_to_strings")
    res.analysed.append(f"{COMP}:compile_to_strings")
    need = REQUIRED_PIPE.get(prop, REQUIRED_PIPE["C15"])

    an = Chains(lambda c: dotted(c.func) == "Compiler")
    Engine(an).run(f.node)
    if not an.sites:
        raise AnalysisError("anchor vanished: no Compiler(...) construction in compile_to_strings")
    last = {}
    for call, st in an.sites:
        last[id(call)] = (call, st)  # state at the loop fixpoint
    for call, st in last.values():
        res.instances += 1
        res.nontrivial += 1
        arg = call.args[0] if call.args else None
        chain = st.get(arg.id) if isinstance(arg, ast.Name) else None
        chain = chain or ()
        res.sample(f"Compiler({ast.unparse(arg) if arg else ''}) receives value that passed through: {' -> '.join(chain)}")
        # order
        pos = -1
        for stage in need:
            ok = stage in chain[pos + 1 :] if chain else False
            res.ob(ok)
            if ok:
                pos = chain.index(stage, pos + 1)
            else:
                res.add(
                    Finding(
                        "BACKPIPE",
                        COMP,
                        call.lineno,
                        "compile_to_strings",
                        f"Compiler<-{stage}",
                        f"the procedure handed to Compiler(...) has not passed through {stage} on every path "
                        f"(or not in the order {' -> '.join(need)}); chain seen: {' -> '.join(chain) or 'none'}",
                    )
                )
        # the loop must range over the transitive closure of sub-procedures
        ok = "find_all_subprocs" in chain
        res.ob(ok)
        if not ok:
            res.add(
                Finding("BACKPIPE", COMP, call.lineno, "compile_to_strings", "Compiler<-find_all_subprocs",
                        "compiled procedures are not drawn from find_all_subprocs(proc_list): sub-procedures would escape the backend checks")
            )
    # who may construct a Compiler
    for fn in ix.all_funcs():
        for n in fn.body_nodes():
            if isinstance(n, ast.Call) and dotted(n.func) == "Compiler" and not (fn.file == COMP and fn.qualname == "compile_to_strings"):
                res.instances += 1
                res.ob(False)
                res.add(Finding("BACKPIPE", fn.file, n.lineno, fn.qualname, "Compiler(...)",
                                "Compiler constructed outside compile_to_strings: code generation without the backend analyses"))
    res.floor = 1
    return res


def rule_paremit(ctx, prop: str) -> RuleResult:
    """`#pragma omp parallel for` is emitted only under a test of the loop mode;
    LoopIR.Par() is created only by the typechecker (from ParRange) and by
    DoParallelizeLoop."""
    ix, adts = ctx.ix, ctx.adts
    res = RuleResult("PAREMIT")
    # (1) pragma sites
    n_pragma = 0
    for fn in ix.all_funcs():
        if not fn.file.startswith("src/exo/backend") and not fn.file.startswith("src/exo/core"):
            continue
        for n in fn.body_nodes():
            if isinstance(n, ast.Constant) and isinstance(n.value, str) and "#pragma omp parallel" in n.value:
                n_pragma += 1
                res.instances += 1
                res.nontrivial += 1
                # walk up to an enclosing If testing isinstance(<x>.loop_mode, LoopIR.Par)
                p = n
                ok = False
                while p is not None and p is not fn.node:
                    par = parent(p)
                    if isinstance(par, ast.If) and p in par.body:
                        t = par.test
                        if (
                            isinstance(t, ast.Call)
                            and dotted(t.func) == "isinstance"
                            and len(t.args) == 2
                            and isinstance(t.args[0], ast.Attribute)
                            and t.args[0].attr == "loop_mode"
                            and adts.resolve_ctor(t.args[1], fn.module) == ("LoopIR", "Par")
                        ):
                            ok = True
                            break
                    p = par
                res.ob(ok)
                res.sample(f"{fn.qualname}: pragma emission guarded by loop_mode test: {ok}")
                if not ok:
                    res.add(Finding("PAREMIT", fn.file, n.lineno, fn.qualname, "#pragma omp parallel",
                                    "parallel pragma emitted on a path not guarded by isinstance(<loop>.loop_mode, LoopIR.Par)"))
    if n_pragma == 0:
        raise AnalysisError("anchor vanished: no '#pragma omp parallel' emission found")
    # (2) constructors of Par
    allowed = {("src/exo/frontend/typecheck.py", "TypeChecker.check_single_stmt"), ("src/exo/rewrite/LoopIR_scheduling.py", "DoParallelizeLoop")}
    n_par = 0
    for fn in ix.all_funcs():
        for n in fn.body_nodes():
            if isinstance(n, ast.Call) and adts.resolve_ctor(n.func, fn.module) == ("LoopIR", "Par"):
                n_par += 1
                res.instances += 1
                ok = (fn.file, fn.qualname) in allowed
                res.ob(ok)
                if not ok:
                    res.add(Finding("PAREMIT", fn.file, n.lineno, fn.qualname, "LoopIR.Par()",
                                    "a Par loop mode is minted outside the typechecker (ParRange) and parallelize_loop"))
    if n_par < 2:
        raise AnalysisError(f"PAREMIT: expected >= 2 constructions of LoopIR.Par(), found {n_par}")
    res.floor = 3
    return res


def rule_parcheck(ctx, prop: str) -> RuleResult:
    """ParallelAnalysis: every Par loop is handed to Check_ParallelizeLoop, a failing
    check is recorded, and recorded errors abort compilation."""
    ix, adts = ctx.ix, ctx.adts
    res = RuleResult("PARCHECK")
    m = ix.module("src/exo/backend/parallel_analysis.py")
    c = m.cls("ParallelAnalysis")
    ms = c.methods.get("map_s")
    run = c.methods.get("run")
    if ms is None or run is None:
        raise AnalysisError("anchor vanished: ParallelAnalysis.map_s / run")
    res.analysed += [f"{m.rel}:ParallelAnalysis.map_s", f"{m.rel}:ParallelAnalysis.run"]
    subj = ms.params()[1]
    # (a) the check call exists, takes the node, and sits under a Par test that
    #     is not narrowed by anything else
    calls = [n for n in ms.body_nodes() if isinstance(n, ast.Call) and last_name(n) == "Check_ParallelizeLoop"]
    res.instances += 1
    res.nontrivial += 1
    ok = bool(calls)
    res.ob(ok)
    if not ok:
        res.add(Finding("PARCHECK", m.rel, ms.lineno, ms.qualname, "Check_ParallelizeLoop", "ParallelAnalysis.map_s never calls Check_ParallelizeLoop"))
    for call in calls:
        res.instances += 1
        has_node = any(dotted(a) == subj for a in call.args)
        res.ob(has_node)
        if not has_node:
            res.add(Finding("PARCHECK", m.rel, call.lineno, ms.qualname, "Check_ParallelizeLoop(args)", f"the loop `{subj}` is not the node being checked"))
        # enclosing conditions
        p = call
        conds: List[ast.expr] = []
        handlers_ok = True
        while p is not None and p is not ms.node:
            par = parent(p)
            if isinstance(par, ast.If):
                conds.append(par.test if p in par.body else ast.UnaryOp(op=ast.Not(), operand=par.test))
            if isinstance(par, ast.Try) and p in par.body:
                for h in par.handlers:
                    # a handler must record an error (or re-raise); `pass` swallows the failure
                    rec = any(isinstance(x, ast.Call) and last_name(x) in ("err",) for s in h.body for x in ast.walk(s)) or always_raises(h.body)
                    if not rec:
                        handlers_ok = False
            p = par
        res.instances += 1
        res.ob(handlers_ok)
        if not handlers_ok:
            res.add(Finding("PARCHECK", m.rel, call.lineno, ms.qualname, "except-swallows", "an exception from Check_ParallelizeLoop is swallowed: a racy loop compiles"))
        # the only admissible conjuncts: isinstance(s, For) and isinstance(s.loop_mode, Par)
        extra = []
        for cnd in conds:
            parts = cnd.values if isinstance(cnd, ast.BoolOp) and isinstance(cnd.op, ast.And) else [cnd]
            for pt in parts:
                good = False
                if isinstance(pt, ast.Call) and dotted(pt.func) == "isinstance" and len(pt.args) == 2:
                    r = adts.resolve_ctor(pt.args[1], m)
                    if dotted(pt.args[0]) == subj and r == ("LoopIR", "For"):
                        good = True
                    if isinstance(pt.args[0], ast.Attribute) and pt.args[0].attr == "loop_mode" and r == ("LoopIR", "Par"):
                        good = True
                if not good:
                    extra.append(ast.unparse(pt))
        res.instances += 1
        res.ob(not extra)
        res.sample(f"Check_ParallelizeLoop reached under: {[ast.unparse(c) for c in conds]}")
        if extra:
            res.add(Finding("PARCHECK", m.rel, call.lineno, ms.qualname, "narrowed:" + ";".join(extra),
                            f"the race check is skipped for Par loops unless {extra}: some parallel loops compile unchecked"))
    # (b) run(): errors abort
    raises = False
    for n in run.body_nodes():
        if isinstance(n, ast.If) and nonempty_test(n.test, "_errors") and always_raises(n.body):
            raises = True
    res.instances += 1
    res.ob(raises)
    if not raises:
        res.add(Finding("PARCHECK", m.rel, run.lineno, run.qualname, "errors->raise", "recorded parallel-analysis errors do not abort compilation"))
    # (c) run() actually applies the rewrite to the proc
    applies = any(isinstance(n, ast.Call) and last_name(n) in ("apply_proc", "map_proc") for n in run.body_nodes())
    res.instances += 1
    res.ob(applies)
    if not applies:
        res.add(Finding("PARCHECK", m.rel, run.lineno, run.qualname, "apply_proc", "ParallelAnalysis.run never traverses the procedure"))
    # (c2) the footprint of a call is that of the callee that is compiled: the body handed to the
    #      effect extraction must not be swapped for an "equivalent" procedure (equivalent procedures
    #      compute the same values but may touch more memory, e.g. after stage_mem)
    ne_ = ix.module("src/exo/rewrite/new_eff.py")
    gsp = ne_.funcs.get("get_simple_proc")
    if gsp is None:
        raise AnalysisError("anchor vanished: new_eff.get_simple_proc")
    res.instances += 1
    res.nontrivial += 1
    swaps = [k for k in gsp.body_nodes() if isinstance(k, ast.Call) and last_name(k) in ("get_repr_proc", "get_strictest_eqv_proc", "find")]
    ok = not swaps
    res.ob(ok)
    res.sample(f"get_simple_proc analyses the called procedure itself: {ok}")
    if not ok:
        res.add(
            Finding("PARCHECK", "src/exo/rewrite/new_eff.py", gsp.lineno, "get_simple_proc", "callee-representative",
                    "the effects of a call are computed from the representative of the callee's equivalence class, not from the callee: after "
                    "f2 = stage_mem(rename(f), ...) (f2 copies the whole window in and out) and call_eqv(caller, 'f(_)', f2), `for i in par(..): f2(x[i:i+4])` "
                    "is judged on f's footprint and compiled with `#pragma omp parallel for` although neighbouring iterations overlap")
        )
    # (d) storage class of allocations inside a parallel body.  The race check treats an
    #     allocation in the loop body as private to the iteration; a memory whose alloc() text
    #     is a `static` declaration is ONE object shared by all threads.  Either no library
    #     memory is static, or the parallel analysis looks at the memory of allocations.
    static_mems = []
    for c2 in ix.all_classes():
        al = c2.methods.get("alloc")
        if al is None or not c2.file.startswith("src/exo/"):
            continue
        for n in al.body_nodes():
            if isinstance(n, ast.Return) and n.value is not None:
                for k in ast.walk(n.value):
                    if isinstance(k, ast.Constant) and isinstance(k.value, str) and k.value.lstrip().startswith("static "):
                        static_mems.append(c2)
    ne = ix.module("src/exo/rewrite/new_eff.py")
    chk = ne.funcs.get("Check_ParallelizeLoop")
    looks_at_mem = any(isinstance(k, ast.Attribute) and k.attr == "mem" for fn in (ms, chk) if fn is not None for k in fn.body_nodes())
    for c2 in static_mems:
        res.instances += 1
        res.nontrivial += 1
        res.ob(looks_at_mem)
        res.sample(f"memory {c2.name} allocates with static storage; the parallel analysis consults the memory of allocations: {looks_at_mem}")
        if not looks_at_mem:
            res.add(
                Finding("PARCHECK", c2.file, c2.node.lineno, c2.name, "static-in-par",
                        f"{c2.name}.alloc emits a `static` declaration, and neither ParallelAnalysis nor Check_ParallelizeLoop looks at the memory of an allocation: "
                        f"`for i in par(..): t: f32[1] @ {c2.name}; t[0] = x[i]; y[i] = t[0]` is accepted as race-free although all threads share the one `static float t[1]`")
            )
    res.floor = 5
    return res
