"""C07 purity rules: MUT, ATTRSTORE, GLOBALSTATE (DESIGN §3.10)."""
from __future__ import annotations

import ast
from typing import Dict, List, Optional, Set, Tuple

from ..flow import Analysis, Engine
from ..index import AnalysisError, Func, Index, Module, dotted, last_name, norm_stmt, parent
from ..report import Finding, RuleResult

MUTATORS = {"append", "extend", "insert", "pop", "remove", "clear", "sort", "reverse", "__setitem__", "__delitem__"}
FRESH_CALLS = {"list", "sorted", "tuple", "set", "dict", "reversed", "zip", "map", "filter", "enumerate", "range", "len", "str", "int", "any", "all", "sum", "min", "max", "frozenset", "isinstance", "type", "id", "iter", "next", "ChainMap"}
MEMO_FUNCS = {"proc_effs", "globenv_proc", "overapprox_proc_effs", "proc_changing_scalars", "get_simple_proc"}
SHARED_RETURNING_METHODS = {"shape"}  # t.shape() returns t.hi itself

T, F = True, False


class Taint(Analysis):
    def __init__(self, seq_fields: Set[str], param_taint: Dict[str, bool], summaries: "Summ", func: Func, outer_env: Dict[str, bool]):
        self.seq = seq_fields
        self.param_taint = param_taint
        self.summ = summaries
        self.func = func
        self.outer = outer_env
        self.sinks: List[Tuple[ast.AST, str, str]] = []  # node, how, what
        self.call_args: List[Tuple[ast.Call, List[bool]]] = []
        self.nested_env: Dict[str, Dict[str, bool]] = {}
        self.ret_taint = False

    def initial(self):
        st = dict(self.outer)
        for p in self.func.params():
            st[p] = self.param_taint.get(p, F)
        return st

    def copy(self, st):
        return dict(st)

    def join(self, a, b):
        out = dict(a)
        for k, v in b.items():
            out[k] = out.get(k, F) or v
        return out

    # ---- expression taint
    def taint(self, e: ast.AST, st) -> bool:
        if isinstance(e, ast.Name):
            return st.get(e.id, F)
        if isinstance(e, ast.Attribute):
            if e.attr in self.seq and not (isinstance(e.value, ast.Name) and e.value.id in ("self", "cls")):
                return T
            return F
        if isinstance(e, ast.Call):
            ln = last_name(e)
            if isinstance(e.func, ast.Attribute):
                if e.func.attr in ("copy",):
                    return F
                if e.func.attr in SHARED_RETURNING_METHODS and not e.args:
                    return T
            if ln == "getattr" and len(e.args) >= 2:
                return T
            if ln in MEMO_FUNCS:
                return T
            if ln in FRESH_CALLS:
                return F
            r = self.summ.returns_shared(self.func, e)
            return bool(r)
        if isinstance(e, ast.IfExp):
            return self.taint(e.body, st) or self.taint(e.orelse, st)
        if isinstance(e, ast.BoolOp):
            return any(self.taint(v, st) for v in e.values)
        if isinstance(e, ast.NamedExpr):
            return self.taint(e.value, st)
        if isinstance(e, ast.Subscript):
            return F  # a slice is a copy; an element is a node, not a list
        if isinstance(e, ast.Starred):
            return F
        return F

    # ---- sinks
    def _check_sinks(self, node: ast.AST, st):
        for n in ast.walk(node):
            if isinstance(n, (ast.FunctionDef, ast.Lambda, ast.ClassDef)) and n is not node:
                continue
            if isinstance(n, ast.Call):
                f = n.func
                if isinstance(f, ast.Attribute) and f.attr in MUTATORS and self.taint(f.value, st):
                    self.sinks.append((n, f".{f.attr}()", ast.unparse(f.value)))
                # record argument taints for summaries
                self.call_args.append((n, [self.taint(a, st) for a in n.args]))

    def stmt(self, node, st):
        if isinstance(node, (ast.FunctionDef, ast.AsyncFunctionDef)):
            # closure: remember the environment visible to the nested function
            prev = self.nested_env.get(node.name)
            env = dict(st)
            if prev:
                for k, v in prev.items():
                    env[k] = env.get(k, F) or v
            self.nested_env[node.name] = env
            return st
        if isinstance(node, ast.ClassDef):
            return st
        self._check_sinks(node, st)
        if isinstance(node, ast.Assign):
            tv = self.taint(node.value, st)
            st = dict(st)
            for t in node.targets:
                st = self._assign(t, node.value, tv, st, node)
            return st
        if isinstance(node, ast.AnnAssign) and node.value is not None:
            st = dict(st)
            return self._assign(node.target, node.value, self.taint(node.value, st), st, node)
        if isinstance(node, ast.AugAssign):
            # x += [...]  mutates the list x is bound to
            if isinstance(node.op, (ast.Add, ast.Mult)) and self.taint(node.target, st):
                self.sinks.append((node, "augmented assignment", ast.unparse(node.target)))
            return st
        if isinstance(node, ast.Delete):
            for t in node.targets:
                if isinstance(t, ast.Subscript) and self.taint(t.value, st):
                    self.sinks.append((node, "del x[i]", ast.unparse(t.value)))
            return st
        if isinstance(node, ast.Return) and node.value is not None:
            if self.taint(node.value, st):
                self.ret_taint = True
        return st

    def _assign(self, target, value, tv, st, node):
        if isinstance(target, ast.Name):
            st[target.id] = tv
        elif isinstance(target, (ast.Tuple, ast.List)):
            if isinstance(value, (ast.Tuple, ast.List)) and len(value.elts) == len(target.elts):
                for t, v in zip(target.elts, value.elts):
                    st = self._assign(t, v, self.taint(v, st), st, node)
            else:
                for t in target.elts:
                    st = self._assign(t, value, F, st, node)
        elif isinstance(target, ast.Subscript):
            if self.taint(target.value, st):
                self.sinks.append((node, "x[i] = ...", ast.unparse(target.value)))
        return st

    def test(self, expr, st):
        self._check_sinks(expr, st)
        # walrus
        for n in ast.walk(expr):
            if isinstance(n, ast.NamedExpr) and isinstance(n.target, ast.Name):
                st = dict(st)
                st[n.target.id] = self.taint(n.value, st)
        return st

    def bind(self, target, source, st, kind):
        st = dict(st)
        for n in ast.walk(target):
            if isinstance(n, ast.Name):
                st[n.id] = F
        return st


class Summ:
    """Inter-procedural summaries by name: parameter taint (any call site passes a
    shared list) and return taint."""

    def __init__(self, ix: Index):
        self.ix = ix
        self.param: Dict[int, Dict[str, bool]] = {}
        self.ret: Dict[int, bool] = {}

    def resolve(self, caller: Func, call: ast.Call) -> Optional[Func]:
        f = call.func
        m = caller.module
        if isinstance(f, ast.Name):
            # nested def in caller (or its outer functions), then module level
            scope: Optional[Func] = caller
            while scope is not None:
                cand = m.funcs.get(f"{scope.qualname}.{f.id}")
                if cand is not None:
                    return cand
                scope = scope.outer
            return self.ix.resolve_name(m, f.id)
        if isinstance(f, ast.Attribute) and isinstance(f.value, ast.Name) and f.value.id in ("self", "cls") and caller.cls:
            c = m.classes.get(caller.cls)
            if c is not None:
                return self.ix.resolve_method(c, f.attr)
        if isinstance(f, ast.Attribute) and isinstance(f.value, ast.Name):
            tgt = m.imports.get(f.value.id)
            if tgt and tgt in self.ix.by_name:
                return self.ix.by_name[tgt].funcs.get(f.attr)
        return None

    def returns_shared(self, caller: Func, call: ast.Call) -> bool:
        g = self.resolve(caller, call)
        if g is None:
            return False
        return self.ret.get(id(g), False)


MUT_SCOPE = ("src/exo/rewrite/", "src/exo/core/", "src/exo/API", "src/exo/frontend/", "src/exo/backend/", "src/exo/stdlib/")

# (file, function, construct) -> reason : confirmed by reading that the list is fresh
MUT_TRIAGE: Dict[Tuple[str, str, str], str] = {}


def rule_mut(ctx, prop: str) -> RuleResult:
    ix, adts = ctx.ix, ctx.adts
    res = RuleResult("MUT")
    seq = set(adts["LoopIR"].seq_field_names()) | set(adts["UAST"].seq_field_names())
    summ = Summ(ix)
    funcs = [f for f in ix.all_funcs() if f.file.startswith(MUT_SCOPE) and isinstance(f.node, (ast.FunctionDef, ast.AsyncFunctionDef))]
    results: Dict[int, Taint] = {}
    outer_envs: Dict[int, Dict[str, bool]] = {}
    for rnd in range(6):
        changed = False
        # outer functions first so closures see their environment
        for f in sorted(funcs, key=lambda f: f.qualname.count(".")):
            env = {}
            if f.outer is not None and id(f.outer) in results:
                env = results[id(f.outer)].nested_env.get(f.node.name, {})
            an = Taint(seq, summ.param.get(id(f), {}), summ, f, env)
            Engine(an).run(f.node)
            results[id(f)] = an
            if an.ret_taint and not summ.ret.get(id(f), False):
                summ.ret[id(f)] = True
                changed = True
            for call, targs in an.call_args:
                if not any(targs):
                    continue
                g = summ.resolve(f, call)
                if g is None:
                    continue
                ps = g.params()
                if ps and ps[0] in ("self", "cls") and isinstance(call.func, ast.Attribute):
                    ps = ps[1:]
                d = summ.param.setdefault(id(g), {})
                for pn, tv in zip(ps, targs):
                    if tv and not d.get(pn, False):
                        d[pn] = True
                        changed = True
        if not changed:
            break
    n_src = 0
    seen = set()
    for f in funcs:
        an = results[id(f)]
        res.analysed.append(f"{f.file}:{f.qualname}")
        if an.sinks or any(any(t) for _, t in an.call_args):
            res.nontrivial += 1
        for node, how, what in an.sinks:
            key = (f.file, f.qualname, f"{how} on {what}")
            if (id(node)) in seen:
                continue
            seen.add(id(node))
            res.instances += 1
            if key in MUT_TRIAGE:
                res.ob(True)
                continue
            res.ob(False)
            res.add(
                Finding(
                    "MUT", f.file, node.lineno, f.qualname, f"{how} on {what}",
                    f"in-place {how} on `{what}`, which is (an alias of) a list stored in an existing IR node — ADT nodes share their child lists between "
                    f"the old and the new tree, so this edits procedures that already exist",
                )
            )
    # count list-typed values examined = instances (sinks) + mutating calls on fresh lists
    n_mut = 0
    for f in funcs:
        for n in f.body_nodes():
            if isinstance(n, ast.Call) and isinstance(n.func, ast.Attribute) and n.func.attr in MUTATORS:
                n_mut += 1
            if isinstance(n, (ast.Delete,)):
                n_mut += 1
            if isinstance(n, ast.Assign) and any(isinstance(t, ast.Subscript) for t in n.targets):
                n_mut += 1
    res.instances += n_mut
    res.obligations += n_mut
    res.discharged += n_mut
    res.notes.append(f"{len(funcs)} functions, {n_mut} list-mutating statements examined, field-name typing over {sorted(seq)}")
    res.sample(f"accepted idiom: x = node.idx.copy(); x[i] = ...  — {n_mut} mutating statements classified")
    res.floor = 300
    return res


# ------------------------------------------------------------------ ATTRSTORE
ATTR_TRIAGE: Dict[Tuple[str, str, str], str] = {
    ("src/exo/main.py", "pythonpath", "sys.path"): "exocc command-line driver: extends the import path, no procedure state",
    ("src/exo/main.py", "exocc", "args.stem"): "argparse namespace of the command-line driver",
    ("src/exo/main.py", "exocc", "args.pythonpath"): "argparse namespace of the command-line driver",
}


def _fresh_locals(f: Func) -> Set[str]:
    """Names bound in f to a freshly constructed object (call result / nested def)."""
    out: Set[str] = set()
    # a call THROUGH a function-valued parameter (of f or of an enclosing function: `fwd`, a callback)
    # may hand its argument straight back — forward_identity's default `fwd` is the identity — so its
    # result is not a fresh object
    fn_params: Set[str] = set()
    g = f
    while g is not None:
        fn_params |= set(g.params())
        g = g.outer
    for n in f.body_nodes():
        if isinstance(n, ast.Assign) and isinstance(n.value, ast.Call):
            if isinstance(n.value.func, ast.Name) and n.value.func.id in fn_params:
                continue
            for t in n.targets:
                if isinstance(t, ast.Name):
                    out.add(t.id)
        if isinstance(n, (ast.FunctionDef, ast.ClassDef)):
            out.add(n.name)
    for n in ast.walk(f.node):
        if isinstance(n, (ast.FunctionDef, ast.ClassDef)) and n is not f.node:
            out.add(n.name)
    return out


def _is_exo_body(f: Func) -> bool:
    d = f.decorators()
    return any(x.split(".")[-1] in ("proc", "instr", "config") for x in d) or (f.outer is not None and _is_exo_body(f.outer))


def _stores(f: Func):
    for n in f.body_nodes():
        tg = []
        if isinstance(n, ast.Assign):
            tg = n.targets
        elif isinstance(n, (ast.AugAssign, ast.AnnAssign)):
            tg = [n.target]
        elif isinstance(n, ast.Delete):
            tg = n.targets
        for t in tg:
            for tt in t.elts if isinstance(t, (ast.Tuple, ast.List)) else [t]:
                yield n, tt


def rule_attrstore(ctx, prop: str) -> RuleResult:
    ix = ctx.ix
    res = RuleResult("ATTRSTORE")
    for f in ix.all_funcs():
        if not isinstance(f.node, (ast.FunctionDef, ast.AsyncFunctionDef)) or _is_exo_body(f):
            continue
        fresh = None
        clsnames = set(f.module.classes)
        for n, tt in _stores(f):
            if not isinstance(tt, ast.Attribute):
                continue
            base = dotted(tt.value)
            res.instances += 1
            if base in ("self",):
                res.ob(True)
                continue
            if base == "cls" or (base and base.split(".")[0] in clsnames):
                res.ob(True)  # class-level state: GLOBALSTATE's business
                continue
            res.nontrivial += 1
            if fresh is None:
                fresh = _fresh_locals(f)
            key = (f.file, f.qualname, ast.unparse(tt))
            ok = (base in fresh) or key in ATTR_TRIAGE
            res.ob(ok)
            res.sample(f"{f.qualname}: `{ast.unparse(tt)} = ...` on {'fresh local' if base in fresh else 'triaged object'}")
            if not ok:
                res.add(
                    Finding("ATTRSTORE", f.file, n.lineno, f.qualname, ast.unparse(tt),
                            f"attribute store on `{base}`, which is neither `self` nor an object constructed in this function: an existing node, cursor or "
                            f"Procedure handed in from outside is modified in place")
                )
    res.floor = 100
    return res


# ---------------------------------------------------------------- GLOBALSTATE
CONTAINER_MUT = {"append", "extend", "insert", "pop", "remove", "clear", "sort", "reverse", "add", "update", "discard", "setdefault", "popitem"}

BENIGN = "benign"
OUTPUT = "output-affecting"
GLOBAL_TRIAGE: Dict[Tuple[str, str, str], Tuple[str, str]] = {
    ("src/exo/backend/prec_analysis.py", "set_default_prec", "_default_prec"): (BENIGN, "explicit, documented user setting (set_default_prec); never written by scheduling or compilation"),
    ("src/exo/core/configs.py", "Config.__init__", "_reverse_symbol_lookup"): (BENIGN, "weak registry keyed by the fresh Syms of a new Config"),
    ("src/exo/core/prelude.py", "Sym.__init__", "Sym._unq_count"): (BENIGN, "fresh-id counter; ids never reach printed or generated text (REPRLEAK)"),
    ("src/exo/core/proc_eqv.py", "new_uf_by_eqv_key", "_UF_Unv_key"): (BENIGN, "provenance store owned by proc_eqv (UFOWN)"),
    ("src/exo/rewrite/new_eff.py", "get_simple_proc", "_simple_proc_cache"): (BENIGN, "memo of a pure function of an immutable proc"),
    ("src/exo/rewrite/new_eff.py", "globenv_proc", "_globenv_proc_cache"): (BENIGN, "memo of a pure function of an immutable proc"),
    ("src/exo/rewrite/new_eff.py", "proc_effs", "_proc_effs_cache"): (BENIGN, "memo of a pure function of an immutable proc"),
    ("src/exo/rewrite/new_eff.py", "proc_changing_scalars", "_proc_changeset_cache"): (BENIGN, "memo of a pure function of an immutable proc"),
    ("src/exo/rewrite/new_eff.py", "overapprox_proc_effs", "_overapprox_proc_cache"): (BENIGN, "memo of a pure function of an immutable proc"),
    # D28: allocation state of static memories lives on the class and is written during compilation
    ("src/exo/core/memory.py", "StaticMemory.init_state", "cls.is_chunk_allocated"): (BENIGN, "(re)initialiser of the free list: run at class creation and by explicit reset only"),
    ("src/exo/core/memory.py", "StaticMemory.mark", "cls.is_chunk_allocated"): (OUTPUT, "free list of a static memory, class-level"),
    ("src/exo/core/memory.py", "StaticMemory.unmark", "cls.is_chunk_allocated"): (OUTPUT, "free list of a static memory, class-level"),
    ("src/exo/libs/memories.py", "AMX_TILE.reset_allocations", "cls.tile_dict"): (BENIGN, "explicit reset helper (the remedy the source's TODO asks callers to apply by hand)"),
    ("src/exo/libs/memories.py", "AMX_TILE.alloc", "cls.tile_dict"): (OUTPUT, "tile numbering, class-level"),
    ("src/exo/libs/memories.py", "AMX_TILE.free", "cls.tile_dict"): (OUTPUT, "tile numbering, class-level"),
}


def global_state_sites(ix: Index):
    """Yield (func, node, target_text) for writes to module- or class-level state."""
    for m in ix.modules.values():
        modnames = {nm for nm, v in m.assigns.items() if isinstance(v, (ast.Dict, ast.List, ast.Set, ast.Call, ast.ListComp, ast.DictComp, ast.SetComp))}
        clsnames = set(m.classes)
        for f in m.funcs.values():
            if not isinstance(f.node, (ast.FunctionDef, ast.AsyncFunctionDef)) or _is_exo_body(f):
                continue
            globs: Set[str] = set()
            local: Set[str] = set(f.params())
            for n in f.body_nodes():
                if isinstance(n, ast.Global):
                    globs |= set(n.names)
                if isinstance(n, ast.Assign):
                    for t in n.targets:
                        if isinstance(t, ast.Name):
                            local.add(t.id)
            local -= globs

            def is_global_base(b: Optional[str]) -> bool:
                if not b:
                    return False
                head = b.split(".")[0]
                if head == "cls":
                    return True
                if head in clsnames and "." in b:
                    return True
                if head in modnames and head not in local:
                    return True
                return False

            for n, tt in _stores(f):
                if isinstance(tt, ast.Name) and tt.id in globs:
                    yield f, n, tt.id
                elif isinstance(tt, ast.Attribute):
                    b = dotted(tt.value)
                    if b == "cls" or (b and b.split(".")[0] in clsnames and b.split(".")[0] not in local):
                        yield f, n, ast.unparse(tt)
                elif isinstance(tt, ast.Subscript):
                    b = dotted(tt.value)
                    if is_global_base(b):
                        yield f, n, b
            for n in f.body_nodes():
                if isinstance(n, ast.Call) and isinstance(n.func, ast.Attribute) and n.func.attr in CONTAINER_MUT:
                    b = dotted(n.func.value)
                    if is_global_base(b):
                        yield f, n, b


def rule_globalstate(ctx, prop: str) -> RuleResult:
    ix = ctx.ix
    res = RuleResult("GLOBALSTATE")
    seen = set()
    for f, n, tgt in global_state_sites(ix):
        key = (f.file, f.qualname, tgt)
        if key in seen:
            continue
        seen.add(key)
        res.instances += 1
        res.nontrivial += 1
        res.analysed.append(f"{f.file}:{f.qualname}")
        tri = GLOBAL_TRIAGE.get(key)
        if tri is None:
            res.ob(False)
            res.add(
                Finding("GLOBALSTATE", f.file, n.lineno, f.qualname, tgt,
                        f"write to process-global state `{tgt}` that is not in the triage table: state that outlives a call can make a later operation or "
                        f"compilation of an *existing* procedure behave differently")
            )
            continue
        kind, why = tri
        res.sample(f"{f.qualname} writes {tgt}: {kind} ({why})")
        if kind == BENIGN:
            res.ob(True)
        else:
            res.ob(False)
            res.add(
                Finding("GLOBALSTATE", f.file, n.lineno, f.qualname, tgt,
                        f"`{tgt}` is class-level allocation state written while a procedure is being compiled; it is never reset per compilation, so a compile that "
                        f"fails between alloc and free leaves it dirty: later compilations of unrelated, existing procedures get different tile numbers or fail")
            )
    res.floor = 12
    return res


def rule_argmut(ctx, prop: str) -> RuleResult:
    """Argument processors of the scheduling API (`ArgumentProcessor` subclasses in
    API_scheduling.py) receive the caller's own objects (cursors, lists of cursors,
    dictionaries): none of their `__call__` / `_cursor_call` methods may update the
    argument in place — element store / delete, mutating method, augmented assignment."""
    ix = ctx.ix
    res = RuleResult("ARGMUT")
    AS_ = "src/exo/API_scheduling.py"
    m = ix.module(AS_)
    base = m.cls("ArgumentProcessor")
    n_meth = 0
    for c in ix.all_classes():
        if c.file != AS_ or not any(k is base for k in ix.mro(c)):
            continue
        for mname in ("__call__", "_cursor_call"):
            f = c.methods.get(mname)
            if f is None:
                continue
            ps = [p for p in f.params() if p != "self"]
            if not ps:
                continue
            arg = ps[0]
            n_meth += 1
            res.instances += 1
            res.analysed.append(f"{AS_}:{f.qualname}")
            # aliases of the argument (plain rebinding `x = arg`); a rebinding of `arg` itself to a
            # fresh object ends the obligation for later statements of that name only if unconditional,
            # which the syntactic check below does not need: it looks at stores THROUGH the name
            bad = None
            rebound_fresh_at = None
            for n in f.body_nodes():
                if isinstance(n, ast.Assign) and len(n.targets) == 1 and isinstance(n.targets[0], ast.Name) and n.targets[0].id == arg and not (isinstance(n.value, ast.Name)):
                    if rebound_fresh_at is None or n.lineno < rebound_fresh_at:
                        # `arg = [ ... ]` / `arg = p.forward(arg)`: later stores go to the new object
                        rebound_fresh_at = n.lineno if isinstance(parent(n), ast.FunctionDef) else rebound_fresh_at
            for n in f.body_nodes():
                if rebound_fresh_at is not None and getattr(n, "lineno", 0) > rebound_fresh_at:
                    continue
                tgt = None
                if isinstance(n, (ast.Assign, ast.AugAssign, ast.Delete)):
                    tgts = n.targets if isinstance(n, (ast.Assign, ast.Delete)) else [n.target]
                    for t in tgts:
                        if isinstance(t, (ast.Subscript, ast.Attribute)) and isinstance(t.value, ast.Name) and t.value.id == arg:
                            tgt = t
                        if isinstance(n, ast.AugAssign) and isinstance(t, ast.Name) and t.id == arg:
                            tgt = t
                if isinstance(n, ast.Call) and isinstance(n.func, ast.Attribute) and n.func.attr in MUTATORS | {"update", "setdefault", "add", "discard"} and isinstance(n.func.value, ast.Name) and n.func.value.id == arg:
                    tgt = n
                if tgt is not None:
                    bad = (n, tgt)
                    break
            ok = bad is None
            res.ob(ok)
            if not ok:
                res.nontrivial += 1
                n, tgt = bad
                res.add(
                    Finding("ARGMUT", AS_, n.lineno, f.qualname, ast.unparse(tgt)[:40],
                            f"{f.qualname} updates the caller's argument `{arg}` in place (`{ast.unparse(n)[:60]}`): after commute_expr(p2, cs) the caller's own list `cs` holds "
                            f"different (forwarded) cursors than before the call")
                )
    res.sample(f"{n_meth} argument-processor methods examined for in-place updates of the argument")
    if n_meth < 20:
        raise AnalysisError(f"ARGMUT: only {n_meth} argument-processor methods found in API_scheduling.py")
    res.floor = 20
    return res
