"""Rule registry: name -> callable(ctx, prop) -> RuleResult | [RuleResult]."""
from . import trav, exh, backend, names, fields, compiler, memory, purity, determinism, patterns, unify, provenance, simplify, frontend, forwarding, guard, layer, instr, predicates, algid, windows


def _trav_scoped(classes, name):
    def f(ctx, prop):
        r = trav.rule_trav(ctx, prop, only_classes=set(classes), rule_name=name)
        r.floor = TRAV_FLOORS.get(name, 0)
        return r

    return f


# classes per property scope (DESIGN §3.2).  Floors = instances confirmed today.
TRAV_C09 = ["ParallelAnalysis"]
TRAV_C15 = ["LoopIR_SubProcs", "LoopIR_FindMems", "LoopIR_FindExterns", "LoopIR_FindConfigs", "PrecisionAnalysis", "WindowAnalysis"]
TRAV_FLOORS = {}

RULES = {
    "TRAV": trav.rule_trav,
    "TRAV@C09": _trav_scoped(TRAV_C09, "TRAV"),
    "TRAV@C15": _trav_scoped(TRAV_C15, "TRAV"),
    "TRAV@C12": _trav_scoped(["DoSimplify", "_DoNormalize"], "TRAV"),
    "TRAV@C01": _trav_scoped(["GetReads", "GetReadConfigs", "GetWrites", "GetWriteConfigs", "GetLoopIters", "FreeVars", "Alpha_Rename", "SubstArgs", "LoopIR_Dependencies", "_FreeVars", "_Is_Alloc_Free", "CheckFoldBuffer", "_OverApproxEffects", "Find_RHS", "Cursor_Rewrite", "DoSimplify", "_DoNormalize", "DoLiftAlloc", "DoAddUnsafeGuard", "DoPartialEval", "BuildEnv", "BuildEnv_after"], "TRAV"),
    "TRAV@C04": _trav_scoped(["FreeVars", "Alpha_Rename", "SubstArgs", "_FreeVars", "_Is_Alloc_Free"], "TRAV"),
    "TRAV@C03": _trav_scoped(["_Check_Aliasing_Helper"], "TRAV"),
    "TRAV@C05": _trav_scoped(["_Find_Mod_Div_Symbols"], "TRAV"),
    "TRAVBASE": trav.rule_travbase,
    "BYPASS": trav.rule_bypass,
    "EXH": exh.rule_exh,
    "FRESHNAME": names.rule_freshname,
    "PREC": names.rule_prec,
    "FIELDS": fields.rule_fields,
    "DIVMOD": compiler.rule_divmod,
    "SCALARREF": compiler.rule_scalarref,
    "WINDOWHOOK": compiler.rule_windowhook,
    "MEMGATE": compiler.rule_memgate,
    "CALLBOUNDARY": compiler.rule_callboundary,
    "TYPETABLES": compiler.rule_typetables,
    "CONSTQ": compiler.rule_constq,
    "MEMPAIR": memory.rule_mempair,
    "FREEONCE": memory.rule_freeonce,
    "WINALIAS@live": memory.rule_winalias_live,
    "ALIASCLOSED": memory.rule_aliasclosed,
    "MUT": purity.rule_mut,
    "ATTRSTORE": purity.rule_attrstore,
    "GLOBALSTATE": purity.rule_globalstate,
    "SETITER": determinism.rule_setiter,
    "SORTEDEMIT": determinism.rule_sortedemit,
    "IDORDER": determinism.rule_idorder,
    "REPRLEAK": determinism.rule_reprleak,
    "SYMORDER": determinism.rule_symorder,
    "CHILDREN": patterns.rule_children,
    "FINDORDER": patterns.rule_findorder,
    "PASTTOTAL": patterns.rule_pasttotal,
    "NOMATCH": patterns.rule_nomatch,
    "ZIPLEN": unify.rule_ziplen,
    "REPLSCOPE": unify.rule_replscope,
    "CALLPRED": unify.rule_callpred,
    "HOLESIB": unify.rule_holesib,
    "BUFBIND": unify.rule_bufbind,
    "CONDSPEC": unify.rule_condspec,
    "FRONTPIPE": frontend.rule_frontpipe,
    "OBLIG": frontend.rule_oblig,
    "BOUNDFORM": frontend.rule_boundform,
    "TYPEDISC": frontend.rule_typedisc,
    "WINALIAS@bounds": frontend.rule_winalias_bounds,
    "NAMECONF": simplify.rule_nameconf,
    "DELGUARD": simplify.rule_delguard,
    "WINCOMPOSE": windows.rule_wincompose,
    "ANNOTSYNC": windows.rule_annotsync,
    "MODGUARD": simplify.rule_modguard,
    "DIVACCOUNT": simplify.rule_divaccount,
    "CFGMOD": provenance.rule_cfgmod,
    "EQVGATE": provenance.rule_eqvgate,
    "CFGSHAPE": provenance.rule_cfgshape,
    "UFOWN": provenance.rule_ufown,
    "EQVSHAPE": provenance.rule_eqvshape,
    "NOPROV": provenance.rule_noprov,
    "INSTRLINT": instr.rule_instrlint,
    "INSTRSPEC": instr.rule_instrspec,
    "ALGID": algid.rule_algid,
    "PREDSPEC": predicates.rule_predspec,
    "CHECKFORM": predicates.rule_checkform,
    "CTXSHAPE": predicates.rule_ctxshape,
    "GUARD": guard.rule_guard,
    "LAYER": layer.rule_layer,
    "VERDICT": layer.rule_verdict,
    "VERDICTUSE": layer.rule_verdictuse,
    "BINDERS": layer.rule_binders,
    "FWDTHREAD": forwarding.rule_fwdthread,
    "FWDHELPERS": forwarding.rule_fwdhelpers,
    "PATHIDX": forwarding.rule_pathidx,
    "FWDSIB": forwarding.rule_fwdsib,
    "FWDPRESENT": provenance.rule_fwdpresent,
    "FWDWALK": provenance.rule_fwdwalk,
    "ANNOTONLY": provenance.rule_annotonly,
    "PREDSONLY": provenance.rule_predsonly,
    "PEVAL": provenance.rule_partialeval,
    "TRAV@C19": _trav_scoped(["DoPartialEval"], "TRAV"),
    "BACKPIPE": backend.rule_backpipe,
    "PAREMIT": backend.rule_paremit,
    "PARCHECK": backend.rule_parcheck,
}
