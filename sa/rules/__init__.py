"""Rule registry: name -> callable(ctx, prop) -> RuleResult | [RuleResult]."""
from . import trav, exh, backend


def _trav_scoped(classes, name):
    def f(ctx, prop):
        r = trav.rule_trav(ctx, prop, only_classes=set(classes), rule_name=name)
        r.floor = TRAV_FLOORS.get(name, 0)
        return r

    return f


# classes per property scope (DESIGN §3.2).  Floors = instances confirmed today.
TRAV_C09 = ["ParallelAnalysis"]
TRAV_C15 = ["LoopIR_SubProcs", "LoopIR_FindMems", "LoopIR_FindExterns", "LoopIR_FindConfigs", "PrecisionAnalysis", "WindowAnalysis"]
TRAV_FLOORS = {}

RULES = {
    "TRAV": trav.rule_trav,
    "TRAV@C09": _trav_scoped(TRAV_C09, "TRAV"),
    "TRAV@C15": _trav_scoped(TRAV_C15, "TRAV"),
    "TRAVBASE": trav.rule_travbase,
    "BYPASS": trav.rule_bypass,
    "EXH": exh.rule_exh,
    "BACKPIPE": backend.rule_backpipe,
    "PAREMIT": backend.rule_paremit,
    "PARCHECK": backend.rule_parcheck,
}
