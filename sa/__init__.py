"""Static analysis of exo-lang/exo: repository-specific checkers.

Everything here reads /repo's *source* (ast only); nothing imports or runs exo.
"""
