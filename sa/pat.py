"""AST patterns with metavariables.

A pattern is Python source in which names starting with `_M_` are metavariables:
  _M_x        matches any expression (consistently: the same metavariable must match
              structurally equal expressions everywhere in one match)
  obj._M_a    an attribute metavariable matches any attribute name
  _M__        (double underscore) anonymous: matches anything, no consistency
Statement bodies match as *subsequences*: extra statements in the target are fine.
This makes rules independent of local variable names and of formatting.
"""
from __future__ import annotations

import ast
from typing import Dict, Iterator, List, Optional

Bind = Dict[str, object]


def _is_mv(name: str) -> bool:
    return isinstance(name, str) and name.startswith("_M_")


def parse_expr(src: str) -> ast.expr:
    return ast.parse(src, mode="eval").body


def parse_stmt(src: str) -> ast.stmt:
    body = ast.parse(src).body
    assert len(body) == 1, "statement pattern must be a single statement"
    return body[0]


def _eq(a, b) -> bool:
    # an identifier bound through an `arg`/`attr`/`name` slot is a plain string
    if isinstance(a, str) and isinstance(b, ast.Name):
        return a == b.id
    if isinstance(b, str) and isinstance(a, ast.Name):
        return b == a.id
    if isinstance(a, ast.AST) and isinstance(b, ast.AST):
        return ast.unparse(a) == ast.unparse(b)  # ignores Load/Store context
    return a == b


def _bind(b: Bind, name: str, val) -> Optional[Bind]:
    if name == "_M__":
        return b
    if name in b:
        return b if _eq(b[name], val) else None
    nb = dict(b)
    nb[name] = val
    return nb


def match(p, t, b: Optional[Bind] = None) -> Optional[Bind]:
    """Match pattern node p against target node t; returns bindings or None."""
    b = {} if b is None else b
    if isinstance(p, ast.Name) and _is_mv(p.id):
        if not isinstance(t, ast.AST):
            return None
        return _bind(b, p.id, t)
    if isinstance(p, ast.Expr) and isinstance(p.value, ast.Name) and _is_mv(p.value.id) and isinstance(t, ast.stmt):
        # a bare metavariable statement matches any statement
        return _bind(b, p.value.id, t)
    if type(p) is not type(t):
        return None
    if isinstance(p, ast.AST):
        for fld in p._fields:
            if fld in ("ctx", "type_comment", "lineno", "col_offset", "end_lineno", "end_col_offset", "kind", "type_ignores"):
                continue
            pv, tv = getattr(p, fld, None), getattr(t, fld, None)
            if fld in ("attr", "arg", "id", "name") and _is_mv(pv):
                b = _bind(b, pv, tv)
                if b is None:
                    return None
                continue
            if isinstance(pv, list):
                if not isinstance(tv, list):
                    return None
                if pv and isinstance(pv[0], ast.stmt):
                    b = _match_subseq(pv, tv, b)
                else:
                    if len(pv) != len(tv):
                        return None
                    for x, y in zip(pv, tv):
                        b = match(x, y, b)
                        if b is None:
                            return None
                if b is None:
                    return None
            elif isinstance(pv, ast.AST):
                if not isinstance(tv, ast.AST):
                    return None
                b = match(pv, tv, b)
                if b is None:
                    return None
            else:
                if pv != tv:
                    return None
        return b
    return b if p == t else None


def _match_subseq(ps: List[ast.stmt], ts: List[ast.stmt], b: Bind) -> Optional[Bind]:
    if not ps:
        return b
    for i, t in enumerate(ts):
        nb = match(ps[0], t, b)
        if nb is not None:
            r = _match_subseq(ps[1:], ts[i + 1 :], nb)
            if r is not None:
                return r
    return None


def find_all(pattern, root: ast.AST, b: Optional[Bind] = None, skip_nested_defs: bool = False) -> Iterator[tuple]:
    """Yield (node, bindings) for every node under root matching the pattern (an
    ast node, or source text: expression if it parses as one, else statement)."""
    if isinstance(pattern, str):
        try:
            pattern = parse_expr(pattern)
        except SyntaxError:
            pattern = parse_stmt(pattern)
    for n in ast.walk(root):
        r = match(pattern, n, b)
        if r is not None:
            yield n, r


def find(pattern, root: ast.AST, b: Optional[Bind] = None):
    for x in find_all(pattern, root, b):
        return x
    return None


def has(pattern, root: ast.AST, b: Optional[Bind] = None) -> bool:
    return find(pattern, root, b) is not None


def find_seq(pattern_src: str, root: ast.AST, b: Optional[Bind] = None):
    """Match a *sequence* of statements (as a subsequence) inside any statement block
    under root.  Returns bindings or None."""
    ps = ast.parse(pattern_src).body
    for n in ast.walk(root):
        for fld in ("body", "orelse", "finalbody"):
            blk = getattr(n, fld, None)
            if isinstance(blk, list) and blk and isinstance(blk[0], ast.stmt):
                r = _match_subseq(ps, blk, dict(b or {}))
                if r is not None:
                    return r
    return None


def has_seq(pattern_src: str, root: ast.AST, b: Optional[Bind] = None) -> bool:
    return find_seq(pattern_src, root, b) is not None
