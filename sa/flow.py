"""Syntax-directed forward dataflow over the structured statements Python has.

An `Analysis` supplies the lattice and transfer functions; the engine handles
if/while/for/try/with/return/raise/break/continue/assert and iterates loops to
a fixpoint.  `None` as a state means "unreachable".
"""
from __future__ import annotations

import ast
from typing import Any, List, Optional


class Analysis:
    MAX_ITERS = 12

    def initial(self) -> Any:
        raise NotImplementedError

    def copy(self, st):
        raise NotImplementedError

    def join(self, a, b):
        raise NotImplementedError

    def equal(self, a, b) -> bool:
        return a == b

    # transfer functions -------------------------------------------------
    def stmt(self, node: ast.stmt, st):
        """Simple statement (Assign, AugAssign, AnnAssign, Expr, Delete, Return
        (value evaluated), Raise, Import, nested def, Global...)."""
        return st

    def test(self, expr: ast.expr, st):
        """An expression evaluated for control (if/while test, for iterable,
        with item)."""
        return st

    def assume(self, expr: ast.expr, truth: bool, st):
        return st

    def bind(self, target: ast.expr, source: Optional[ast.expr], st, kind: str):
        """Loop / with / except target binding."""
        return st

    def on_exit(self, kind: str, node: ast.AST, st) -> None:
        """kind in return | raise | fall ."""

    def enter_loop(self, node, st):
        return st


def is_const_true(e: ast.expr) -> bool:
    return isinstance(e, ast.Constant) and bool(e.value) is True


def always_raises(body: List[ast.stmt]) -> bool:
    """Does this block never complete normally *by raising* (raise / assert False)?"""
    for s in body:
        if isinstance(s, ast.Raise):
            return True
        if isinstance(s, ast.Assert) and isinstance(s.test, ast.Constant) and not s.test.value:
            return True
        if isinstance(s, ast.If) and s.orelse and always_raises(s.body) and always_raises(s.orelse):
            return True
    return False


def always_exits(body: List[ast.stmt]) -> bool:
    """Block never falls through (raise / return / continue / break)."""
    for s in body:
        if isinstance(s, (ast.Raise, ast.Return, ast.Continue, ast.Break)):
            return True
        if isinstance(s, ast.Assert) and isinstance(s.test, ast.Constant) and not s.test.value:
            return True
        if isinstance(s, ast.If) and s.orelse and always_exits(s.body) and always_exits(s.orelse):
            return True
    return False


class Engine:
    def __init__(self, an: Analysis):
        self.an = an
        self.breaks: List[List[Any]] = []
        self.conts: List[List[Any]] = []
        self.exc: List[Any] = []  # stack of joined "state at a possible exception" per try

    def run(self, fnode) -> None:
        st = self.an.initial()
        body = fnode.body if isinstance(fnode.body, list) else [ast.Return(value=fnode.body)]
        out = self.block(body, st)
        if out is not None:
            self.an.on_exit("fall", fnode, out)

    # ------------------------------------------------------------------
    def _j(self, a, b):
        if a is None:
            return b
        if b is None:
            return a
        return self.an.join(a, b)

    def _note_exc(self, st):
        if self.exc and st is not None:
            self.exc[-1] = self._j(self.exc[-1], self.an.copy(st))

    def block(self, stmts: List[ast.stmt], st):
        for s in stmts:
            if st is None:
                return None
            st = self.one(s, st)
        return st

    def one(self, s: ast.stmt, st):
        an = self.an
        if isinstance(s, ast.If):
            st = an.test(s.test, st)
            self._note_exc(st)
            a = self.block(s.body, an.assume(s.test, True, an.copy(st)))
            b = self.block(s.orelse, an.assume(s.test, False, an.copy(st)))
            return self._j(a, b)
        if isinstance(s, ast.While):
            return self.loop(s, st, None)
        if isinstance(s, (ast.For, ast.AsyncFor)):
            st = an.test(s.iter, st)
            self._note_exc(st)
            return self.loop(s, st, s)
        if isinstance(s, (ast.With, ast.AsyncWith)):
            for it in s.items:
                st = an.test(it.context_expr, st)
                if it.optional_vars is not None:
                    st = an.bind(it.optional_vars, it.context_expr, st, "with")
            self._note_exc(st)
            return self.block(s.body, st)
        if isinstance(s, ast.Try) or s.__class__.__name__ == "TryStar":
            self.exc.append(an.copy(st))
            out = self.block(s.body, st)
            exc_st = self.exc.pop()
            if out is not None and s.orelse:
                out = self.block(s.orelse, out)
            outs = out
            for h in s.handlers:
                hst = an.copy(exc_st)
                if h.name:
                    hst = an.bind(ast.Name(id=h.name, ctx=ast.Store()), h.type, hst, "except")
                ho = self.block(h.body, hst)
                outs = self._j(outs, ho)
            if not s.handlers:
                # try/finally: exception propagates after finalbody
                pass
            if s.finalbody:
                if outs is not None:
                    outs = self.block(s.finalbody, outs)
                else:
                    # still analyse it for side effects
                    self.block(s.finalbody, an.copy(exc_st))
            return outs
        if isinstance(s, ast.Return):
            st = an.stmt(s, st)
            an.on_exit("return", s, st)
            return None
        if isinstance(s, ast.Raise):
            st = an.stmt(s, st)
            self._note_exc(st)
            an.on_exit("raise", s, st)
            return None
        if isinstance(s, ast.Assert):
            st = an.test(s.test, st)
            self._note_exc(st)
            if isinstance(s.test, ast.Constant) and not s.test.value:
                an.on_exit("raise", s, st)
                return None
            return an.assume(s.test, True, st)
        if isinstance(s, ast.Break):
            if self.breaks:
                self.breaks[-1].append(an.copy(st))
            return None
        if isinstance(s, ast.Continue):
            if self.conts:
                self.conts[-1].append(an.copy(st))
            return None
        st = an.stmt(s, st)
        self._note_exc(st)
        return st

    def loop(self, s, st, for_node):
        an = self.an
        head = an.enter_loop(s, st)
        exit_st = None
        all_breaks: List[Any] = []
        for _ in range(an.MAX_ITERS):
            self.breaks.append([])
            self.conts.append([])
            h = an.copy(head)
            if for_node is None:
                h = an.test(s.test, h)
                body_in = an.assume(s.test, True, an.copy(h))
                exit_st = None if is_const_true(s.test) else an.assume(s.test, False, an.copy(h))
            else:
                body_in = an.bind(for_node.target, for_node.iter, an.copy(h), "for")
                exit_st = an.copy(h)
            out = self.block(s.body, body_in)
            brs = self.breaks.pop()
            cts = self.conts.pop()
            all_breaks = brs
            back = out
            for c in cts:
                back = self._j(back, c)
            new_head = self._j(an.copy(head), back)
            if an.equal(new_head, head):
                break
            head = new_head
        res = exit_st
        if s.orelse and res is not None:
            res = self.block(s.orelse, res)
        for b in all_breaks:
            res = self._j(res, b)
        return res


def nonempty_test(test: ast.expr, name_part: str) -> bool:
    """Is `test` true exactly when a collection whose name contains name_part is
    non-empty?  Accepts `x`, `len(x) > 0`, `len(x) != 0`, `len(x) >= 1`."""
    def named(e):
        return name_part in ast.unparse(e)

    if isinstance(test, (ast.Name, ast.Attribute)) and named(test):
        return True
    if isinstance(test, ast.Compare) and len(test.ops) == 1 and isinstance(test.left, ast.Call) and getattr(test.left.func, "id", None) == "len" and test.left.args and named(test.left.args[0]):
        c = test.comparators[0]
        if isinstance(c, ast.Constant):
            op = test.ops[0]
            if isinstance(op, (ast.Gt, ast.NotEq)) and c.value == 0:
                return True
            if isinstance(op, ast.GtE) and c.value == 1:
                return True
    return False
