"""Source index: parse every module, record classes / functions / imports.

No imports of the analysed code; plain `ast`.
"""
from __future__ import annotations

import ast
import hashlib
import os
from dataclasses import dataclass, field
from typing import Dict, Iterable, Iterator, List, Optional, Tuple


class AnalysisError(Exception):
    """The analysis itself cannot proceed (missing anchor, unparsable file, ...)."""


def set_parents(tree: ast.AST) -> None:
    for node in ast.walk(tree):
        for ch in ast.iter_child_nodes(node):
            ch._parent = node  # type: ignore[attr-defined]
    tree._parent = None  # type: ignore[attr-defined]


def parent(node):
    return getattr(node, "_parent", None)


def dotted(node) -> Optional[str]:
    """`a.b.c` for Name/Attribute chains, else None."""
    parts = []
    while isinstance(node, ast.Attribute):
        parts.append(node.attr)
        node = node.value
    if isinstance(node, ast.Name):
        parts.append(node.id)
        return ".".join(reversed(parts))
    return None


def call_name(call: ast.Call) -> Optional[str]:
    return dotted(call.func)


def last_name(call: ast.Call) -> Optional[str]:
    f = call.func
    if isinstance(f, ast.Attribute):
        return f.attr
    if isinstance(f, ast.Name):
        return f.id
    return None


def src(node) -> str:
    try:
        return ast.unparse(node)
    except Exception:  # pragma: no cover
        return "<?>"


def norm_stmt(node) -> str:
    """Normalised statement text (first line of unparse, whitespace folded)."""
    t = src(node).strip().split("\n")[0]
    return " ".join(t.split())[:160]


@dataclass
class Func:
    module: "Module"
    qualname: str  # Class.method / func / func.inner
    node: ast.AST  # FunctionDef | Lambda
    cls: Optional[str]  # enclosing class name (innermost), if any
    outer: Optional["Func"]  # lexically enclosing function

    @property
    def name(self) -> str:
        return self.qualname.rsplit(".", 1)[-1]

    @property
    def file(self) -> str:
        return self.module.rel

    @property
    def lineno(self) -> int:
        return self.node.lineno

    def params(self) -> List[str]:
        a = self.node.args
        out = [x.arg for x in a.posonlyargs + a.args]
        if a.vararg:
            out.append(a.vararg.arg)
        out += [x.arg for x in a.kwonlyargs]
        if a.kwarg:
            out.append(a.kwarg.arg)
        return out

    def decorators(self) -> List[str]:
        out = []
        for d in getattr(self.node, "decorator_list", []):
            if isinstance(d, ast.Call):
                d = d.func
            n = dotted(d)
            if n:
                out.append(n)
        return out

    def body_nodes(self) -> Iterator[ast.AST]:
        """All nodes of the body, *not* descending into nested defs/classes/lambdas."""
        stack = list(reversed(self.node.body)) if isinstance(self.node.body, list) else [self.node.body]
        while stack:
            n = stack.pop()
            yield n
            if isinstance(n, (ast.FunctionDef, ast.AsyncFunctionDef, ast.ClassDef)):
                continue  # a nested def is a value here; its body belongs to its own Func
            for ch in ast.iter_child_nodes(n):
                stack.append(ch)

    def all_nodes(self) -> Iterator[ast.AST]:
        """All nodes of the body including nested defs."""
        body = self.node.body if isinstance(self.node.body, list) else [self.node.body]
        for s in body:
            yield from ast.walk(s)

    def __repr__(self):
        return f"<Func {self.file}:{self.qualname}>"


@dataclass
class Class:
    module: "Module"
    name: str
    qualname: str
    node: ast.ClassDef
    bases: List[str]  # dotted text of each base
    methods: Dict[str, Func] = field(default_factory=dict)

    @property
    def file(self):
        return self.module.rel


@dataclass
class Module:
    path: str
    rel: str  # relative to root
    name: str  # dotted module name (exo.rewrite.new_eff)
    tree: ast.Module
    text: str
    imports: Dict[str, str] = field(default_factory=dict)  # local -> dotted target
    star_imports: List[str] = field(default_factory=list)
    funcs: Dict[str, Func] = field(default_factory=dict)
    classes: Dict[str, Class] = field(default_factory=dict)
    assigns: Dict[str, ast.AST] = field(default_factory=dict)  # top-level NAME = value

    def func(self, qualname: str) -> Func:
        f = self.funcs.get(qualname)
        if f is None:
            raise AnalysisError(f"anchor vanished: function {qualname} not in {self.rel}")
        return f

    def cls(self, name: str) -> Class:
        c = self.classes.get(name)
        if c is None:
            raise AnalysisError(f"anchor vanished: class {name} not in {self.rel}")
        return c


class Index:
    def __init__(self, root: str, subdirs: Iterable[str] = ("src/exo",)):
        self.root = os.path.abspath(root)
        self.modules: Dict[str, Module] = {}  # by rel path
        self.by_name: Dict[str, Module] = {}
        self.units = 0
        h = hashlib.sha256()
        for sd in subdirs:
            base = os.path.join(self.root, sd)
            if not os.path.isdir(base):
                raise AnalysisError(f"source directory missing: {base}")
            for dp, dn, fn in sorted(os.walk(base)):
                dn[:] = sorted(d for d in dn if d != "__pycache__")
                for f in sorted(fn):
                    if f.endswith(".py"):
                        self._load(os.path.join(dp, f), h)
        self.digest = h.hexdigest()[:16]
        self._mro_cache: Dict[str, List[Class]] = {}
        self._class_table: Dict[str, List[Class]] = {}
        for m in self.modules.values():
            for c in m.classes.values():
                self._class_table.setdefault(c.name, []).append(c)

    # ------------------------------------------------------------------ load
    def _load(self, path: str, h) -> None:
        rel = os.path.relpath(path, self.root)
        with open(path, "rb") as fh:
            data = fh.read()
        h.update(rel.encode())
        h.update(data)
        try:
            text = data.decode("utf-8")
            tree = ast.parse(text, filename=path)
        except (SyntaxError, UnicodeDecodeError) as e:
            raise AnalysisError(f"cannot parse {rel}: {e}")
        set_parents(tree)
        name = rel[:-3].replace(os.sep, ".")
        if name.startswith("src."):
            name = name[4:]
        if name.endswith(".__init__"):
            name = name[: -len(".__init__")]
        m = Module(path, rel, name, tree, text)
        self.modules[rel] = m
        self.by_name[name] = m
        self.units += 1
        self._scan(m)

    def _scan(self, m: Module) -> None:
        pkg = m.name.rsplit(".", 1)[0] if "." in m.name else ""
        if m.rel.endswith("__init__.py"):
            pkg = m.name

        def resolve_from(node: ast.ImportFrom) -> str:
            if node.level == 0:
                return node.module or ""
            parts = pkg.split(".") if pkg else []
            up = node.level - 1
            if up:
                parts = parts[:-up]
            if node.module:
                parts = parts + node.module.split(".")
            return ".".join(parts)

        for node in ast.walk(m.tree):
            if isinstance(node, ast.Import):
                for a in node.names:
                    m.imports[a.asname or a.name.split(".")[0]] = a.name if a.asname else a.name.split(".")[0]
            elif isinstance(node, ast.ImportFrom):
                base = resolve_from(node)
                for a in node.names:
                    if a.name == "*":
                        m.star_imports.append(base)
                    else:
                        m.imports[a.asname or a.name] = f"{base}.{a.name}"

        for st in m.tree.body:
            if isinstance(st, ast.Assign) and len(st.targets) == 1 and isinstance(st.targets[0], ast.Name):
                m.assigns[st.targets[0].id] = st.value
            elif isinstance(st, ast.AnnAssign) and isinstance(st.target, ast.Name) and st.value is not None:
                m.assigns[st.target.id] = st.value

        self._visit_body(m, m.tree.body, "", None, None)

    def _visit_body(self, m: Module, body, prefix: str, cls: Optional[Class], outer: Optional[Func]):
        for st in body:
            self._visit_def(m, st, prefix, cls, outer)

    def _visit_def(self, m: Module, st, prefix: str, cls: Optional[Class], outer: Optional[Func]):
        if isinstance(st, (ast.FunctionDef, ast.AsyncFunctionDef)):
            qn = prefix + st.name
            # an extclass'd function is deleted and redefined under the same
            # name several times; keep them all distinguishable
            if qn in m.funcs:
                k = 2
                while f"{qn}#{k}" in m.funcs:
                    k += 1
                qn = f"{qn}#{k}"
            direct_method = cls is not None and prefix == cls.qualname + "."
            f = Func(m, qn, st, cls.name if cls is not None else None, outer)
            m.funcs[qn] = f
            if direct_method:
                cls.methods.setdefault(st.name, f)
            self._nested(m, st, qn + ".", cls, f)
        elif isinstance(st, ast.ClassDef):
            qn = prefix + st.name
            c = Class(m, st.name, qn, st, [src(b) for b in st.bases])
            m.classes.setdefault(qn, c)
            if qn != st.name:
                m.classes.setdefault(st.name, c)
            self._visit_body(m, st.body, qn + ".", c, outer)
        elif isinstance(st, (ast.If, ast.Try, ast.With, ast.For, ast.While)):
            # defs under control flow at module/class level
            for fld in ("body", "orelse", "finalbody"):
                self._visit_body(m, getattr(st, fld, []) or [], prefix, cls, outer)
            for h in getattr(st, "handlers", []) or []:
                self._visit_body(m, h.body, prefix, cls, outer)

    def _nested(self, m: Module, fnode, prefix: str, cls: Optional[Class], outer: Func):
        # nested function / class defs anywhere inside the body (not inside further defs)
        stack = list(fnode.body)
        while stack:
            n = stack.pop(0)
            if isinstance(n, (ast.FunctionDef, ast.AsyncFunctionDef, ast.ClassDef)):
                self._visit_def(m, n, prefix, cls, outer)
                continue
            for ch in ast.iter_child_nodes(n):
                if isinstance(ch, ast.Lambda):
                    continue
                stack.append(ch)

    # --------------------------------------------------------------- lookup
    def module(self, rel: str) -> Module:
        m = self.modules.get(rel)
        if m is None:
            raise AnalysisError(f"anchor vanished: module {rel}")
        return m

    def func(self, rel: str, qualname: str) -> Func:
        return self.module(rel).func(qualname)

    def all_funcs(self) -> Iterator[Func]:
        for m in self.modules.values():
            yield from m.funcs.values()

    def all_classes(self) -> Iterator[Class]:
        seen = set()
        for m in self.modules.values():
            for c in m.classes.values():
                if id(c) not in seen:
                    seen.add(id(c))
                    yield c

    def classes_named(self, name: str) -> List[Class]:
        return self._class_table.get(name, [])

    def resolve_class(self, m: Module, text: str) -> Optional[Class]:
        """Resolve a base-class expression text in module m to a repo class."""
        simple = text.split(".")[-1]
        if text in m.classes:
            return m.classes[text]
        tgt = m.imports.get(text.split(".")[0])
        if tgt:
            modname, _, nm = tgt.rpartition(".")
            mm = self.by_name.get(modname)
            if mm and nm in mm.classes and "." not in text:
                return mm.classes[nm]
            # `import x.y as z; z.Cls`
            mm = self.by_name.get(tgt)
            if mm and simple in mm.classes:
                return mm.classes[simple]
        for base in m.star_imports:
            mm = self.by_name.get(base)
            if mm and simple in mm.classes:
                return mm.classes[simple]
        cands = self._class_table.get(simple, [])
        if len(cands) == 1:
            return cands[0]
        return None

    def mro(self, c: Class) -> List[Class]:
        """Repo-local linearisation (depth-first, left-to-right, dedup) — the repo
        uses single inheritance almost everywhere, for which this equals C3."""
        key = c.module.rel + ":" + c.qualname
        if key in self._mro_cache:
            return self._mro_cache[key]
        out = [c]
        self._mro_cache[key] = out
        for b in c.bases:
            bc = self.resolve_class(c.module, b)
            if bc is not None and bc is not c:
                for x in self.mro(bc):
                    if x not in out:
                        out.append(x)
        return out

    def subclasses_of(self, base_names: Iterable[str]) -> List[Class]:
        names = set(base_names)
        out = []
        for c in self.all_classes():
            m = self.mro(c)
            if any(x.name in names for x in m[1:]):
                out.append(c)
        return out

    def resolve_method(self, c: Class, name: str) -> Optional[Func]:
        for k in self.mro(c):
            if name in k.methods:
                return k.methods[name]
        return None

    def resolve_name(self, m: Module, name: str) -> Optional[Func]:
        """Resolve a bare function name used in module m to a repo function."""
        if name in m.funcs:
            return m.funcs[name]
        tgt = m.imports.get(name)
        if tgt:
            modname, _, nm = tgt.rpartition(".")
            mm = self.by_name.get(modname)
            if mm and nm in mm.funcs:
                return mm.funcs[nm]
            if mm and nm in mm.imports:  # re-export
                return self.resolve_name(mm, nm)
        for base in m.star_imports:
            mm = self.by_name.get(base)
            if mm and name in mm.funcs:
                return mm.funcs[name]
        return None


_ID_RE = None


def alpha_eq(a: str, b: str) -> bool:
    """Textual alpha-equivalence of two normalised constructs: identical token sequences up to a
    bijective renaming of *variable* identifiers.  Identifiers that are called (`f(`), that are
    attributes (`.x`), keywords and capitalised names (classes / ADT modules) must be equal."""
    import keyword
    import re

    global _ID_RE
    if _ID_RE is None:
        _ID_RE = re.compile(r"[A-Za-z_][A-Za-z_0-9]*|\s+|.", re.S)
    ta = [t for t in _ID_RE.findall(a) if not t.isspace()]
    tb = [t for t in _ID_RE.findall(b) if not t.isspace()]
    if len(ta) != len(tb):
        return False
    fwd: Dict[str, str] = {}
    bwd: Dict[str, str] = {}
    for i, (x, y) in enumerate(zip(ta, tb)):
        xi = x[0].isalpha() or x[0] == "_"
        yi = y[0].isalpha() or y[0] == "_"
        if xi != yi:
            return False
        if not xi:
            if x != y:
                return False
            continue
        fixed = (
            keyword.iskeyword(x) or keyword.iskeyword(y) or x[0].isupper() or y[0].isupper()
            or (i + 1 < len(ta) and ta[i + 1] == "(") or (i > 0 and ta[i - 1] == ".")
            or x in ("self", "cls", "True", "False", "None")
        )
        if fixed:
            if x != y:
                return False
            continue
        if fwd.setdefault(x, y) != y or bwd.setdefault(y, x) != x:
            return False
    return True
