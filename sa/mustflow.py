"""Must-analyses on top of flow.Engine: which facts hold on *every* path to a site.

Facts are strings:
  call:<name>            a call whose callee's last name is <name> was executed
  guard:<name>           an `if <test>: <always raises>` (or assert) was passed whose
                         test calls <name> or reads attribute/name <name>
  arg-tagged variants are produced by the `tagger` callback.
"""
from __future__ import annotations

import ast
from typing import Callable, Dict, FrozenSet, Iterable, List, Optional, Set, Tuple

from .flow import Analysis, Engine, always_raises
from .index import dotted, last_name


def names_in(e: ast.AST) -> Set[str]:
    out: Set[str] = set()
    for n in ast.walk(e):
        if isinstance(n, ast.Call):
            ln = last_name(n)
            if ln:
                out.add(ln)
        if isinstance(n, ast.Attribute):
            out.add("." + n.attr)
        if isinstance(n, ast.Name):
            out.add(n.id)
        if isinstance(n, ast.Constant) and isinstance(n.value, str):
            out.add("'" + n.value + "'")
    return out


class MustFacts(Analysis):
    """State: frozenset of facts that hold on every path."""

    def __init__(
        self,
        is_site: Callable[[ast.AST], bool],
        extra_facts: Optional[Callable[[ast.AST], Iterable[str]]] = None,
        entry_facts: Iterable[str] = (),
    ):
        self.is_site = is_site
        self.extra = extra_facts
        self.entry = frozenset(entry_facts)
        self.sites: List[Tuple[ast.AST, FrozenSet[str]]] = []
        self.exits: List[Tuple[str, ast.AST, FrozenSet[str]]] = []

    def initial(self):
        return self.entry

    def copy(self, st):
        return st

    def join(self, a, b):
        return a & b

    def _facts_of(self, node: ast.AST) -> Set[str]:
        out: Set[str] = set()
        for n in ast.walk(node):
            if isinstance(n, (ast.FunctionDef, ast.AsyncFunctionDef, ast.Lambda, ast.ClassDef)) and n is not node:
                continue
            if isinstance(n, ast.Call):
                ln = last_name(n)
                if ln:
                    out.add("call:" + ln)
            if self.extra is not None:
                out |= set(self.extra(n))
        return out

    def _visit(self, node: ast.AST, st):
        # sites are recorded with the state *before* the statement's own calls,
        # except calls that are arguments of the site call (evaluated first)
        for n in ast.walk(node):
            if isinstance(n, (ast.FunctionDef, ast.AsyncFunctionDef, ast.Lambda, ast.ClassDef)):
                continue
            if self.is_site(n):
                self.sites.append((n, st))
        return frozenset(st | self._facts_of(node))

    def stmt(self, node, st):
        if isinstance(node, (ast.FunctionDef, ast.AsyncFunctionDef, ast.ClassDef)):
            return st
        return self._visit(node, st)

    def test(self, expr, st):
        return self._visit(expr, st)

    def assume(self, expr, truth, st):
        return st

    def on_exit(self, kind, node, st):
        self.exits.append((kind, node, st))

    def site_facts(self) -> List[Tuple[ast.AST, FrozenSet[str]]]:
        """One entry per site node: facts holding on every recorded visit."""
        acc: Dict[int, Tuple[ast.AST, FrozenSet[str]]] = {}
        for n, st in self.sites:
            if id(n) in acc:
                acc[id(n)] = (n, acc[id(n)][1] & st)
            else:
                acc[id(n)] = (n, st)
        return list(acc.values())


class GuardedMustFacts(MustFacts):
    """Adds `guard:<name>` facts after an `if <test>: raise` / `assert <test>`."""

    def assume(self, expr, truth, st):
        return st


def raising_guards(body: List[ast.stmt]) -> List[Tuple[ast.If, bool]]:
    """All `if` statements in a function body (any depth, not nested defs) with an
    always-raising branch: (node, raise_is_in_body)."""
    out = []
    stack = list(body)
    while stack:
        s = stack.pop()
        if isinstance(s, (ast.FunctionDef, ast.AsyncFunctionDef, ast.ClassDef)):
            continue
        if isinstance(s, ast.If):
            if always_raises(s.body):
                out.append((s, True))
            elif s.orelse and always_raises(s.orelse):
                out.append((s, False))
        for ch in ast.iter_child_nodes(s):
            if isinstance(ch, ast.stmt):
                stack.append(ch)
            elif isinstance(ch, ast.ExceptHandler):
                stack.extend(ch.body)
    return out


class GuardFlow(MustFacts):
    """MustFacts + guard facts: passing an `if T: raise` adds guard:<n> for every
    name n in T; passing `assert T` likewise."""

    def __init__(self, *a, **k):
        super().__init__(*a, **k)
        self._pending: Dict[int, Set[str]] = {}

    def test(self, expr, st):
        st = super().test(expr, st)
        return st

    branch_facts = False

    def assume(self, expr, truth, st):
        # the engine calls assume for both branches; whether the *other* branch
        # raises is looked up by the caller through `mark_guards`
        key = (id(expr), truth)
        extra = self._pending.get(key)
        if extra:
            st = frozenset(st | extra)
        if self.branch_facts:
            # being inside the true / false branch of a test is a fact about the path
            pre = "true:" if truth else "false:"
            neg = isinstance(expr, ast.UnaryOp) and isinstance(expr.op, ast.Not)
            if neg:
                pre = "false:" if truth else "true:"
                expr = expr.operand
            # a conjunction holds as a whole only on its true branch
            if isinstance(expr, ast.BoolOp) and isinstance(expr.op, ast.And) and pre == "false:":
                return st
            if isinstance(expr, ast.BoolOp) and isinstance(expr.op, ast.Or) and pre == "true:":
                return st
            st = frozenset(st | {pre + n for n in names_in(expr)})
        return st

    def mark_guards(self, fnode) -> None:
        for ifn, in_body in raising_guards(fnode.body):
            facts = {"guard:" + n for n in names_in(ifn.test)}
            # surviving branch: test is False when the raise is in the body
            self._pending[(id(ifn.test), not in_body)] = facts
        for n in ast.walk(fnode):
            if isinstance(n, ast.Assert):
                facts = {"guard:" + x for x in names_in(n.test)}
                self._pending[(id(n.test), True)] = facts


def run_must(fnode, is_site, extra_facts=None, guards: bool = True, entry_facts=(), branch_facts: bool = False) -> MustFacts:
    an = GuardFlow(is_site, extra_facts, entry_facts) if guards else MustFacts(is_site, extra_facts, entry_facts)
    if guards:
        an.branch_facts = branch_facts
    if guards:
        an.mark_guards(fnode)
    Engine(an).run(fnode)
    return an
