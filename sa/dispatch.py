"""Extraction of constructor-dispatch chains (`if isinstance(x, LoopIR.A): ... elif ...`)."""
from __future__ import annotations

import ast
from dataclasses import dataclass, field
from typing import Dict, List, Optional, Set, Tuple

from .adt import ADTs
from .flow import always_exits, always_raises
from .index import Func, Module, dotted

Ctor = Tuple[str, str]  # (adt python name, constructor)


@dataclass
class TypeTest:
    subject: str  # dotted text of the tested value
    ctors: Set[Ctor]
    negated: bool = False
    guarded: bool = False  # `isinstance(..) and <something else>`


@dataclass
class Case:
    ctors: Set[Ctor]
    guarded: bool
    body: List[ast.stmt]
    test: ast.expr
    lineno: int


@dataclass
class Chain:
    subject: str
    cases: List[Case]
    default: List[ast.stmt]  # body of the final else, or the statements after the chain
    default_explicit: bool  # a literal `else:` exists
    lineno: int
    container: List[ast.stmt] = field(default_factory=list)

    def covered(self) -> Set[Ctor]:
        out: Set[Ctor] = set()
        for c in self.cases:
            out |= c.ctors
        return out

    def default_kind(self) -> str:
        """fail | delegate | silent"""
        if always_raises(self.default):
            return "fail"
        for s in self.default:
            for n in ast.walk(s):
                if isinstance(n, ast.Call) and isinstance(n.func, ast.Attribute):
                    v = n.func.value
                    if isinstance(v, ast.Call) and dotted(v.func) == "super":
                        return "delegate"
        return "silent"


class TypeTests:
    """Recognises type tests; knows `styp = type(s)` style aliases of a function."""

    def __init__(self, adts: ADTs, module: Module, func_node: Optional[ast.AST] = None):
        self.adts = adts
        self.m = module
        self.type_alias: Dict[str, str] = {}  # local name -> subject text
        if func_node is not None:
            for n in ast.walk(func_node):
                if (
                    isinstance(n, ast.Assign)
                    and len(n.targets) == 1
                    and isinstance(n.targets[0], ast.Name)
                    and isinstance(n.value, ast.Call)
                    and dotted(n.value.func) == "type"
                    and len(n.value.args) == 1
                ):
                    sub = dotted(n.value.args[0])
                    if sub:
                        self.type_alias[n.targets[0].id] = sub

    def _ctors(self, node: ast.expr) -> Optional[Set[Ctor]]:
        if isinstance(node, (ast.Tuple, ast.List)):
            out: Set[Ctor] = set()
            for e in node.elts:
                c = self._ctors(e)
                if c is None:
                    return None
                out |= c
            return out
        r = self.adts.resolve_ctor(node, self.m)
        if r is None:
            return None
        adt, name = r
        return {(adt, c) for c in self.adts.expand(adt, name)}

    def parse(self, e: ast.expr) -> Optional[TypeTest]:
        """Return the TypeTest this boolean expression performs, if it is one."""
        if isinstance(e, ast.UnaryOp) and isinstance(e.op, ast.Not):
            t = self.parse(e.operand)
            if t is None:
                return None
            return TypeTest(t.subject, t.ctors, not t.negated, t.guarded)
        if isinstance(e, ast.Call) and dotted(e.func) == "isinstance" and len(e.args) == 2:
            sub = dotted(e.args[0])
            cs = self._ctors(e.args[1])
            if sub and cs is not None:
                return TypeTest(sub, cs)
            return None
        if isinstance(e, ast.Compare) and len(e.ops) == 1:
            op = e.ops[0]
            l, r = e.left, e.comparators[0]
            neg = isinstance(op, (ast.IsNot, ast.NotEq))
            if isinstance(op, (ast.Is, ast.Eq, ast.IsNot, ast.NotEq)):
                sub = self._type_of(l)
                cs = self._ctors(r)
                if sub is None or cs is None:
                    sub = self._type_of(r)
                    cs = self._ctors(l)
                if sub and cs is not None:
                    return TypeTest(sub, cs, neg)
            if isinstance(op, (ast.In, ast.NotIn)):
                sub = self._type_of(l)
                cs = self._ctors(r) if isinstance(r, (ast.Tuple, ast.List, ast.Set)) else None
                if isinstance(r, ast.Set):
                    cs = self._ctors(ast.Tuple(elts=r.elts, ctx=ast.Load()))
                if sub and cs is not None:
                    return TypeTest(sub, cs, isinstance(op, ast.NotIn))
            return None
        if isinstance(e, ast.BoolOp):
            parts = [self.parse(v) for v in e.values]
            if isinstance(e.op, ast.Or):
                if all(p is not None and not p.negated for p in parts):
                    subs = {p.subject for p in parts}
                    if len(subs) == 1:
                        cs: Set[Ctor] = set()
                        for p in parts:
                            cs |= p.ctors
                        return TypeTest(parts[0].subject, cs, False, any(p.guarded for p in parts))
                return None
            else:  # And: first recognisable conjunct, rest is a guard
                good = [p for p in parts if p is not None and not p.negated]
                if good:
                    p = good[0]
                    return TypeTest(p.subject, set(p.ctors), False, True if len(parts) > 1 else p.guarded)
                # not A and not B  == not (A or B)
                if all(p is not None and p.negated for p in parts):
                    subs = {p.subject for p in parts}
                    if len(subs) == 1:
                        cs = set()
                        for p in parts:
                            cs |= p.ctors
                        return TypeTest(parts[0].subject, cs, True)
                return None
        return None

    def _type_of(self, node: ast.expr) -> Optional[str]:
        if isinstance(node, ast.Call) and dotted(node.func) == "type" and len(node.args) == 1:
            return dotted(node.args[0])
        if isinstance(node, ast.Name) and node.id in self.type_alias:
            return self.type_alias[node.id]
        return None


def find_chains(func: Func, adts: ADTs, min_cases: int = 1) -> List[Chain]:
    """All dispatch chains in the function body (not in nested defs)."""
    tt = TypeTests(adts, func.module, func.node)
    chains: List[Chain] = []

    def scan_block(stmts: List[ast.stmt]):
        i = 0
        while i < len(stmts):
            s = stmts[i]
            if isinstance(s, ast.If):
                t = tt.parse(s.test)
                if t is not None and not t.negated:
                    ch = Chain(t.subject, [], [], False, s.lineno, stmts)
                    cur: Optional[ast.If] = s
                    j = i
                    while True:
                        t2 = tt.parse(cur.test)
                        if t2 is None or t2.negated or t2.subject != ch.subject:
                            # non-type-test elif: treat as part of default
                            ch.default = [cur]
                            ch.default_explicit = True
                            break
                        ch.cases.append(Case(set(t2.ctors), t2.guarded, cur.body, cur.test, cur.lineno))
                        if len(cur.orelse) == 1 and isinstance(cur.orelse[0], ast.If):
                            cur = cur.orelse[0]
                            continue
                        if cur.orelse:
                            ch.default = cur.orelse
                            ch.default_explicit = True
                            break
                        # no else: a following `if isinstance(subject, ...)` at the same
                        # level continues the chain when this case cannot fall through
                        nxt = stmts[j + 1] if j + 1 < len(stmts) else None
                        if (
                            isinstance(nxt, ast.If)
                            and (t3 := tt.parse(nxt.test)) is not None
                            and not t3.negated
                            and t3.subject == ch.subject
                            and all(always_exits(c.body) for c in ch.cases)
                        ):
                            cur = nxt
                            j += 1
                            continue
                        ch.default = stmts[j + 1 :]
                        ch.default_explicit = False
                        break
                    chains.append(ch)
                    # recurse into case bodies (nested dispatches on other subjects)
                    for c in ch.cases:
                        scan_block(c.body)
                    if ch.default_explicit:
                        scan_block(ch.default)
                    i = j + 1
                    continue
            # generic recursion
            for fld in ("body", "orelse", "finalbody"):
                sub = getattr(s, fld, None)
                if isinstance(sub, list) and sub and isinstance(sub[0], ast.stmt):
                    if not isinstance(s, (ast.FunctionDef, ast.AsyncFunctionDef, ast.ClassDef)):
                        scan_block(sub)
            for h in getattr(s, "handlers", []) or []:
                scan_block(h.body)
            i += 1

    scan_block(func.node.body)
    return [c for c in chains if len(c.cases) >= min_cases]


def main_chain(func: Func, adts: ADTs, subject: Optional[str] = None, adt: Optional[str] = None, sum_name: Optional[str] = None) -> Optional[Chain]:
    """The chain with the most cases (optionally restricted to a subject / ADT sum)."""
    best = None
    chains = find_chains(func, adts)
    if subject is not None and not any(ch.subject == subject for ch in chains):
        # the subject's NAME is a hint, not an anchor: if no chain tests a variable of that name (it
        # was renamed) take the largest chain over the requested ADT sum, whatever its variable is called
        subject = None
    for ch in chains:
        if subject is not None and ch.subject != subject:
            continue
        if adt is not None:
            cov = ch.covered()
            if not any(a == adt and (sum_name is None or adts[a].ctors[c].sum == sum_name) for a, c in cov):
                continue
        if best is None or len(ch.cases) > len(best.cases):
            best = ch
    return best


def mentioned_ctors(func: Func, adts: ADTs, subject: Optional[str] = None) -> Set[Ctor]:
    """Every constructor named in any type test (on subject, if given) in the function."""
    tt = TypeTests(adts, func.module, func.node)
    out: Set[Ctor] = set()
    for n in func.body_nodes():
        if isinstance(n, (ast.Call, ast.Compare)):
            t = tt.parse(n)
            if t is not None and (subject is None or t.subject == subject):
                out |= t.ctors
    return out


def resolve_subject(func: Func, adts: ADTs, subject: str, adt_key: str, sum_name: str) -> str:
    """The variable a function dispatches on over `adt_key.sum_name`.  `subject` is the name it had
    when the rule was written — a hint: if no chain tests that name any more (the local was renamed)
    the variable of the largest chain over the requested sum is returned."""
    chains = find_chains(func, adts)
    if any(ch.subject == subject for ch in chains):
        return subject
    best = None
    for ch in chains:
        if any(a == adt_key and adts[a].ctors[c].sum == sum_name for a, c in ch.covered()):
            if best is None or len(ch.cases) > len(best.cases):
                best = ch
    return best.subject if best is not None else subject
