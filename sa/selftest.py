"""Self-validation of the checkers on scratch copies (DESIGN §6).

Each mutant is a single textual edit of a copy of /repo/src/exo (still valid
Python).  `must_fire` mutants break a property: the named property's check must
exit 1 and report the named rule.  `must_stay_silent` mutants are
behaviour-preserving refactors: the check must still exit 0.

    python3-vt -m sa.selftest [--prop C07] [--jobs 16] [--list]
"""
from __future__ import annotations

import argparse
import contextlib
import io
import json
import os
import shutil
import sys
import tempfile
import time
from concurrent.futures import ProcessPoolExecutor
from typing import List, Optional, Tuple

from .mutdef import Mutant  # noqa: E402
from .mutants import MUTANTS  # noqa: E402


def _apply(root: str, m: Mutant) -> None:
    p = os.path.join(root, m.file)
    with open(p) as fh:
        s = fh.read()
    n = s.count(m.old)
    if n == 0:
        raise RuntimeError(f"mutant {m.name}: pattern not found in {m.file} (tree changed; update the mutant)")
    if m.count == 0:
        s = s.replace(m.old, m.new)
    else:
        idx = -1
        for _ in range(m.count):
            idx = s.find(m.old, idx + 1)
            if idx < 0:
                raise RuntimeError(f"mutant {m.name}: occurrence {m.count} not found")
        s = s[:idx] + m.new + s[idx + len(m.old) :]
    compile(s, p, "exec")  # must still be valid Python
    with open(p, "w") as fh:
        fh.write(s)


def run_one(args) -> Tuple[str, bool, str]:
    m, repo = args
    from .check import run_property

    tmp = tempfile.mkdtemp(prefix="sa_mut_")
    try:
        shutil.copytree(os.path.join(repo, "src"), os.path.join(tmp, "src"), ignore=shutil.ignore_patterns("__pycache__"))
        try:
            _apply(tmp, m)
        except RuntimeError as e:
            return m.name, False, f"STALE: {e}"
        buf = io.StringIO()
        with contextlib.redirect_stdout(buf):
            rc = run_property(m.prop, "quick", tmp, 0, write_evidence=False)
        out = buf.getvalue()
        if m.rule is None:
            ok = rc == 0
            return m.name, ok, "silent as required" if ok else f"FALSE ALARM rc={rc}: " + "; ".join(l for l in out.splitlines() if l.startswith(("VIOLATION", "ANALYSIS-ERROR")))[:400]
        fired = [l for l in out.splitlines() if l.startswith("VIOLATION") and f"rule={m.rule}" in l]
        ok = rc == 1 and bool(fired)
        if ok:
            return m.name, True, fired[0][:200]
        return m.name, False, f"MISSED rc={rc}: " + "; ".join(l for l in out.splitlines() if l.startswith(("VIOLATION", "ANALYSIS-ERROR")))[:300]
    finally:
        shutil.rmtree(tmp, ignore_errors=True)


def run(prop: Optional[str], jobs: int, repo: str = "/repo", quiet: bool = False, seed: int = 0):
    ms = [m for m in MUTANTS if prop is None or m.prop == prop]
    if seed:
        import random

        random.Random(seed).shuffle(ms)
    t0 = time.time()
    results = []
    with ProcessPoolExecutor(max_workers=jobs) as ex:
        for r in ex.map(run_one, [(m, repo) for m in ms]):
            results.append(r)
            if not quiet:
                print(("ok   " if r[1] else "FAIL ") + r[0] + " :: " + r[2])
    bad = [r for r in results if not r[1]]
    if not quiet:
        print(f"{len(results) - len(bad)}/{len(results)} mutants behaved as required in {time.time() - t0:.1f}s")
    return results


def main():
    ap = argparse.ArgumentParser()
    ap.add_argument("--prop")
    ap.add_argument("--jobs", type=int, default=min(16, os.cpu_count() or 4))
    ap.add_argument("--repo", default="/repo")
    ap.add_argument("--list", action="store_true")
    a = ap.parse_args()
    if a.list:
        for m in MUTANTS:
            print(m.prop, m.rule or "(silent)", m.name)
        return 0
    res = run(a.prop, a.jobs, a.repo)
    return 0 if all(r[1] for r in res) else 2


if __name__ == "__main__":
    sys.exit(main())
