"""Reader for the ASDL grammars embedded as string constants in the source.

The grammar (from asdl_adt): module NAME { defs }  def: name = sum | product
sum: Ctor(fields) | ... [attributes(fields)]   product: (fields)
field: type['*'|'?'] name
"""
from __future__ import annotations

import ast
import re
from dataclasses import dataclass, field
from typing import Dict, List, Optional, Set, Tuple

from .index import AnalysisError, Index, Module, dotted


@dataclass
class Field:
    type: str
    name: str
    seq: bool
    opt: bool


@dataclass
class Ctor:
    name: str
    sum: Optional[str]  # sum type name (None for product types)
    fields: List[Field]
    attrs: List[Field] = field(default_factory=list)

    def field_names(self) -> List[str]:
        return [f.name for f in self.fields]


@dataclass
class ADTModule:
    name: str  # python variable name (LoopIR, UAST, ...)
    asdl_name: str
    sums: Dict[str, List[str]] = field(default_factory=dict)  # sum -> ctor names
    ctors: Dict[str, Ctor] = field(default_factory=dict)  # ctors and products by name
    products: Set[str] = field(default_factory=set)
    where: str = ""

    def ctor(self, name: str) -> Ctor:
        c = self.ctors.get(name)
        if c is None:
            raise AnalysisError(f"ADT {self.name} has no constructor {name}")
        return c

    def sum_of(self, ctor: str) -> Optional[str]:
        return self.ctors[ctor].sum

    def ctors_of(self, sum_name: str) -> List[str]:
        if sum_name not in self.sums:
            raise AnalysisError(f"ADT {self.name} has no sum type {sum_name}")
        return list(self.sums[sum_name])

    def child_fields(self, ctor: str, kinds: Set[str]) -> List[Field]:
        return [f for f in self.ctor(ctor).fields if f.type in kinds]

    def seq_field_names(self) -> Set[str]:
        out = set()
        for c in self.ctors.values():
            for f in c.fields:
                if f.seq:
                    out.add(f.name)
        return out

    def may_contain(self, frm: str, target_sum_or_ctor: str) -> bool:
        """Can a node of constructor/product `frm` have (transitively) a child of
        the given sum type or constructor?"""
        seen = set()
        work = [frm]
        while work:
            k = work.pop()
            if k in seen:
                continue
            seen.add(k)
            for f in self.ctors[k].fields if k in self.ctors else []:
                t = f.type
                if t == target_sum_or_ctor:
                    return True
                if t in self.sums:
                    if target_sum_or_ctor in self.sums[t]:
                        return True
                    work.extend(self.sums[t])
                elif t in self.products:
                    work.append(t)
        return False


_tok = re.compile(r"\s*(?:(--[^\n]*)|([A-Za-z_][A-Za-z_0-9]*)|([{}()=|,*?]))")


def _tokens(text: str):
    pos = 0
    out = []
    while pos < len(text):
        m = _tok.match(text, pos)
        if not m:
            if text[pos:].strip() == "":
                break
            raise AnalysisError(f"ASDL lex error at {text[pos:pos+30]!r}")
        pos = m.end()
        if m.group(1):
            continue
        out.append(m.group(2) or m.group(3))
    return out


def parse_asdl(text: str, pyname: str, where: str = "") -> ADTModule:
    toks = _tokens(text)
    i = 0

    def expect(t):
        nonlocal i
        if i >= len(toks) or toks[i] != t:
            raise AnalysisError(f"ASDL parse error in {pyname}: expected {t!r} at {toks[i:i+5]}")
        i += 1

    def fields():
        nonlocal i
        out = []
        expect("(")
        while toks[i] != ")":
            ty = toks[i]
            i += 1
            seq = opt = False
            if toks[i] == "*":
                seq = True
                i += 1
            elif toks[i] == "?":
                opt = True
                i += 1
            nm = toks[i]
            i += 1
            out.append(Field(ty, nm, seq, opt))
            if toks[i] == ",":
                i += 1
        expect(")")
        return out

    expect("module")
    asdl_name = toks[i]
    i += 1
    expect("{")
    mod = ADTModule(pyname, asdl_name, where=where)
    while toks[i] != "}":
        tname = toks[i]
        i += 1
        expect("=")
        if toks[i] == "(":
            fs = fields()
            mod.ctors[tname] = Ctor(tname, None, fs)
            mod.products.add(tname)
        else:
            ctors = []
            attrs: List[Field] = []
            while True:
                cn = toks[i]
                i += 1
                if cn == "attributes":
                    attrs = fields()
                    break
                fs = fields() if toks[i] == "(" else []
                ctors.append(Ctor(cn, tname, fs))
                if toks[i] == "|":
                    i += 1
                    continue
                if toks[i] == "attributes":
                    i += 1
                    attrs = fields()
                break
            mod.sums[tname] = [c.name for c in ctors]
            for c in ctors:
                c.attrs = attrs
                mod.ctors[c.name] = c
    return mod


class ADTs:
    """All ADT modules found in the indexed source + alias tables."""

    def __init__(self, ix: Index):
        self.mods: Dict[str, ADTModule] = {}
        # alias class e.g. T.Tensor -> ("LoopIR","Tensor")
        self.alias: Dict[str, Tuple[str, str]] = {}
        self.defs: Dict[Tuple[str, str], ADTModule] = {}
        self.ix = ix
        for m in ix.modules.values():
            for node in ast.walk(m.tree):
                if (
                    isinstance(node, ast.Assign)
                    and isinstance(node.value, ast.Call)
                    and dotted(node.value.func) == "ADT"
                    and node.value.args
                    and isinstance(node.value.args[0], ast.Constant)
                    and isinstance(node.value.args[0].value, str)
                    and len(node.targets) == 1
                    and isinstance(node.targets[0], ast.Name)
                ):
                    py = node.targets[0].id
                    adt = parse_asdl(node.value.args[0].value, py, f"{m.rel}:{node.lineno}")
                    self.defs[(m.name, py)] = adt
                    if py in self.mods:
                        # two modules may define the same python name (E); keep by file too
                        self.mods[f"{py}@{m.rel}"] = adt
                    else:
                        self.mods[py] = adt
        if "LoopIR" not in self.mods:
            raise AnalysisError("anchor vanished: LoopIR ADT definition not found")
        # class T: Name = LoopIR.X
        lm = ix.modules.get("src/exo/core/LoopIR.py")
        if lm and "T" in lm.classes:
            for st in lm.classes["T"].node.body:
                if isinstance(st, ast.Assign) and len(st.targets) == 1 and isinstance(st.targets[0], ast.Name):
                    d = dotted(st.value)
                    if d and d.count(".") == 1:
                        a, b = d.split(".")
                        if a in self.mods and (b in self.mods[a].ctors or b in self.mods[a].sums):
                            self.alias["T." + st.targets[0].id] = (a, b)

    def __getitem__(self, k) -> ADTModule:
        if k not in self.mods:
            raise AnalysisError(f"anchor vanished: ADT {k}")
        return self.mods[k]

    def adt_for(self, pyname: str, m: Optional[Module] = None) -> Optional[ADTModule]:
        if m is not None:
            if (m.name, pyname) in self.defs:
                return self.defs[(m.name, pyname)]
            tgt = m.imports.get(pyname)
            if tgt:
                modname, _, nm = tgt.rpartition(".")
                if (modname, nm) in self.defs:
                    return self.defs[(modname, nm)]
        return self.mods.get(pyname)

    def resolve_ctor(self, node: ast.AST, m: Optional[Module] = None) -> Optional[Tuple[str, str]]:
        """`LoopIR.Assign` / `T.Tensor` / `E.Var` -> (adt, ctor-or-sum) else None.
        The adt key returned is usable with self[...]."""
        d = dotted(node)
        if not d or d.count(".") != 1:
            return None
        if d in self.alias:
            return self.alias[d]
        a, b = d.split(".")
        mod = self.adt_for(a, m)
        if mod is not None and mod is not self.mods.get(a):
            for k, v in self.mods.items():
                if v is mod:
                    a = k
                    break
        if mod and (b in mod.ctors or b in mod.sums):
            return (a, b)
        return None

    def expand(self, adt: str, name: str) -> List[str]:
        """A sum-type name expands to all its constructors."""
        mod = self[adt]
        if name in mod.sums:
            return list(mod.sums[name])
        return [name]
