"""Seeded breakages (must fire) and behaviour-preserving refactors (must stay silent).

These are inputs to the self-test, not checks: textual edits of a scratch copy.
"""
from .mutdef import Mutant, S, L, C, U, B, P, MA, PE, API, AS, PM, NE

M = Mutant
MUTANTS = [
    # ------------------------------------------------------------------ C06
    M("c06-compose-swapped-joinloops", "C06", "FWDTHREAD", S, "return ir, _compose(fwd_del, fwd)", "return ir, _compose(fwd, fwd_del)"),
    M("c06-stale-edit-joinloops", "C06", "FWDTHREAD", S, "ir, fwd_del = fwd(loop2_c)._delete()", "ir, fwd_del = loop2_c._delete()"),
    M("c06-missing-compose-cutloop", "C06", "FWDTHREAD", S, "    fwd = _compose(fwd2, fwd1)\n\n    return ir, fwd", "    fwd = fwd2\n\n    return ir, fwd"),
    M("c06-drop-last-compose-productloop", "C06", "FWDTHREAD", S, "    ir, fwdDel = fwd(inner_loop_c)._delete()\n    fwd = _compose(fwdDel, fwd)\n", "    ir, fwdDel = fwd(inner_loop_c)._delete()\n"),
    M("c06-discarded-forwarder", "C06", "FWDTHREAD", S, "    ir, fwd_repl = fwd(loop_cursor)._child_node(\"hi\")._replace(hi_o)\n    fwd = _compose(fwd_repl, fwd)", "    ir, _ = fwd(loop_cursor)._child_node(\"hi\")._replace(hi_o)"),
    M("c06-simplify-selffwd-behind", "C06", "FWDTHREAD", S,
      "            if cond:\n                self.ir, fwd_repl = self.fwd(sc)._child_node(\"cond\")._replace(cond)\n                self.fwd = _compose(fwd_repl, self.fwd)\n        elif isinstance(s, LoopIR.For):\n            lo = self.map_e(s.lo)",
      "            if cond:\n                self.ir, fwd_repl = self.fwd(sc)._child_node(\"cond\")._replace(cond)\n        elif isinstance(s, LoopIR.For):\n            lo = self.map_e(s.lo)"),
    M("c06-helper-compose-out-swapped", "C06", "FWDHELPERS", S, "    return ir, _compose(cur_fwd, fwd)\n\n\ndef _replace_writes", "    return ir, _compose(fwd, cur_fwd)\n\n\ndef _replace_writes"),
    M("c06-compose-def-swapped", "C06", "FWDHELPERS", S, "    return lambda x: f(g(x))", "    return lambda x: g(f(x))"),
    M("c06-forward-walk-unreversed", "C06", "FWDWALK", API, "for fn in reversed(fwds):", "for fn in fwds:"),
    M("c06-no-forward-kwarg", "C06", "FWDPRESENT", AS, "    ir, fwd = scheduling.DoReorderStmt(s1, s2)\n    return Procedure(ir, _provenance_eq_Procedure=proc, _forward=fwd)", "    ir, fwd = scheduling.DoReorderStmt(s1, s2)\n    return Procedure(ir, _provenance_eq_Procedure=proc)"),
    M("c06-silent-rename-local", "C06", None, S, "ir, fwd_del = fwd(loop2_c)._delete()\n\n    return ir, _compose(fwd_del, fwd)", "ir, fd = fwd(loop2_c)._delete()\n\n    return ir, _compose(fd, fwd)"),
    M("c06-silent-inline-compose", "C06", None, S, "    ir, fwd2 = fwd1(loop_c).after()._insert([loop2])\n    fwd = _compose(fwd2, fwd1)\n\n    return ir, fwd", "    ir, fwd2 = fwd1(loop_c).after()._insert([loop2])\n\n    return ir, _compose(fwd2, fwd1)"),
    # ------------------------------------------------------------------ C07
    M("c07-drop-copy-resize-dim", "C07", "MUT", S, "shp = old_typ.shape().copy()", "shp = old_typ.shape()"),
    M("c07-drop-copy-mult-dim-fix", "C07", "MUT", S, "        idx = idx.copy()\n        hi = idx[hi_idx]", "        hi = idx[hi_idx]"),
    M("c07-append-to-preds", "C07", "MUT", API, "p.name, p.args, p.preds + [assertion], p.body, p.instr, p.srcinfo\n        )", "p.name, p.args, p.preds, p.body, p.instr, p.srcinfo\n        )\n        p.preds.append(assertion)"),
    M("c07-attr-store-on-cursor", "C07", "ATTRSTORE", S, "def DoParallelizeLoop(loop_cursor):\n", "def DoParallelizeLoop(loop_cursor):\n    loop_cursor._path = list(loop_cursor._path)\n"),
    M("c07-new-global-cache", "C07", "GLOBALSTATE", NE, "def Check_ReorderStmts(proc, s1, s2):\n", "_last_checked = {}\n\n\ndef Check_ReorderStmts(proc, s1, s2):\n    _last_checked[proc.name] = s1\n"),
    M("c07-silent-list-instead-of-copy", "C07", None, S, "shp = old_typ.shape().copy()", "shp = list(old_typ.shape())"),
    # ------------------------------------------------------------------ C09
    M("c09-no-delegate", "C09", "TRAV", "src/exo/backend/parallel_analysis.py", "        return super().map_s(s)\n", "        return None\n"),
    M("c09-swallow-check-error", "C09", "PARCHECK", "src/exo/backend/parallel_analysis.py", "            except:\n                self.err(\n                    s,\n                    \"parallel loop's body is not parallelizable because of potential data races\",\n                )", "            except:\n                pass"),
    M("c09-skip-parallel-analysis", "C09", "BACKPIPE", C, "            p = ParallelAnalysis().run(p)\n", ""),
    M("c09-narrowed-check", "C09", "PARCHECK", "src/exo/backend/parallel_analysis.py", "if isinstance(s, LoopIR.For) and isinstance(s.loop_mode, LoopIR.Par):", "if isinstance(s, LoopIR.For) and isinstance(s.loop_mode, LoopIR.Par) and len(s.body) > 1:"),
    M("c09-pragma-unguarded", "C09", "PAREMIT", C, "            if isinstance(s.loop_mode, LoopIR.Par):\n                self.add_line(f\"#pragma omp parallel for\")", "            if not isinstance(s.loop_mode, LoopIR.Seq) or len(s.body) > 8:\n                self.add_line(f\"#pragma omp parallel for\")"),
    M("c09-template-skips-if-orelse", "C09", "TRAVBASE", L, "            new_orelse = self.map_stmts(s.orelse)\n            if any((new_cond, new_body is not None, new_orelse is not None)):", "            new_orelse = None\n            if any((new_cond, new_body is not None, new_orelse is not None)):"),
    # ------------------------------------------------------------------ C15
    M("c15-externs-no-recurse", "C15", "TRAV", C, "            self._externs.add((e.f, e.type.basetype().ctype()))\n        super().do_e(e)", "            self._externs.add((e.f, e.type.basetype().ctype()))\n        else:\n            super().do_e(e)"),
    M("c15-mem-check-dropped", "C15", "CALLBOUNDARY", MA, "                    if not issubclass(cmem, smem):", "                    if False:"),
    M("c15-can-read-gate-dropped", "C15", "MEMGATE", C, "            if not mem.can_read():\n                raise MemGenError(", "            if False:\n                raise MemGenError("),
    M("c15-skip-precision", "C15", "BACKPIPE", C, "            p = PrecisionAnalysis().run(p)\n", ""),
    M("c15-window-to-dense-accepted", "C15", "CALLBOUNDARY", "src/exo/backend/win_analysis.py", "                    raise TypeError(f\"{a.srcinfo}: expected a non-window tensor\")", "                    pass"),
    M("c15-ctype-missing", "C15", "TYPETABLES", L, "    elif isinstance(t, T.UINT16):\n        return \"uint16_t\"\n", ""),
    # ------------------------------------------------------------------ C02
    M("c02-prec-swap", "C02", "PREC", C, "    \"+\": 50,\n    \"-\": 50,", "    \"+\": 60,\n    \"-\": 60,"),
    M("c02-rhs-prec-not-plus-one", "C02", "PREC", C, "            rhs = self.comp_e(e.rhs, local_prec + 1)", "            rhs = self.comp_e(e.rhs, local_prec)"),
    M("c02-div-guard-dropped", "C02", "DIVMOD", C, "            if int_div:\n                if self.range_env.check_expr_bound(0, IndexRangeEnvironment.leq, e):", "            if int_div:\n                if True:"),
    M("c02-scalar-ref-no-deref", "C02", "SCALARREF", C, "            if e.name in self._scalar_refs:\n                return f\"*{self.env[e.name]}\"", "            if e.name in self._scalar_refs:\n                return f\"{self.env[e.name]}\""),
    M("c02-window-bypass-hook", "C02", "WINDOWHOOK", C, "        dataptr = mem.window(basetyp, base, idxs, all_strides_s, e.srcinfo)", "        dataptr = f\"{base}[{generate_offset(idxs, all_strides_s)}]\""),
    M("c02-newvar-not-registered", "C02", "FRESHNAME", C, "            self.names[strnm] = s\n            strnm = s\n\n        self.names[strnm] = strnm", "            self.names[strnm] = s\n            strnm = s\n"),
    M("c02-silent-reorder-prec-keys", "C02", None, C, "    \"+\": 50,\n    \"-\": 50,", "    \"-\": 50,\n    \"+\": 50,"),
    # ------------------------------------------------------------------ C08
    M("c08-alias-dropped", "C08", "WINALIAS", MA, "                res += [self.buf_of(e.name)]\n                for ei in e.idx:", "                res += [e.name]\n                for ei in e.idx:"),
    M("c08-free-before-stmt", "C08", "FREEONCE", MA, "            for nm, typ, mem in rm:\n                body += [LoopIR.Free(nm, typ, mem, b.srcinfo)]\n                self.tofree[-1].remove((nm, typ, mem))\n            body += [b]", "            body += [b]\n            for nm, typ, mem in rm:\n                body += [LoopIR.Free(nm, typ, mem, b.srcinfo)]\n                self.tofree[-1].remove((nm, typ, mem))"),
    M("c08-no-remove-after-free", "C08", "FREEONCE", MA, "                self.tofree[-1].remove((nm, typ, mem))\n", ""),
    M("c08-mdram-wrong-free", "C08", "MEMPAIR", "src/exo/libs/memories.py", "        return f\"free_dram({new_name});\"", "        return f\"free({new_name});\""),
    M("c08-static-inherits-heap-free", "C08", "MEMPAIR", "src/exo/libs/memories.py", "        return f'static {prim_type} {new_name}[{\" * \".join(shape)}];'\n\n    @classmethod\n    def free(cls, new_name, prim_type, shape, srcinfo):\n        return \"\"", "        return f'static {prim_type} {new_name}[{\" * \".join(shape)}];'"),
    M("c08-const-from-nothing", "C08", "CONSTQ", C, "        self.non_const = set(e for e, _ in get_writes_of_stmts(self.proc.body))", "        self.non_const = set()"),
    M("c08-if-scope-not-bracketed", "C08", "FREEONCE", MA, "            self.push()\n            ebody = self.mem_stmts(s.orelse)\n            self.pop()", "            ebody = self.mem_stmts(s.orelse)"),
    # ------------------------------------------------------------------ C17
    M("c17-get-name-not-reserved", "C17", "FRESHNAME", P, "        if candidate not in self.names:\n            # reserve the issued name too, so that a symbol literally\n            # called e.g. `a_1` cannot collide with the renamed `a`\n            self.names[candidate] = 1\n", ""),
    M("c17-printer-drops-orelse", "C17", "PRINTFIELDS", P, "        if stmt.orelse:\n            lines.append(f\"{indent}else:\")\n            lines.extend(_print_block(stmt.orelse, env.push(), indent + \"  \"))\n", ""),
    M("c17-printer-prec", "C17", "PREC", P, "    \"and\": 20,", "    \"and\": 35,"),
    M("c17-printer-usub-prec", "C17", "PREC", P, "return f'-{_print_expr(e.arg, env, prec=op_prec[\"~\"])}'", "return f'-{_print_expr(e.arg, env)}'"),
    M("c17-printer-drops-mem", "C17", "PRINTFIELDS", P, "        mem = f\" @{stmt.mem.name()}\" if stmt.mem else \"\"\n        ty = _print_type(stmt.type, env)\n        return [f\"{indent}{env.get_name(stmt.name)} : {ty}{mem}\"]", "        ty = _print_type(stmt.type, env)\n        return [f\"{indent}{env.get_name(stmt.name)} : {ty}\"]"),
    # ------------------------------------------------------------------ C18
    M("c18-unsorted-memories", "C18", "SORTEDEMIT", C, "    for m in sorted(mems, key=lambda x: x.name()):", "    for m in mems:"),
    M("c18-second-helper", "C18", "SORTEDEMIT", C, "_static_helpers = {\n", "_static_helpers = {\n    \"exo_floor_mod\": \"static int exo_floor_mod(int a, int b) { return ((a % b) + b) % b; }\",\n"),
    M("c18-sort-by-id", "C18", "IDORDER", C, "key=lambda x: x.name))", "key=lambda x: id(x)))"),
    M("c18-iterate-freevars", "C18", "SETITER", S, "def DoDeletePass(proc):\n", "def _fv_order(stmts):\n    return [str(v) for v in _FV(stmts)]\n\n\ndef DoDeletePass(proc):\n"),
    M("c18-repr-in-codegen", "C18", "REPRLEAK", C, "            self.add_line(f\"struct {win_struct} {name} = {rhs};\")", "            self.add_line(f\"struct {win_struct} {name} = {rhs}; /* {s.name!r} */\")"),
    # ------------------------------------------------------------------ C16
    M("c16-children-drop-orelse", "C16", "CHILDREN", PM, "_children_from_attrs(cur, n, \"cond\", \"body\", \"orelse\")", "_children_from_attrs(cur, n, \"cond\", \"body\")"),
    M("c16-children-order", "C16", "CHILDREN", PM, "_children_from_attrs(cur, n, \"lo\", \"hi\", \"body\")", "_children_from_attrs(cur, n, \"body\", \"lo\", \"hi\")"),
    M("c16-find-orelse-before-body", "C16", "FINDORDER", PM, "            self.find_stmts_in_block(pats, curs[0].body())\n            self.find_stmts_in_block(pats, curs[0].orelse())", "            self.find_stmts_in_block(pats, curs[0].orelse())\n            self.find_stmts_in_block(pats, curs[0].body())"),
    M("c16-no-raise-on-empty", "C16", "NOMATCH", "src/exo/API_cursors.py", "    if not cursors:\n        raise SchedulingError(\"failed to find matches\", pattern=pattern)\n", ""),
    M("c16-past-table-wrong", "C16", "PASTTOTAL", PM, "    PAST.Reduce: [LoopIR.Reduce],", "    PAST.Reduce: [LoopIR.Assign],"),
    M("c16-match-ignores-rhs", "C16", "MATCHFIELDS", PM, "                and all(self.match_e(pi, si) for pi, si in zip(pat.idx, stmt.idx))\n                and self.match_e(pat.rhs, stmt.rhs)\n            )", "                and all(self.match_e(pi, si) for pi, si in zip(pat.idx, stmt.idx))\n            )"),
    # ------------------------------------------------------------------ C05
    M("c05-replace-whole-block", "C05", "REPLSCOPE", U, "    block_cursor = block_cursor[:n_stmts]\n    stmts = [c._node for c in block_cursor]", "    stmts = [c._node for c in block_cursor[:n_stmts]]"),
    M("c05-stride-hole-unchecked", "C05", "HOLESIB", U, "        elif not self.is_exact_e(be, lookup):\n            raise UnificationError(\n                f\"Cannot unify the stride argument", "        elif False:\n            raise UnificationError(\n                f\"Cannot unify the stride argument"),
    M("c05-unify-stmts-no-len", "C05", "ZIPLEN", U, "            if len(pe.idx) != len(be.idx):\n                raise UnificationError(\n                    f\"cannot unify the windowing", "            if False:\n                raise UnificationError(\n                    f\"cannot unify the windowing"),
    M("c05-unify-ignores-for-lo", "C05", "UNIFYFIELDS", U, "            self.unify_e(ps.lo, bs.lo)\n", ""),
    M("c05-no-alias-check", "C05", "REPLSCOPE", U, "    ir, fwd = block_cursor._replace([new_call])\n    Check_Aliasing(ir)", "    ir, fwd = block_cursor._replace([new_call])"),
    # ------------------------------------------------------------------ C01 (comparison)
    M("c01-compare-no-len", "C01", "ZIPLEN", L, "        return len(stmts1) == len(stmts2) and all(\n            self.match_s(s1, s2) for s1, s2 in zip(stmts1, stmts2)\n        )", "        return all(self.match_s(s1, s2) for s1, s2 in zip(stmts1, stmts2))"),
    # ------------------------------------------------------------------ C10
    M("c10-cfg-not-threaded", "C10", "CFGMOD", AS, "    ir, fwd, cfg = scheduling.DoDeleteConfig(proc._root(), stmt_cursor._impl)\n    return Procedure(ir, _provenance_eq_Procedure=proc, _forward=fwd, _mod_config=cfg)", "    ir, fwd, cfg = scheduling.DoDeleteConfig(proc._root(), stmt_cursor._impl)\n    return Procedure(ir, _provenance_eq_Procedure=proc, _forward=fwd)"),
    M("c10-eqv-gate-dropped", "C10", "EQVGATE", S, "    if not is_eqv:\n        raise SchedulingError(\n            f\"{call_s.srcinfo}: Cannot swap call because the two \"", "    if False:\n        raise SchedulingError(\n            f\"{call_s.srcinfo}: Cannot swap call because the two \""),
    M("c10-config-write-unchecked", "C10", "CFGMOD", S, "    cfg = Check_DeleteConfigWrite(ir, [cw_s])\n\n    return ir, fwd, cfg", "    cfg = set()\n\n    return ir, fwd, cfg"),
    M("c10-init-drops-modconfig", "C10", "CFGMOD", API, "                _provenance_eq_Procedure._loopir_proc, proc, frozenset(_mod_config)\n", "                _provenance_eq_Procedure._loopir_proc, proc\n"),
    # ------------------------------------------------------------------ C11
    M("c11-union-when-key-in-set", "C11", "EQVSHAPE", PE, "        if key not in config_set:\n            uf.union(proc1, proc2)", "        if key in config_set:\n            uf.union(proc1, proc2)"),
    M("c11-strict-always", "C11", "EQVSHAPE", PE, "    if not config_set:\n        _UF_Strict.union(proc1, proc2)", "    _UF_Strict.union(proc1, proc2)"),
    M("c11-partial-eval-keeps-provenance", "C11", "NOPROV", API, "        return Procedure(p)  # No provenance because signature changed", "        return Procedure(p, _provenance_eq_Procedure=self)"),
    M("c11-outside-writer", "C11", "UFOWN", S, "def DoDeletePass(proc):\n", "def _force_eqv(p1, p2):\n    from ..core.proc_eqv import assert_eqv_proc\n\n    assert_eqv_proc(p1, p2)\n\n\ndef DoDeletePass(proc):\n"),
    M("c11-keys-inverted", "C11", "EQVSHAPE", PE, "            key for key, uf in _UF_Unv_key.items() if not uf.check_eqv(proc1, proc2)", "            key for key, uf in _UF_Unv_key.items() if uf.check_eqv(proc1, proc2)"),
    M("c11-newkey-after-union", "C11", "EQVSHAPE", PE, "    for key in config_set:\n        if key not in _UF_Unv_key:\n            new_uf_by_eqv_key(key)\n    # then do the appropriate union operations\n    if not config_set:\n        _UF_Strict.union(proc1, proc2)\n    _UF_Unv.union(proc1, proc2)\n", "    if not config_set:\n        _UF_Strict.union(proc1, proc2)\n    _UF_Unv.union(proc1, proc2)\n    for key in config_set:\n        if key not in _UF_Unv_key:\n            new_uf_by_eqv_key(key)\n"),
    # ------------------------------------------------------------------ C19
    M("c19-add-assertion-replaces-preds", "C19", "PREDSONLY", API, "p.name, p.args, p.preds + [assertion], p.body, p.instr, p.srcinfo", "p.name, p.args, [assertion], p.body, p.instr, p.srcinfo"),
    M("c19-settyp-touches-idx", "C19", "ANNOTONLY", S, "                return {\"type\": basetyp}\n", "                return {\"type\": basetyp, \"idx\": []}\n"),
    M("c19-partial-eval-keeps-arg", "C19", "PEVAL", S, "        return p.update(args=[a for a in p.args if a.name not in self.env])", "        return p.update(args=[a for a in p.args if a.name in self.env])"),
    M("c19-partial-eval-no-recursion", "C19", "PEVAL", S, "                if e.name in self.env:\n                    return LoopIR.Const(self.env[e.name], T.bool, e.srcinfo)\n\n        return super().map_e(e)", "                if e.name in self.env:\n                    return LoopIR.Const(self.env[e.name], T.bool, e.srcinfo)\n\n        return None"),
    # ------------------------------------------------------------------ C12
    M("c12-delete-without-const-test", "C12", "DELGUARD", S, "            if isinstance(safe_cond, LoopIR.Const):\n                if safe_cond.val:", "            if not isinstance(safe_cond, LoopIR.Read):\n                if getattr(safe_cond, \"val\", True):"),
    M("c12-loop-delete-lo-only", "C12", "DELGUARD", S, "            if (\n                isinstance(hi, LoopIR.Const)\n                and isinstance(lo, LoopIR.Const)\n                and hi.val == lo.val\n            ):", "            if hi is not None and lo is not None:"),
    M("c12-new-name-compare", "C12", "NAMECONF", S, "        if is_const_zero(lhs) or is_const_zero(rhs):\n                return LoopIR.Const(0, lhs.type, lhs.srcinfo)", "        if is_const_zero(lhs) or is_const_zero(rhs) or str(lhs) == str(rhs):\n                return LoopIR.Const(0, lhs.type, lhs.srcinfo)"),
    # ------------------------------------------------------------------ C03
    M("c03-skip-checkbounds", "C03", "FRONTPIPE", API, "            CheckBounds(proc)\n", ""),
    M("c03-window-writes-untranslated", "C03", "WINALIAS", B, "                if isinstance(buf_typ, T.Window):\n                    effects = self.translate_eff(effects, stmt.name, buf_typ, type_env)\n", "                if False:\n                    effects = self.translate_eff(effects, stmt.name, buf_typ, type_env)\n"),
    M("c03-loop-tripcount-unchecked", "C03", "OBLIG", B, "                self.check_non_negative(lift_expr(iters))\n", ""),
    M("c03-upper-bound-le", "C03", "BOUNDFORM", B, "                rhs = SMT.LT(e, self.expr_to_smt(hi))", "                rhs = SMT.LE(e, self.expr_to_smt(hi))"),
    M("c03-pos-size-nonneg", "C03", "BOUNDFORM", B, "        e_pos = SMT.LT(SMT.Int(0), self.expr_to_smt(expr))", "        e_pos = SMT.LE(SMT.Int(0), self.expr_to_smt(expr))"),
    M("c03-preds-not-proved", "C03", "OBLIG", B, "                    if not self.solver.is_valid(smt_pred):\n                        eg = self.counter_example()\n                        self.err(\n                            stmt,\n                            f\"Could not verify assertion", "                    if False:\n                        eg = self.counter_example()\n                        self.err(\n                            stmt,\n                            f\"Could not verify assertion"),
    M("c03-errors-not-raised", "C03", "FRONTPIPE", B, "        if len(self.errors) > 0:\n            raise TypeError(\n                \"Errors occurred during effect checking", "        if len(self.errors) > 1000:\n            raise TypeError(\n                \"Errors occurred during effect checking"),
    M("c03-silent-ge-form", "C03", None, B, "                lhs = SMT.LE(SMT.Int(0), e)", "                lhs = SMT.GE(e, SMT.Int(0))"),
]
