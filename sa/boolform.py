"""Propositional reasoning over *syntactic* atoms of a Python condition.

A condition such as `a == b or (x in S and y in S)` is a boolean combination of atoms
(the maximal sub-expressions that are not and/or/not).  Two conditions over the same
atoms can be compared by enumerating truth assignments — a finite, solver-free check
("does the accepting condition imply the specified one?").  Atoms are identified by
their normalised source text; `==`/`!=` and `in`/`not in` pairs are recognised as
negations of each other.
"""
from __future__ import annotations

import ast
import itertools
from typing import Dict, List, Optional, Set, Tuple

Form = tuple  # ('and', [..]) | ('or', [..]) | ('not', f) | ('atom', text) | ('const', bool)

_NEG = {ast.Eq: ast.NotEq, ast.NotEq: ast.Eq, ast.In: ast.NotIn, ast.NotIn: ast.In, ast.Is: ast.IsNot, ast.IsNot: ast.Is, ast.Lt: ast.GtE, ast.GtE: ast.Lt, ast.Gt: ast.LtE, ast.LtE: ast.Gt}
_POS = (ast.Eq, ast.In, ast.Is, ast.Lt, ast.LtE)


_ORD = {ast.Lt: {"lt"}, ast.LtE: {"lt", "eq"}, ast.Gt: {"gt"}, ast.GtE: {"gt", "eq"}, ast.Eq: {"eq"}, ast.NotEq: {"lt", "gt"}}
_FLIP = {"lt": "gt", "gt": "lt", "eq": "eq"}


def to_form(e: ast.AST) -> Form:
    if isinstance(e, ast.BoolOp):
        return ("and" if isinstance(e.op, ast.And) else "or", [to_form(v) for v in e.values])
    if isinstance(e, ast.UnaryOp) and isinstance(e.op, ast.Not):
        return ("not", to_form(e.operand))
    if isinstance(e, ast.Constant) and isinstance(e.value, bool):
        return ("const", e.value)
    if isinstance(e, ast.Compare) and len(e.ops) == 1 and type(e.ops[0]) in _ORD:
        # order comparisons of one pair of operands share a three-valued atom (lt / eq / gt):
        # `a < b`, `a <= b`, `a != b`, `b > a` ... are then comparable by enumeration
        l, r = e.left, e.comparators[0]
        allowed = set(_ORD[type(e.ops[0])])

        def intlit(x):
            if isinstance(x, ast.Constant) and type(x.value) is int:
                return x.value
            if isinstance(x, ast.UnaryOp) and isinstance(x.op, ast.USub) and isinstance(x.operand, ast.Constant) and type(x.operand.value) is int:
                return -x.operand.value
            return None

        # integer quantity against an integer literal: one integer-valued atom per quantity,
        # so that `len(x) > 1` and `len(x) > 2` (or `!= 1`) are comparable by enumeration
        if intlit(r) is not None and intlit(l) is None:
            return ("num", "#" + ast.unparse(l), frozenset(allowed), intlit(r))
        if intlit(l) is not None and intlit(r) is None:
            return ("num", "#" + ast.unparse(r), frozenset(_FLIP[x] for x in allowed), intlit(l))
        a, b = ast.unparse(l), ast.unparse(r)
        if b < a:
            a, b = b, a
            allowed = {_FLIP[x] for x in allowed}
        return ("cmp", f"{a} <=> {b}", frozenset(allowed))
    if isinstance(e, ast.Compare) and len(e.ops) == 1 and type(e.ops[0]) in _NEG and not isinstance(e.ops[0], _POS):
        # normalise a negative comparison to not(positive)
        pos = ast.Compare(left=e.left, ops=[_NEG[type(e.ops[0])]()], comparators=e.comparators)
        return ("not", ("atom", ast.unparse(pos)))
    return ("atom", ast.unparse(e))


def parse(src: str) -> Form:
    return to_form(ast.parse(src, mode="eval").body)


def atoms(f: Form) -> Set[str]:
    k = f[0]
    if k in ("atom", "cmp", "num"):
        return {f[1]}
    if k in ("and", "or"):
        out: Set[str] = set()
        for x in f[1]:
            out |= atoms(x)
        return out
    if k == "not":
        return atoms(f[1])
    return set()


def ev(f: Form, env: Dict[str, bool]) -> bool:
    k = f[0]
    if k == "atom":
        return env[f[1]]
    if k == "cmp":
        return env[f[1]] in f[2]
    if k == "num":
        v = env[f[1]]
        return ("lt" if v < f[3] else "eq" if v == f[3] else "gt") in f[2]
    if k == "const":
        return f[1]
    if k == "not":
        return not ev(f[1], env)
    if k == "and":
        return all(ev(x, env) for x in f[1])
    return any(ev(x, env) for x in f[1])


def implies(test: Form, spec: Form, max_atoms: int = 14) -> Tuple[bool, Optional[Dict[str, bool]]]:
    """Does `test` imply `spec` for every assignment of the atoms?  Returns
    (True, None) or (False, counter-assignment)."""
    names = sorted(atoms(test) | atoms(spec))
    if len(names) > max_atoms:
        raise ValueError("too many atoms")
    lits: Dict[str, Set[int]] = {}

    def collect(f):
        if f[0] == "num":
            lits.setdefault(f[1], set()).add(f[3])
        elif f[0] in ("and", "or"):
            for x in f[1]:
                collect(x)
        elif f[0] == "not":
            collect(f[1])

    collect(test)
    collect(spec)
    doms = []
    for n in names:
        if n in lits:
            doms.append(tuple(sorted({c + d for c in lits[n] for d in (-1, 0, 1)})))
        elif " <=> " in n:
            doms.append(("lt", "eq", "gt"))
        else:
            doms.append((False, True))
    for vals in itertools.product(*doms):
        env = dict(zip(names, vals))
        if ev(test, env) and not ev(spec, env):
            return False, env
    return True, None


def counterexamples(test: Form, spec: Form, max_atoms: int = 14) -> List[Dict[str, object]]:
    """All assignments with `test` true and `spec` false (the ways the implication fails)."""
    names = sorted(atoms(test) | atoms(spec))
    if len(names) > max_atoms:
        raise ValueError("too many atoms")
    lits: Dict[str, Set[int]] = {}

    def collect(f):
        if f[0] == "num":
            lits.setdefault(f[1], set()).add(f[3])
        elif f[0] in ("and", "or"):
            for x in f[1]:
                collect(x)
        elif f[0] == "not":
            collect(f[1])

    collect(test)
    collect(spec)
    doms = []
    for n in names:
        if n in lits:
            doms.append(tuple(sorted({c + d for c in lits[n] for d in (-1, 0, 1)})))
        elif " <=> " in n:
            doms.append(("lt", "eq", "gt"))
        else:
            doms.append((False, True))
    out = []
    for vals in itertools.product(*doms):
        env = dict(zip(names, vals))
        if ev(test, env) and not ev(spec, env):
            out.append(env)
    return out
