"""Propositional reasoning over *syntactic* atoms of a Python condition.

A condition such as `a == b or (x in S and y in S)` is a boolean combination of atoms
(the maximal sub-expressions that are not and/or/not).  Two conditions over the same
atoms can be compared by enumerating truth assignments — a finite, solver-free check
("does the accepting condition imply the specified one?").  Atoms are identified by
their normalised source text; `==`/`!=` and `in`/`not in` pairs are recognised as
negations of each other.
"""
from __future__ import annotations

import ast
import itertools
from typing import Dict, List, Optional, Set, Tuple

Form = tuple  # ('and', [..]) | ('or', [..]) | ('not', f) | ('atom', text) | ('const', bool)

_NEG = {ast.Eq: ast.NotEq, ast.NotEq: ast.Eq, ast.In: ast.NotIn, ast.NotIn: ast.In, ast.Is: ast.IsNot, ast.IsNot: ast.Is, ast.Lt: ast.GtE, ast.GtE: ast.Lt, ast.Gt: ast.LtE, ast.LtE: ast.Gt}
_POS = (ast.Eq, ast.In, ast.Is, ast.Lt, ast.LtE)


def to_form(e: ast.AST) -> Form:
    if isinstance(e, ast.BoolOp):
        return ("and" if isinstance(e.op, ast.And) else "or", [to_form(v) for v in e.values])
    if isinstance(e, ast.UnaryOp) and isinstance(e.op, ast.Not):
        return ("not", to_form(e.operand))
    if isinstance(e, ast.Constant) and isinstance(e.value, bool):
        return ("const", e.value)
    if isinstance(e, ast.Compare) and len(e.ops) == 1 and type(e.ops[0]) in _NEG and not isinstance(e.ops[0], _POS):
        # normalise a negative comparison to not(positive)
        pos = ast.Compare(left=e.left, ops=[_NEG[type(e.ops[0])]()], comparators=e.comparators)
        return ("not", ("atom", ast.unparse(pos)))
    return ("atom", ast.unparse(e))


def parse(src: str) -> Form:
    return to_form(ast.parse(src, mode="eval").body)


def atoms(f: Form) -> Set[str]:
    k = f[0]
    if k == "atom":
        return {f[1]}
    if k in ("and", "or"):
        out: Set[str] = set()
        for x in f[1]:
            out |= atoms(x)
        return out
    if k == "not":
        return atoms(f[1])
    return set()


def ev(f: Form, env: Dict[str, bool]) -> bool:
    k = f[0]
    if k == "atom":
        return env[f[1]]
    if k == "const":
        return f[1]
    if k == "not":
        return not ev(f[1], env)
    if k == "and":
        return all(ev(x, env) for x in f[1])
    return any(ev(x, env) for x in f[1])


def implies(test: Form, spec: Form, max_atoms: int = 14) -> Tuple[bool, Optional[Dict[str, bool]]]:
    """Does `test` imply `spec` for every assignment of the atoms?  Returns
    (True, None) or (False, counter-assignment)."""
    names = sorted(atoms(test) | atoms(spec))
    if len(names) > max_atoms:
        raise ValueError("too many atoms")
    for vals in itertools.product((False, True), repeat=len(names)):
        env = dict(zip(names, vals))
        if ev(test, env) and not ev(spec, env):
            return False, env
    return True, None
