"""Findings, rule results, known-findings matching, evidence."""
from __future__ import annotations

import json
import os
from dataclasses import dataclass, field, asdict
from typing import Any, Dict, List, Optional, Tuple

VERIF = os.path.dirname(os.path.dirname(os.path.abspath(__file__)))
KNOWN_FILE = os.path.join(VERIF, "known_findings.json")
EVIDENCE_DIR = os.path.join(VERIF, "evidence")


@dataclass
class Finding:
    rule: str
    file: str
    line: int
    func: str
    construct: str  # stable key text: never a line number
    message: str
    advisory: bool = False

    def key(self) -> Tuple[str, str, str, str]:
        return (self.rule, self.file, self.func, self.construct)

    def text(self) -> str:
        return f"{self.file}:{self.line}  {self.rule}  {self.func}  [{self.construct}]  {self.message}"


@dataclass
class RuleResult:
    rule: str
    instances: int = 0  # rule instances examined (call sites, cases, functions ...)
    floor: int = 0  # confirmed-by-hand minimum; below => analysis broken
    obligations: int = 0
    discharged: int = 0
    nontrivial: int = 0  # instances with at least one real obligation
    findings: List[Finding] = field(default_factory=list)
    samples: List[str] = field(default_factory=list)
    notes: List[str] = field(default_factory=list)
    analysed: List[str] = field(default_factory=list)  # functions looked at

    def ob(self, ok: bool) -> bool:
        self.obligations += 1
        if ok:
            self.discharged += 1
        return ok

    def add(self, f: Finding) -> None:
        self.findings.append(f)

    def sample(self, s: str, cap: int = 6) -> None:
        if len(self.samples) < cap:
            self.samples.append(s)


def load_known() -> Dict[str, Any]:
    if not os.path.exists(KNOWN_FILE):
        return {"known": [], "fixed": []}
    with open(KNOWN_FILE) as fh:
        return json.load(fh)


def match_known(known: Dict[str, Any], prop: str, f: Finding) -> Optional[Dict[str, Any]]:
    for k in known.get("known", []):
        props = k.get("properties") or [k.get("property")]
        if prop not in props:
            continue
        if (k["rule"], k["file"], k["function"], k["construct"]) == f.key():
            return k
    return None
