"""Mutant record and file-name shorthands shared by selftest and mutants."""
from dataclasses import dataclass
from typing import Optional

S = "src/exo/rewrite/LoopIR_scheduling.py"
L = "src/exo/core/LoopIR.py"
C = "src/exo/backend/LoopIR_compiler.py"
U = "src/exo/rewrite/LoopIR_unification.py"
B = "src/exo/frontend/boundscheck.py"
P = "src/exo/core/LoopIR_pprint.py"
MA = "src/exo/backend/mem_analysis.py"
PE = "src/exo/core/proc_eqv.py"
API = "src/exo/API.py"
AS = "src/exo/API_scheduling.py"
PM = "src/exo/frontend/pattern_match.py"
NE = "src/exo/rewrite/new_eff.py"


@dataclass
class Mutant:
    name: str
    prop: str
    rule: Optional[str]  # expected rule for must-fire; None => must stay silent
    file: str
    old: str
    new: str
    count: int = 1  # which occurrence (1-based) of `old` to replace; 0 = all
